#!/bin/bash
s=$1; shift
d=$(mktemp -d /tmp/st-c14-XXXX); git -C /repo worktree add --detach $d/repo >/dev/null 2>&1; git -C $d/repo apply /verif/seeded/$s/patch.diff
for seed in "$@"; do VERIF_SEED=$seed VF_REPO=$d/repo ./vf check C14 quick > .st_c14_seed.log 2>&1; echo "seed $seed exit=$? $(grep -o 'wall=[0-9.]*s' .st_c14_seed.log)"; for r in $(grep -o 'replay=[^ ]*' .st_c14_seed.log | cut -d= -f2); do /venv/bin/python -c "import json,sys; d=json.load(open('$r')); print('   ', d['count'], d['signature'][:150])"; done; done
git -C /repo worktree remove --force $d/repo; rm -rf $d
