import random, time, logging, collections, traceback, sys
import onnx, onnx_ir as ir
from vfpy import canon_proto as C, gen_proto as G
logging.getLogger("onnx_ir").setLevel(logging.ERROR)
t0=time.time(); sigs=collections.Counter(); ex=collections.Counter(); shown=set(); ro=0
N=int(sys.argv[1]) if len(sys.argv)>1 else 1500
for i in range(N):
    rng=random.Random(f"t{i}")
    m,used=G.gen_model(rng)
    try:
        q=ir.to_proto(ir.from_proto(m))
    except Exception as e:
        k=type(e).__name__+':'+str(e.__cause__)[:100]
        ex[k]+=1
        if k not in shown: shown.add(k); print('EXC',i,k); traceback.print_exc()
        continue
    if C.canon(m)!=C.canon(q):
        ds=C.differences(C.canon(m,lenient=True),C.canon(q,lenient=True))
        if not ds: ro+=1
        for d in ds:
            s=d.signature(); sigs[s]+=1
            if s not in shown:
                shown.add(s); print(i, m.ir_version, s, d.path, '\n   A:',C.brief(d.a,300),'\n   B:',C.brief(d.b,300))
print(time.time()-t0, 'report-only', ro)
print(sigs); print(ex)
