#!/bin/bash
cd /verif
for p in mutants/C13-*.patch; do
  n=$(basename $p .patch)
  git -C /tmp/wt-c13 checkout -- . && git -C /tmp/wt-c13 apply $PWD/$p || { echo "$n APPLY-FAILED"; continue; }
  VF_EXTRA_FINDINGS=findings_proposed/C13.json VF_REPO=/tmp/wt-c13 ./vf check C13 quick --cases ${CASES:-1300} > .c13tmp/mut/$n.txt 2>&1
  echo "$n rc=$? $(grep -c '^VIOLATION' .c13tmp/mut/$n.txt) violations: $(grep 'violation signature' .c13tmp/mut/$n.txt | sed 's/.*signature: //' | tr '\n' ';')"
done
git -C /tmp/wt-c13 checkout -- .
find /tmp/wt-c13 -name __pycache__ -prune -exec rm -rf {} +
