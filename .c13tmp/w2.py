import json
d=json.load(open('/verif/findings_proposed/C13.json'))
w=d['findings'][0]['witness']
exec(w['python']); print("python witness ok")
import logging; logging.disable(logging.CRITICAL)
exec(w['python_functionalize']); print("functionalize witness ok")
json.dump({"property":"C13","replay":w['replay_functionalize']}, open('/verif/.c13tmp/w3.json','w'))
