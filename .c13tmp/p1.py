import onnx_ir as ir, numpy as np
x = ir.Value(name="x", type=ir.TensorType(ir.DataType.FLOAT), shape=ir.Shape([2,"N"]))
n = ir.Node("", "Relu", [x], num_outputs=1, name="n")
n.outputs[0].name="y"; n.outputs[0].type=ir.TensorType(ir.DataType.FLOAT)
g = ir.Graph([x],[n.outputs[0]],nodes=[n],name="g", opset_imports={"":20})
m = ir.Model(g, ir_version=10)
c = m.clone()
print(c.graph.inputs[0].type is x.type, c.graph.outputs[0].type is n.outputs[0].type)
c.graph.inputs[0].dtype = ir.DataType.INT64
print(x.dtype)
# None names
v = ir.Value(name=None)
g2 = ir.Graph([v],[v],nodes=[],name="g2")
print("input name after graph:", v.name)
n2 = ir.Node("", "Relu", [v], num_outputs=1)
g2.append(n2); print(n2.name, n2.outputs[0].name)
n2.outputs[0].name=None; n2.name=None
try:
    p = ir.to_proto(g2); print(p)
except Exception as e: print("ser raised", type(e), e)
c2 = g2.clone(); print([ (nn.name, nn.outputs[0].name) for nn in c2])
