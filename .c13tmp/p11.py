import logging, random; logging.disable(logging.CRITICAL)
import onnx_ir as ir
from vfpy.props import c13
from vfpy.ctx import Ctx
from collections import Counter
ctx = Ctx("C13","quick",0,0,1,300,100,{"edits":30})
cnt=Counter()
for case in range(300):
    rng=ctx.rng(case)
    desc,b=c13.make_desc(ctx,case,rng)
    if desc is None: continue
    r=c13.resolve_target(b,desc)
    if r is None: continue
    target,kind,ana,parts,relaxed=r
    try: c13.proto_bytes(target)
    except Exception as e:
        cnt[(desc['src']['kind'],kind,type(e).__name__, str(e.__cause__)[:150] if e.__cause__ else str(e)[:150])]+=1
for k,v in cnt.items(): print(v,k)
