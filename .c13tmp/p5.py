import random, time, logging
logging.disable(logging.CRITICAL)
import onnx_ir as ir
from vfpy import c13_gen
from collections import Counter
t=time.time(); c=Counter(); sizes=[]
for i in range(600):
    rng=random.Random(i)
    spec=c13_gen.default_spec(rng)
    m=c13_gen.build(spec)
    n=sum(1 for _ in m.graph.all_nodes())+sum(sum(1 for _ in f.all_nodes()) for f in m.functions.values())
    sizes.append(n)
    try:
        p=ir.to_proto(m).SerializeToString(deterministic=True); c["ser_ok"]+=1
    except Exception as e:
        c["ser_fail:"+type(e).__name__+str(e)[:80]]+=1
    try:
        cl=m.clone(); c["clone_ok"]+=1
        p2=ir.to_proto(cl).SerializeToString(deterministic=True)
        c["eq" if p==p2 else "neq"]+=1
    except Exception as e:
        c["clone_fail:"+type(e).__name__+str(e)[:100]]+=1
print(time.time()-t, c, sum(sizes)/len(sizes), max(sizes))
