import logging; logging.disable(logging.CRITICAL)
import onnx_ir as ir, numpy as np, traceback
from vfpy import c13_gen
spec={'family': 'struct', 'nodes': 1, 'depth': 0, 'funcs': 1, 'inits': 3, 'dev': False, 'meta': False, 'seed': 398204172}
m=c13_gen.build(spec)
for k,v in m.graph.initializers.items(): print(k, v.const_value.name, id(v.const_value), v.is_graph_input())
orig = type(list(m.graph.initializers.values())[0].const_value)
import onnx_ir._core as core
old = core.TensorBase.name.fset if hasattr(core.TensorBase.name,'fset') else None
print(old)
def spy(self, value):
    if self.name != value:
        print("RENAME", self.name, "->", value); traceback.print_stack(limit=6)
    old(self, value)
if old: core.TensorBase.name = core.TensorBase.name.setter(spy)
else:
    pass
c=m.clone()
for k,v in m.graph.initializers.items(): print(k, v.const_value.name)
