import cProfile, pstats, sys
from vfpy.ctx import Ctx
from vfpy.props import c13
ctx = Ctx("C13","quick",0,0,16,320,100,{"edits":30})
cProfile.run("c13.run(ctx)", "/verif/.c13tmp/prof.out")
p=pstats.Stats("/verif/.c13tmp/prof.out"); p.sort_stats("cumulative").print_stats(35)
