import subprocess, sys
sys.path.insert(0,'/verif/.c13tmp')
WT='/tmp/wt-c13'
def edit(path, old, new, count=1):
    p=f'{WT}/{path}'; s=open(p).read()
    assert s.count(old)>=1, (path, old)
    s=s.replace(old,new,count); open(p,'w').write(s)
def save(name):
    d=subprocess.run(['git','-C',WT,'diff','-U1'],capture_output=True,text=True).stdout
    assert d.strip()
    open(f'/verif/mutants/C13-{name}.patch','w').write(d)
    subprocess.check_call(['git','-C',WT,'checkout','--','.'])
    print(name, len(d.splitlines()))
C='src/onnx_ir/_cloner.py'; K='src/onnx_ir/_core.py'
edit(C, '''            self.clone_meta(value.meta, new_value.meta, deep_copy=deep_copy)
''','''            self.clone_meta(value.meta, new_value.meta)
''')
save('input-meta-deep-copy-dropped')
edit(K, '''            metadata_props=dict(self.metadata_props),
            device_configurations=self.device_configurations,''','''            metadata_props=self.metadata_props,
            device_configurations=self.device_configurations,''')
save('model-metadata-props-shared')
edit(C, '''            opset_imports=graph.opset_imports.copy(),''','''            opset_imports=graph.opset_imports,''')
save('opset-imports-shared')
