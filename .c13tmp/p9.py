import logging, json, sys; logging.disable(logging.CRITICAL)
import onnx_ir as ir
from vfpy.props import c13
d=json.load(open(sys.argv[1]))['replay']
b=c13.build_source(d['desc']['src'])
target, kind, ana, parts, relaxed = c13.resolve_target(b, d['desc'])
print("outer", [(r, v.name) for p in parts for r, v in p.outer_refs()], "forward", [(r, v.name) for p in parts for r, v in p.forward_refs()], ana.problems)
cl = c13.do_clone(target, kind, d['desc'])
po, pc = ir.to_proto(target), ir.to_proto(cl)
import difflib
print("\n".join(difflib.unified_diff(str(po).splitlines(), str(pc).splitlines(), lineterm="", n=4)))
print(po)
print("view inputs", [v.name for v in target.inputs], "outputs", [v.name for v in target.outputs], "inits", list(target.initializers))
for n in target: print(n.name, n.op_type, [v.name if v else None for v in n.inputs], [v.name for v in n.outputs])
