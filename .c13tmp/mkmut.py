import subprocess, sys
WT='/tmp/wt-c13'
def edit(path, old, new, count=1):
    p=f'{WT}/{path}'; s=open(p).read()
    assert s.count(old)>=1, (path, old)
    s=s.replace(old,new,count); open(p,'w').write(s)
def save(name):
    d=subprocess.run(['git','-C',WT,'diff','-U1'],capture_output=True,text=True).stdout
    assert d.strip()
    open(f'/verif/mutants/C13-{name}.patch','w').write(d)
    subprocess.check_call(['git','-C',WT,'checkout','--','.'])
    print(name, len(d.splitlines()))

C='src/onnx_ir/_cloner.py'; K='src/onnx_ir/_core.py'
# 1. graph metadata_props handed to the constructor (stored by reference) instead of copied
edit(C, '''            opset_imports=graph.opset_imports.copy(),
            name=graph.name,
        )
        if graph.metadata_props:
            new_graph.metadata_props.update(graph.metadata_props)
''','''            opset_imports=graph.opset_imports.copy(),
            name=graph.name,
            metadata_props=graph.metadata_props or None,
        )
''')
save('share-graph-metadata-props')
# 2. Shape keeps the caller's denotation list (Shape.copy then aliases it)
edit(K, '''        self._denotations: list[str | None] = (
            list(denotations) if denotations is not None else [None] * len(self._dims)
        )''','''        self._denotations: list[str | None] = (
            denotations  # type: ignore[assignment]
            if isinstance(denotations, list)
            else list(denotations)
            if denotations is not None
            else [None] * len(self._dims)
        )''')
save('shape-denotations-aliased')
# 3. frozen shapes are shared with the clone
edit(C, '''        self._value_map[value] = new_value
        return new_value
''','''        if value.shape is not None and value.shape.frozen:
            # A frozen shape is immutable and can be shared
            new_value.shape = value.shape
        self._value_map[value] = new_value
        return new_value
''')
save('frozen-shape-reused')
# 4. sharding specs remapped before the node's outputs are in the value map
edit(C, '''            device_configurations=node.device_configurations,
        )''','''            device_configurations=self._remap_device_configurations(node.device_configurations),
        )''')
edit(C, '''        # Remap object-bound sharding references to the cloned values so the
        # cloned node's device configurations point at the cloned graph's values.
        new_node.device_configurations = self._remap_device_configurations(
            new_node.device_configurations
        )

''','')
save('sharding-remap-before-outputs')
# 5. Model.clone shares the functions
edit(K, '''        new_functions = [func.clone(deep_copy=deep_copy) for func in self.functions.values()]
''','''        new_functions = list(self.functions.values())
''')
save('model-clone-shares-functions')
# 6. deep_copy not forwarded for node meta
edit(C, '''            self.clone_meta(node.meta, new_node.meta, deep_copy=deep_copy)
''','''            self.clone_meta(node.meta, new_node.meta)
''')
save('node-meta-deep-copy-dropped')
# 7. GraphView.clone silently accepts captured outer values
edit(K, '''        cloner = _cloner.Cloner(
            attr_map={},
            value_map={},
            metadata_props={},
            resolve_ref_attrs=False,
        )
        return cloner.clone_graph(self, deep_copy=deep_copy)


class Model(''','''        cloner = _cloner.Cloner(
            attr_map={},
            value_map={},
            metadata_props={},
            resolve_ref_attrs=False,
            allow_outer_scope_values=True,
        )
        return cloner.clone_graph(self, deep_copy=deep_copy)


class Model(''')
save('view-clone-allows-captures')
# 8. an input that already has a producer (GraphView boundary) is referenced, not copied
edit(C, '''        # If the value is not in the value map, it must be a graph input.
''','''        if value.producer() is not None:
            # Input of a GraphView that is produced elsewhere: reference it directly
            self._value_map[value] = value
            return value
        # If the value is not in the value map, it must be a graph input.
''')
save('produced-input-mapped-to-original')
