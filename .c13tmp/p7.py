import logging; logging.disable(logging.CRITICAL)
import onnx_ir as ir, numpy as np, traceback
F=ir.DataType.FLOAT
class T(ir.Tensor):
    pass
t = ir.tensor(np.ones((2,),dtype=np.float32), name="w0")
w0 = ir.Value(name="w0", const_value=t); w1 = ir.Value(name="w1", const_value=t)
print("after ctor:", t.name)
g = ir.Graph([],[],nodes=[],initializers=[w0,w1],name="g")
print("after graph:", t.name)
t.name="w0"
c = g.clone()
print("after clone:", t.name)
