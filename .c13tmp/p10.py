import logging, json, sys; logging.disable(logging.CRITICAL)
import onnx_ir as ir
from vfpy.props import c13
from vfpy import invariants
d=json.load(open(sys.argv[1]))['replay']
b=c13.build_source(d['desc']['src'])
w=b.hist_world
for v in w.values: print(w.label(v), v.name, v.producer() and w.label(v.producer()), v.index(), w.label(v.graph), v.is_graph_input(), v.is_graph_output(), v.is_initializer())
for g in w.graphs: print(w.label(g), [w.label(v) for v in g.inputs], [w.label(v) for v in g.outputs], [w.label(n) for n in g], list(g.initializers))
print(invariants.check_world(w))
