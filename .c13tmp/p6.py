import logging; logging.disable(logging.CRITICAL)
import onnx_ir as ir, numpy as np
F=ir.DataType.FLOAT
t = ir.tensor(np.ones((2,),dtype=np.float32), name="w")
w = ir.Value(name="w", const_value=t, type=ir.TensorType(F), shape=ir.Shape([2]))
x = ir.Value(name="x", type=ir.TensorType(F), shape=ir.Shape([2]))
n = ir.Node("", "Add", [x,w], num_outputs=1, name="n"); y=n.outputs[0]; y.name="y"; y.type=ir.TensorType(F); y.shape=ir.Shape([2])
g = ir.Graph([x],[y],nodes=[n],initializers=[w],name="g", opset_imports={"":20})
m = ir.Model(g, ir_version=10)
p0 = ir.to_proto(m).SerializeToString(deterministic=True)
c = m.clone()
c.graph.initializers["w"].name = "renamed"
print("orig tensor name:", w.const_value.name, "orig value name:", w.name)
p1 = ir.to_proto(m)
print("proto same:", p1.SerializeToString(deterministic=True)==p0)
print([i.name for i in p1.graph.initializer], [i for i in p1.graph.node[0].input])
import onnx
try:
    onnx.checker.check_model(p1); print("checker ok")
except Exception as e: print("checker:", str(e)[:200])
