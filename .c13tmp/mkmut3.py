import subprocess, sys
WT='/tmp/wt-c13'
def edit(path, old, new, count=1):
    p=f'{WT}/{path}'; s=open(p).read()
    assert s.count(old)>=1, (path, old)
    s=s.replace(old,new,count); open(p,'w').write(s)
def save(name):
    d=subprocess.run(['git','-C',WT,'diff','-U1'],capture_output=True,text=True).stdout
    assert d.strip()
    open(f'/verif/mutants/C13-{name}.patch','w').write(d)
    subprocess.check_call(['git','-C',WT,'checkout','--','.'])
    print(name, len(d.splitlines()))
C='src/onnx_ir/_cloner.py'; K='src/onnx_ir/_core.py'
edit(C, '''                return _core.Attr(
                    key, _enums.AttributeType.GRAPHS, graphs, doc_string=attr.doc_string
                )''','''                return _core.Attr(key, _enums.AttributeType.GRAPHS, graphs)''')
save('graphs-attr-doc-dropped')
edit(K, '''            name=self._name,
            overload=self._overload,
            graph=new_graph,''','''            name=self._name,
            graph=new_graph,''')
save('function-clone-forgets-overload')
