import onnx_ir as ir, inspect
for f in (ir.Graph.__init__, ir.Node.__init__, ir.Value.__init__, ir.Model.__init__, ir.GraphView.__init__, ir.tensor, ir.AttrTensor, ir.AttrTypeProtos):
    print(f.__qualname__, inspect.signature(f))
for a in ("version","domain","overload","op_type","name"):
    p = getattr(ir.Node, a); print(a, isinstance(p, property) and p.fset is not None)
print([a for a in dir(ir.Attr) if not a.startswith("_")])
