import onnx_ir as ir, numpy as np
from onnx_ir.passes import functionalize
from onnx_ir.passes import common as cp
F=ir.DataType.FLOAT
x = ir.Value(name="x", type=ir.TensorType(F), shape=ir.Shape([2,"N"]))
n = ir.Node("", "Relu", [x], num_outputs=1, name="n")
y=n.outputs[0]; y.name="y"; y.type=ir.TensorType(ir.DataType.UNDEFINED)
n2 = ir.Node("", "Identity", [y], num_outputs=1, name="n2")
z=n2.outputs[0]; z.name="z"; z.type=ir.TensorType(F); z.shape=ir.Shape([2,"N"])
g = ir.Graph([x],[z],nodes=[n,n2],name="g", opset_imports={"":20})
m = ir.Model(g, ir_version=10)
r = functionalize(cp.ShapeInferencePass())(m)
print("orig y dtype after functionalized shape inference:", y.dtype, "clone:", r.model.graph[0].outputs[0].dtype, r.modified)
print(ir.to_proto(m).graph.value_info)
