import random, time, logging, collections, traceback, sys
import onnx, onnx_ir as ir
from onnx_ir import serde
from vfpy import canon_proto as C, gen_proto as G
logging.getLogger("onnx_ir").setLevel(logging.ERROR)
N=int(sys.argv[1]) if len(sys.argv)>1 else 800
def rt_type(tp):
    ts = ir.from_proto(tp)
    q = ir.to_proto(ts.type) if ts.type is not None else onnx.TypeProto()
    if ts.shape is not None: serde.serialize_shape_into(q, ts.shape)
    return q
for kind, gen in [('graph',G.gen_graph),('function',G.gen_function),('node',G.gen_node),('tensor',G.gen_tensor),('attr',G.gen_attribute),('vi',G.gen_value_info),('type',G.gen_type)]:
    t0=time.time(); sigs=collections.Counter(); ex=collections.Counter(); shown=set(); ro=0
    for i in range(N):
        rng=random.Random(f"{kind}{i}")
        m,used=gen(rng)
        try:
            q = rt_type(m) if kind=='type' else ir.to_proto(ir.from_proto(m))
            assert type(q) is type(m), (type(q), type(m))
        except Exception as e:
            k=type(e).__name__+':'+str(e)[:80]+'|'+str(e.__cause__)[:100]
            ex[k]+=1
            if k not in shown: shown.add(k); print('EXC',i,k); traceback.print_exc()
            continue
        if C.canon(m)!=C.canon(q):
            ds=C.differences(C.canon(m,lenient=True),C.canon(q,lenient=True))
            if not ds: ro+=1
            for d in ds:
                s=d.signature(); sigs[s]+=1
                if s not in shown:
                    shown.add(s); print(kind, i, s, d.path, '\n   A:',C.brief(d.a,300),'\n   B:',C.brief(d.b,300))
    print(kind, round(time.time()-t0,2), 'report-only', ro, dict(sigs), dict(ex))
