"""Shared driver for history-shaped workloads (C01, C06, ...): generate, execute, monitor after
every call, shrink a failing history with ddmin and derive a mechanism-level signature."""

from __future__ import annotations

from vfpy import invariants, shrink
from vfpy.gen_ops import Gen
from vfpy.world import CONSTRUCTORS, PAYLOAD, World


def replay_ops(ops, monitor):
    """Execute ops on a fresh world; ``monitor(world, op, result, step)`` returns a list of
    (clause, message) or None.  Returns (world, first_failure) where first_failure is
    (step, op, result, findings) or None."""
    w = World()
    for step, op in enumerate(ops):
        pre = monitor.before(w, op) if hasattr(monitor, "before") else None
        res = w.apply(op)
        found = monitor.after(w, op, res, pre)
        if found:
            return w, (step, op, res, found)
    return w, None


def op_kind(op, res) -> str:
    k = op[0]
    if k.startswith("io_") or k.startswith("in_"):
        pass
    if len(op) > 2 and op[0].startswith("io_") and isinstance(op[2], str):
        k = f"{k}({op[2]})"
    return k + ("!" if res is not None and res.raised else "")


def raise_site(exc) -> str:
    """module.function of the innermost onnx_ir frame that raised (mechanism-level, seed-independent)."""
    tb = exc.__traceback__
    site = "?"
    collaborator = False
    while tb is not None:
        code = tb.tb_frame.f_code
        fn = code.co_filename.replace("\\", "/")
        if "/onnx_ir/" in fn:
            mod = fn.rsplit("/onnx_ir/", 1)[1].rsplit(".py", 1)[0].replace("/", ".")
            site = f"{mod}.{code.co_qualname if hasattr(code, 'co_qualname') else code.co_name}"
            collaborator = False
        elif fn.endswith("/vfpy/world.py") and "PickyTensor" in getattr(code, "co_qualname", code.co_name):
            collaborator = True  # raised by the harness's validating tensor class, called from `site`
        tb = tb.tb_next
    return site + ("<-collaborator" if collaborator else "")


def signature(clauses, ops, results) -> str:
    """Mechanism-level signature: violated clauses | the call after which the violation became
    observable | the other calls of the 1-minimal witness that raised.  Calls that succeeded
    earlier only set the stage (the walker runs after every call, so a call that plants a visible
    fault is always the last one)."""
    last = op_kind(ops[-1], results[-1]) if ops else "?"
    raised = sorted({op_kind(o, r) for o, r in zip(ops[:-1], results[:-1]) if r is not None and r.raised})
    return "+".join(sorted(set(clauses))) + "|" + last + "|" + ";".join(raised)


def shrink_history(ops, monitor, clause_set):
    def fails(sub):
        _, f = replay_ops(sub, monitor)
        return bool(f) and bool({c for c, _ in f[3]} & clause_set)

    small = shrink.ddmin(ops, fails, max_tests=600)
    # results of the minimal witness for the signature
    w = World()
    results = []
    final = None
    for op in small:
        pre = monitor.before(w, op) if hasattr(monitor, "before") else None
        res = w.apply(op)
        results.append(res)
        found = monitor.after(w, op, res, pre)
        if found:
            final = found
            break
    return small[: len(results)], results, final


def shrink_with(ops, make_monitor, clause_set, max_tests=600):
    """ddmin with a fresh monitor per replay (for monitors that carry per-history state)."""
    def fails(sub):
        _, f = replay_ops(sub, make_monitor())
        return bool(f) and bool({c for c, _ in f[3]} & clause_set)

    return shrink.ddmin(ops, fails, max_tests=max_tests)


def results_of(ops):
    w = World()
    return [w.apply(op) for op in ops]


def describe(ops, results) -> list[str]:
    out = []
    for op, res in zip(ops, results):
        tail = ""
        if res.skipped:
            tail = "  -> skipped"
        elif res.raised:
            tail = f"  -> raised {type(res.exc).__name__}: {str(res.exc)[:120]}"
        out.append(f"{op}{tail}")
    return out


class WalkerMonitor:
    """C01: the invariant walker after every call."""

    def after(self, w, op, res, pre):
        return invariants.check_world(w)
