"""C02's own extension of ``vfpy.gen_proto.ProtoGen`` (a subclass: the shared generator is untouched).

Two dimensions the shared generator does not have, both still WELL-FORMED protos of the supported
feature set:

**Names that are not opaque** (``alias_names``).  The shared allocator hands out names that are unique
per model and carry no structure.  Any string is a legal ONNX value name and each graph / function is
its own name scope, so with this feature a value of a graph that is generated *after* a function (the
main graph of a model, its subgraphs, a later function) may be named

  * exactly like a value of an earlier function (``bare``: two scopes, one name),
  * ``{domain}::{function}/{value}`` of an earlier function and one of its values (``convention``:
    the spelling serde itself uses to park function value-info in the main graph of IR < 10 models),
  * a near miss of that spelling (``{domain}::{function}``, ``{function}/{value}``,
    ``{domain}::{function}::{overload}/{value}``, ``{domain}::{function}/{value}/x``).

  The two structured spellings are used from IR 10 on only: below, serde documents that it claims
  names of that form in the main graph's value_info for the function (the statement is silent on what
  a *real* main-graph value of such a name means there).  A structured/bare name is used at most once
  as an alias, so names stay unique within every scope chain.

**One value described at more than one place, the places saying different amounts** (``overlap_*``).
The shared generator declares every value exactly once (a forwarded input is copied verbatim, an
initializer that is a graph output has no value_info entry).  Here, after a graph has been generated:

  * ``overlap_untyped_output``: the ``output`` entry of an initializer that is a graph output is
    listed *without a type* (name, maybe doc string / metadata) although the value is typed by its
    tensor - added as an extra output when the graph has none; the type of an ``output`` entry is
    optional, the entry must come back as it went in;
  * ``overlap_output_value_info``: a graph output produced by a node additionally gets a
    ``value_info`` entry (type and shape only - no doc string or metadata, so that nothing but the
    type is said twice); the ``output`` entry may then be stripped of its type as above.  ``canon`` N4
    drops value_info entries naming a declared input/output on both sides, so only the ``output``
    entry itself is judged;
  * ``overlap_untyped_init_input`` (IR >= 4): the ``input`` entry of an initializer that is also a
    graph input is listed without a type (a verbatim forwarded copy among the outputs is kept
    identical).

**Storage strings that are not in a normal form** (``location_spelling``).  The shared generator
spells the ``location`` of an external tensor in exactly one way: a plain, already normalised relative
path (``weights.bin``, ``data/w.bin``).  A location is an opaque string of the proto - a relative path
the *producer* chose to spell - and the statement promises every storage field back unaltered.  With
this feature the location of an external tensor (initializer, TENSOR/TENSORS attribute value,
stand-alone tensor) is re-spelled by composing rewrites none of which changes the file it names or
makes it absolute / leave the model directory:

  * ``dot_prefix``: leading ``./`` (possibly twice);
  * ``double_sep``: a doubled separator between two segments;
  * ``dot_segment``: an inner ``/./`` segment;
  * ``updir_inner``: an inner ``sub/../`` detour (never leading, so the path stays inside);
  * ``case``: upper / mixed case letters in a segment or the extension (``Weights.BIN``);
  * ``blank``: a blank inside a segment, or a leading / trailing blank of the whole string;
  * ``non_ascii``: a non-ASCII segment in composed or decomposed Unicode form (the two are different
    strings);
  * ``backslash``: a backslash inside a segment (an ordinary file-name character of a POSIX path);
  * ``percent``: a percent-escape-looking segment (``w%20x.bin``: not an escape, just characters);
  * ``deep``: several directory levels.

**Carriers that say almost nothing** (``sparse_carriers``).  The shared generator toggles ~75 features
independently with probability >= 0.5 each, so a carrier nearly always has *several* of its optional
fields populated at once, and some combinations never occur at all (an entry of a ``value_info`` list
always carries a type).  Code that asks "is there anything worth keeping here?" is only exercised by
carriers where exactly ONE thing is worth keeping.  With this feature a site (each carrier drawn
independently with a per-case probability of 0.3 / 0.6 / 1.0) is built from the fields the format
requires plus AT MOST ONE optional field:

  * ``value_info``: name + exactly one of doc string / metadata (IR >= 10) / type in a ``value_info``
    list of a graph or function - the entry names a node output or function input that exists, so canon
    N4 keeps it; name + at most one of them for a graph input / output / stand-alone entry; the bare
    tensor type + at most one of doc string / metadata for an entry of an initializer;
  * ``type``: a tensor (rarely sparse-tensor) leaf with ``elem_type`` and one of: nothing, a denotation,
    a rank-0 shape, a single dimension that has only a value / only a parameter / only a denotation /
    nothing; or one sequence / optional wrapper around such a leaf with the denotation on the wrapper
    only or on the element only;
  * ``tensor``: data type + payload (typed or raw storage; no storage field at all when it has no
    elements) + one of: nothing (an unnamed scalar), one dimension, a doc string, metadata (IR >= 10);
    the name only where the site requires one;
  * ``attribute``: name + type + the zero / empty value of its kind (0, 0.0, b"", no list elements, one
    element for message lists), rarely a doc string;
  * ``node``: operator + one output + one of: nothing, name, custom domain, doc string, metadata, one
    input, one attribute, one reference attribute (inside a function with attributes);
  * ``graph``: name + (no node: the output is the input | one node without inputs | one node fed by the
    input) + one of: nothing, doc string, metadata, one initializer, one value_info entry (for the
    output of a first node that a second consumes), one quantization annotation (IR >= 5);
  * ``function``: id + opset import + one node + one output + one of: nothing, doc string, metadata,
    one input, one attribute name, one attribute default, one value_info entry;
  * ``model``: IR version + graph + opset imports + one of: nothing, producer name, producer version,
    domain, model version, doc string, metadata, one function, one device configuration.

  Nested carriers go through the same per-site draw, so with probability 1.0 a whole message is sparse
  at every level.  A stand-alone TypeProto / ValueInfoProto type that has a denotation but no value case
  is generated rarely and is REPORT-ONLY (``report_only`` is set): the ONNX checker rejects such a
  type and the statement is silent on it.

**Function value info parked in the main graph** (``fn_value_info_pre10``, models of IR 8..9 with
functions).  Before IR 10 a FunctionProto has no ``value_info`` of its own; serde documents that the types
of a function's values are then the ``value_info`` entries of the MAIN graph that are named
``{domain}::{function}/{value}``.  With this feature each input and each top-level node output of each
model-local function (whose name contains no '/': the spelling could not be told apart otherwise) gets such
an entry with probability 0.6 - full-featured or sparse like every other entry.  ``entries_for_functions``
tells the oracle which entries of a main graph these are (canon N4 would drop them as naming nothing in the
main graph).

**Carriers of degenerate arity** (``degenerate_arity``; 35% of cases, then per site: function 0.5, graph
0.35).  The shared generator gives every function at least one node and one output, every main graph at
least one input, every graph at least one node and one output and every node an output.  Loops "over the
inputs", "over the nodes", "over the outputs" are only exercised on their empty range by carriers that have
NONE of them.  With this feature a function / graph is built full-featured (doc strings, metadata,
attributes, value_info, annotations as usual) but with one of the shapes

  * function: ``no_input`` | ``no_node`` (outputs forward inputs) | ``no_output`` | ``no_input_no_output``
    | ``nothing`` (no input, node or output) - each with attribute parameters or without;
  * graph: ``no_input`` (initializers and source nodes only) | ``no_node`` (outputs forward inputs /
    initializers) | ``no_output`` | ``no_input_no_output``;
  * and, inside such a carrier, rarely a node without outputs (and possibly without inputs).

Nothing here imports ``onnx_ir``.
"""

from __future__ import annotations

import random
from typing import Iterable

import onnx

from vfpy import gen_proto as gp

#: features of this module (toggled like the shared ones, with draws made AFTER the shared ones)
EXTRA_FEATURES: tuple[str, ...] = (
    "alias_names", "overlap_untyped_output", "overlap_output_value_info", "overlap_untyped_init_input",
    "location_spelling",
)
EXTRA_MIN_IR = {"alias_names": 8, "overlap_untyped_init_input": 4}
#: first IR version in which FunctionProto has its own value_info: the structured spellings are
#: only generated from here on (see module doc)
_STRUCTURED_MIN_IR = 10
_ALIASABLE_PREFIXES = frozenset({"v", "in", "w", "ghost"})

#: rewrites of a relative location (see module doc); each keeps the path relative, inside the model
#: directory and naming the same file *as far as path semantics go* - as a string it is different
LOCATION_STYLES: tuple[str, ...] = (
    "dot_prefix", "double_sep", "dot_segment", "updir_inner", "case", "blank", "non_ascii", "backslash",
    "percent", "deep",
)
#: segment-level rewrites first, structural ones (which add '.', '..' and empty segments) last
_APPLY_ORDER = ("deep", "case", "blank", "non_ascii", "backslash", "percent", "updir_inner", "dot_segment",
                "double_sep", "dot_prefix")
_SEGMENTS = ("data", "shards", "w", "ext", "part-0", "v1.2")
_NON_ASCII = ("caf\u00e9", "cafe\u0301", "\u65e5\u672c", "\u00c5", "A\u030a")  # composed / decomposed pairs


class ProtoGenC02(gp.ProtoGen):
    def __init__(self, rng: random.Random, features: Iterable[str] | None = None, *,
                 force: Iterable[str] = (), extra_force: Iterable[str] = (), p_extra: float = 0.6, p_sparse: float = 0.35,
                 p_degenerate: float = 0.35, **kw) -> None:
        super().__init__(rng, features, force=force, **kw)
        extra_force = set(extra_force)
        for f in EXTRA_FEATURES:  # fixed order: determinism
            draw = rng.random()
            if EXTRA_MIN_IR.get(f, 3) > self.ir_version:
                continue
            if f in extra_force or draw < p_extra:
                self.enabled.add(f)
        # carriers that say almost nothing: case-level switch, then one site probability per case
        draw, level = rng.random(), rng.random()
        if "sparse_carriers" in extra_force or draw < p_sparse:
            self.enabled.add("sparse_carriers")
        self._sparse_p = 1.0 if level < 0.3 else (0.6 if level < 0.65 else 0.3)
        # function value info parked in the main graph (IR 8..9); carriers of degenerate arity
        draw_fvi, draw_deg = rng.random(), rng.random()
        if 8 <= self.ir_version < _STRUCTURED_MIN_IR and ("fn_value_info_pre10" in extra_force or draw_fvi < 0.7):
            self.enabled.add("fn_value_info_pre10")
        if "degenerate_arity" in extra_force or draw_deg < p_degenerate:
            self.enabled.add("degenerate_arity")
        #: set by ``build`` when the proto contains a construct the statement is silent on
        self.report_only: str | None = None
        self.forced |= extra_force
        # (domain, name, overload, [value names]) of the functions generated so far
        self._fn_values: list[tuple[str, str, str, list[str]]] = []
        self._alias_taken: set[str] = set()
        self._building_function = False

    # ---- names that are not opaque ---------------------------------------------------------------
    def name(self, prefix: str = "v") -> str:
        plain = super().name(prefix)  # always advances the allocator
        if prefix not in _ALIASABLE_PREFIXES or not self._fn_values or "alias_names" not in self.enabled:
            return plain
        if self.rng.random() >= (0.45 if "alias_names" in self.forced else 0.3):
            return plain
        cand, style = self._alias_candidate()
        if cand is None or cand in self._alias_taken:
            return plain
        self._alias_taken.add(cand)
        self.used.add("alias_names")
        self.used.add(f"alias_names:{style}")
        return cand

    def _alias_candidate(self) -> tuple[str | None, str]:
        rng = self.rng
        d, n, ov, values = rng.choice(self._fn_values)
        if not values:
            return None, ""
        v = rng.choice(values)
        structured = self.ir_version >= _STRUCTURED_MIN_IR and not self._building_function
        r = rng.random()
        if not structured or r < 0.3:
            return v, "bare"
        if r < 0.8:
            return f"{d}::{n}/{v}", "convention"
        return rng.choice((f"{d}::{n}", f"{n}/{v}", f"{d}::{n}::{ov or 'a'}/{v}", f"{d}::{n}/{v}/x")), "near_miss"

    def _function_into(self, f: onnx.FunctionProto, domain: str, name: str, overload: str) -> dict:
        saved = self._building_function
        self._building_function = True
        try:
            if self._degenerate("function", 0.5):
                info = self._degenerate_function(f, domain, name, overload)
            elif self._sparse("function"):
                info = self._sparse_function(f, domain, name, overload)
            else:
                info = super()._function_into(f, domain, name, overload)
        finally:
            self._building_function = saved
        values = list(dict.fromkeys(list(f.input) + [o for n in f.node for o in n.output if o]))
        self._fn_values.append((domain, name, overload, values))
        return info

    # ---- storage strings that are not in a normal form -------------------------------------------
    def _tensor_into(self, t: onnx.TensorProto, name: str | None, *, allow_external: bool = True) -> None:
        if self._sparse("tensor"):
            self._sparse_tensor(t, name)
            return
        super()._tensor_into(t, name, allow_external=allow_external)
        if t.data_location != onnx.TensorProto.EXTERNAL:
            return
        if not self.on("location_spelling", 0.65):
            return
        for e in t.external_data:
            if e.key == "location":
                e.value = self._respell_location(e.value)

    def _respell_location(self, location: str) -> str:
        rng = self.rng
        parts = [p for p in location.split("/") if p]
        styles = rng.sample(LOCATION_STYLES, rng.choice((1, 1, 1, 2, 2, 3)))
        lead = ""
        for style in _APPLY_ORDER:  # fixed application order; the sample decides which apply
            if style not in styles:
                continue
            self.used.add(f"location_spelling:{style}")
            if style == "deep":
                parts = [rng.choice(_SEGMENTS) for _ in range(rng.randint(1, 3))] + parts
            elif style == "case":
                i = rng.randrange(len(parts))
                parts[i] = rng.choice((parts[i].upper(), parts[i].capitalize(), parts[i].swapcase() or parts[i]))
                if parts[i] == parts[i].lower():
                    parts[i] = "W" + parts[i]
            elif style == "blank":
                r = rng.random()
                if r < 0.4:
                    i = rng.randrange(len(parts))
                    parts[i] = parts[i][:1] + " " + parts[i][1:]
                elif r < 0.7:
                    parts[-1] = parts[-1] + " "
                else:
                    parts[0] = " " + parts[0]
            elif style == "non_ascii":
                parts.insert(rng.randrange(len(parts)), rng.choice(_NON_ASCII))
            elif style == "backslash":
                i = rng.randrange(len(parts))
                parts[i] = parts[i][:1] + "\\" + parts[i][1:]
            elif style == "percent":
                i = rng.randrange(len(parts))
                parts[i] = parts[i][:1] + rng.choice(("%20", "%2F", "%")) + parts[i][1:]
            elif style == "updir_inner":
                # a detour through a sub directory and back: never leading, so the path stays inside
                if len(parts) == 1:
                    parts = [rng.choice(_SEGMENTS)] + parts
                i = rng.randint(1, len(parts) - 1)  # before the file name, after the first directory
                parts[i:i] = [rng.choice(_SEGMENTS), ".."]
            elif style == "dot_segment":
                if len(parts) == 1:
                    parts = [rng.choice(_SEGMENTS)] + parts
                parts.insert(rng.randint(1, len(parts) - 1), ".")
            elif style == "double_sep":
                if len(parts) == 1:
                    parts = [rng.choice(_SEGMENTS)] + parts
                parts.insert(rng.randint(1, len(parts) - 1), "")
            elif style == "dot_prefix":
                lead = rng.choice(("./", "./", "././", ".//"))
        return lead + "/".join(parts)

    # ---- one value, several entries ----------------------------------------------------------------
    def _graph_into(self, g: onnx.GraphProto, *, depth: int, outer: list[str]) -> None:
        if self._degenerate("graph", 0.35):
            self._degenerate_graph(g, depth=depth, outer=outer)
        elif self._sparse("graph"):
            self._sparse_graph(g, depth=depth, outer=outer)
        else:
            super()._graph_into(g, depth=depth, outer=outer)
        self._overlap(g)

    def _strip_type(self, vi: onnx.ValueInfoProto) -> None:
        vi.ClearField("type")
        # what is left is what the entry says: a name, maybe a doc string, maybe metadata
        if not vi.doc_string and self.on("vi_doc", 0.6):
            vi.doc_string = self.text()
        if not len(vi.metadata_props):
            self._meta(vi.metadata_props, "vi_meta", 0.6)

    def _overlap(self, g: onnx.GraphProto) -> None:
        rng = self.rng
        input_names = [v.name for v in g.input]
        init_names = [t.name for t in g.initializer if t.name]
        with_entry = {v.name for v in g.value_info}
        node_outs = {o for n in g.node for o in n.output if o}

        if init_names and "overlap_untyped_init_input" in self.enabled:
            for vi in g.input:
                if vi.name in init_names and vi.HasField("type") and self.on("overlap_untyped_init_input", 0.4):
                    self._strip_type(vi)
                    for out in g.output:
                        if out.name == vi.name:
                            out.CopyFrom(vi)  # the same value forwarded: identical declaration

        if "overlap_untyped_output" in self.enabled:
            own = [nm for nm in init_names if nm not in input_names and nm not in with_entry]
            listed = {v.name for v in g.output}
            if own and not (set(own) & listed) and self.on("overlap_untyped_output", 0.5):
                # an extra graph output that is one of the graph's own initializers
                nm = rng.choice(own)
                tensor = next(t for t in g.initializer if t.name == nm)
                self._value_info_into(g.output.add(), nm, for_tensor=tensor)
                listed.add(nm)
            for out in g.output:
                if out.name in own and out.HasField("type") and self.on("overlap_untyped_output", 0.6):
                    self._strip_type(out)

        if "overlap_output_value_info" in self.enabled:
            for out in g.output:
                nm = out.name
                if nm not in node_outs or nm in input_names or nm in init_names or nm in with_entry:
                    continue
                if not self.on("overlap_output_value_info", 0.4):
                    continue
                extra = g.value_info.add()
                extra.name = nm
                self.carriers.add("value_info")
                if out.HasField("type"):
                    extra.type.CopyFrom(out.type)  # both typed: they agree
                    if rng.random() < 0.5:
                        self._strip_type(out)
                        self.used.add("overlap_output_value_info:untyped_output")
                else:
                    self._type_into(extra.type)
                    self.used.add("overlap_output_value_info:untyped_output")
                with_entry.add(nm)

    # ---- carriers that say almost nothing --------------------------------------------------------
    def _sparse(self, carrier: str) -> bool:
        """Site-level decision: build this carrier from its required fields plus at most one optional one?"""
        if "sparse_carriers" not in self.enabled:
            return False
        if self.rng.random() >= self._sparse_p:
            return False
        self.used.add("sparse_carriers")
        self.used.add(f"sparse:{carrier}")
        return True

    def _kept(self, carrier: str, options: list[str]) -> str:
        keep = self.rng.choice(options)
        self.used.add(f"sparse:{carrier}:{keep}")
        return keep

    def _one_meta(self, container, feature: str) -> None:
        for k in self.rng.sample(gp._WORDS, self.rng.choice((1, 1, 2))):
            e = container.add()
            e.key = k
            e.value = self.rng.choice(gp._TEXT)
        self.used.add(feature)

    def _value_info_into(self, vi: onnx.ValueInfoProto, name: str, *, for_tensor: onnx.TensorProto | None = None,
                         may_be_untyped: bool = False) -> None:
        if not self._sparse("value_info"):
            super()._value_info_into(vi, name, for_tensor=for_tensor, may_be_untyped=may_be_untyped)
            return
        self.carriers.add("value_info")
        vi.name = name
        options = ["doc_string"] + (["metadata_props"] if self.ir_version >= 10 else [])
        if for_tensor is not None:
            # the entry of an initializer: the tensor's own type and shape, nothing else about the type
            site = "value_info_of_initializer"
            tt = vi.type.tensor_type
            tt.elem_type = for_tensor.data_type
            tt.shape.SetInParent()
            for d in for_tensor.dims:
                tt.shape.dim.add().dim_value = d
            options.append("nothing_else")
        elif may_be_untyped:
            site = "value_info_io"  # graph input / output / stand-alone: the name alone is an entry
            options += ["type", "nothing"]
        else:
            # an entry of a value_info list: name-only says nothing, so exactly one field is kept.
            # 'ghost' entries (unreferenced_value_info) name no value and are dropped by canon N4:
            # they do not count towards the floor of the deciding combination
            site = "value_info_unreferenced" if name.startswith("ghost") else "value_info_entry"
            options.append("type")
        keep = self._kept(site, options)
        if keep == "doc_string":
            vi.doc_string = self.text()
            self.used.add("vi_doc")
        elif keep == "metadata_props":
            self._one_meta(vi.metadata_props, "vi_meta")
        elif keep == "type":
            self._type_into(vi.type)

    def _type_into(self, tp: onnx.TypeProto, *, depth: int = 0, tensor_only: bool = False, wrapped: bool = False) -> None:
        if not self._sparse("type"):
            super()._type_into(tp, depth=depth, tensor_only=tensor_only, wrapped=wrapped)
            return
        rng = self.rng
        self.carriers.add("type")
        wrappers = []
        if not tensor_only and depth < 3:
            if self.ir_version >= gp.FEATURE_MIN_IR["sequence_type"]:
                wrappers.append("sequence_type")
            if self.ir_version >= gp.FEATURE_MIN_IR["optional_type"]:
                wrappers.append("optional_type")
        if wrappers and rng.random() < 0.35:
            w = rng.choice(wrappers)
            self.used.add(w)
            if depth >= 1:
                self.used.add("nested_type")
            keep = self._kept("type_wrapper", ["nothing", "denotation", "element_denotation", "element_shape"])
            inner = getattr(tp, w).elem_type
            inner.tensor_type.elem_type = gp.DTYPES[self._pick_dtype()][0]
            if keep == "denotation":
                tp.denotation = rng.choice(gp._TYPE_DENOTATIONS)
                self.used.add("type_denotation")
            elif keep == "element_denotation":
                inner.denotation = rng.choice(gp._TYPE_DENOTATIONS)
                self.used.add("type_denotation")
            elif keep == "element_shape":
                self.used.add("nested_shape")
                self._shape_into(inner.tensor_type.shape)
            return
        sparse_ok = not tensor_only and self.ir_version >= gp.FEATURE_MIN_IR["sparse_type"]
        if sparse_ok and rng.random() < 0.15:
            leaf = tp.sparse_tensor_type
            self.used.add("sparse_type")
        else:
            leaf = tp.tensor_type
        leaf.elem_type = gp.DTYPES[self._pick_dtype()][0]
        keep = self._kept("type", ["nothing", "denotation", "rank0", "dim_value", "dim_param", "dim_denotation",
                                   "dim_unknown"])
        if wrapped and keep not in ("nothing", "denotation"):
            self.used.add("nested_shape")
        if keep == "nothing":
            self.used.add("no_shape")
        elif keep == "denotation":
            tp.denotation = rng.choice(gp._TYPE_DENOTATIONS)
            self.used.update(("type_denotation", "no_shape"))
        elif keep == "rank0":
            leaf.shape.SetInParent()
            self.used.add("scalar_shape")
        else:
            d = leaf.shape.dim.add()
            if keep == "dim_value":
                d.dim_value = rng.choice((0, 0, 1, 7))  # 0 is a dimension, not "no dimension"
            elif keep == "dim_param":
                d.dim_param = rng.choice(gp._DIM_PARAMS)
                self.used.add("dim_param")
            elif keep == "dim_denotation":
                d.denotation = rng.choice(gp._DIM_DENOTATIONS)
                self.used.update(("dim_denotation", "dim_unknown"))
            else:
                self.used.add("dim_unknown")

    def _sparse_tensor(self, t: onnx.TensorProto, name: str | None) -> None:
        rng = self.rng
        self.carriers.add("tensor")
        if name:
            t.name = name  # the site requires one
        dt_name = self._pick_dtype()
        enum, _min_ir, bits, _field, _group = gp.DTYPES[dt_name]
        t.data_type = enum
        keep = self._kept("tensor", ["nothing", "dims", "doc_string"] + (["metadata_props"] if self.ir_version >= 10 else []))
        dims: list[int] = []
        if keep == "dims":
            dims = [rng.choice((0, 1, 2, 3))]
            if dims == [0]:
                self.used.add("empty_tensor")
        else:
            self.used.add("scalar_tensor")
        t.dims.extend(dims)
        n = dims[0] if dims else 1
        if keep == "doc_string":
            t.doc_string = self.text()
            self.used.add("tensor_doc")
        elif keep == "metadata_props":
            self._one_meta(t.metadata_props, "tensor_meta")
        if dt_name == "STRING":
            t.string_data.extend(rng.choice(gp._TEXT).encode("utf-8") for _ in range(n))
        elif n == 0:
            pass  # no elements: no storage field at all
        elif rng.random() < 0.5:
            self.used.add("typed_storage")
            self._typed_payload(t, dt_name, n)
        else:
            self.used.add("raw_storage")
            t.raw_data = rng.randbytes((n * bits + 7) // 8)
            if dt_name == "BOOL":
                t.raw_data = bytes(b & 1 for b in t.raw_data)

    def _attribute_into(self, a: onnx.AttributeProto, name: str, kind: str, *, depth: int, visible: list[str]) -> None:
        if not self._sparse("attribute"):
            super()._attribute_into(a, name, kind, depth=depth, visible=visible)
            return
        self.carriers.add("attribute")
        self.used.add(kind)
        self.used.add(f"sparse:attribute:{kind}")
        a.name = name
        a.type = gp.ATTR_KINDS[kind]
        if self.rng.random() < 0.3:
            a.doc_string = self.text()
            self.used.add("attr_doc")
        # the zero / empty value of the kind
        if kind == "attr_float":
            a.f = 0.0
        elif kind == "attr_int":
            a.i = 0
        elif kind == "attr_string":
            a.s = b""
        elif kind in ("attr_floats", "attr_ints", "attr_strings"):
            self.used.add("attr_empty_lists")
        elif kind == "attr_tensor":
            self._tensor_into(a.t, None)
        elif kind == "attr_tensors":
            self._tensor_into(a.tensors.add(), None)
        elif kind == "attr_graph":
            self._graph_into(a.g, depth=depth + 1, outer=visible)
        elif kind == "attr_graphs":
            self._graph_into(a.graphs.add(), depth=depth + 1, outer=visible)
        elif kind == "attr_type_proto":
            self._type_into(a.tp)
        elif kind == "attr_type_protos":
            self._type_into(a.type_protos.add())
        else:  # pragma: no cover
            raise AssertionError(kind)

    def _node_into(self, n: onnx.NodeProto, *, visible: list[str], depth: int) -> list[str]:
        if not self._sparse("node"):
            return super()._node_into(n, visible=visible, depth=depth)
        rng = self.rng
        self.carriers.add("node")
        n.op_type = rng.choice(gp._OPS)
        outs = [self.name()]
        n.output.extend(outs)
        options = ["nothing", "name", "domain", "doc_string", "attribute"]
        if self.ir_version >= 10:
            options.append("metadata_props")
        if visible:
            options.append("input")
        if self._func_attrs:
            options.append("ref_attr")
        keep = self._kept("node", options)
        if keep == "domain":
            d = rng.choice(("com.example", "vendor.ops"))
            self._domains.setdefault(d, rng.randint(1, 5))
            n.domain = d
            self.used.add("custom_domain")
        else:
            self._domains.setdefault("", rng.randint(13, 23))
        if keep == "name":
            n.name = self.name("node")
            self.used.add("node_name")
        elif keep == "doc_string":
            n.doc_string = self.text()
            self.used.add("node_doc")
        elif keep == "metadata_props":
            self._one_meta(n.metadata_props, "node_meta")
        elif keep == "input":
            n.input.append(rng.choice(visible))
        elif keep == "attribute":
            kinds = self._attr_kinds(depth) or ["attr_int"]
            self._attribute_into(n.attribute.add(), rng.choice(gp._WORDS), rng.choice(kinds), depth=depth, visible=visible)
        elif keep == "ref_attr":
            ref, ty = rng.choice(self._func_attrs)
            a = n.attribute.add()
            self.carriers.add("attribute")
            a.name = rng.choice(gp._WORDS)
            a.ref_attr_name = ref
            a.type = ty
            self.used.add("ref_attrs")
        return outs

    def _sparse_graph(self, g: onnx.GraphProto, *, depth: int, outer: list[str]) -> None:
        rng = self.rng
        self.carriers.add("graph")
        g.name = self.name("graph")
        options = ["nothing", "doc_string", "initializer", "value_info"]
        if self.ir_version >= 10:
            options.append("metadata_props")
        if self.ir_version >= gp.FEATURE_MIN_IR["quant_annotation"]:
            options.append("quantization_annotation")
        keep = self._kept("graph", options)
        body = "two_nodes" if keep == "value_info" else self._kept("graph_body", ["no_node", "source_node", "one_node"])
        visible = list(outer) if (outer and "captures" in self.enabled) else []
        local: list[str] = []
        if body != "source_node":
            nm = self.name("in")
            self._value_info_into(g.input.add(), nm, may_be_untyped=True)
            local.append(nm)
        if keep == "doc_string":
            g.doc_string = self.text()
            self.used.add("graph_doc")
        elif keep == "metadata_props":
            self._one_meta(g.metadata_props, "graph_meta")
        elif keep == "initializer":
            self.used.add("initializers")
            nm = self.name("w")
            t = g.initializer.add()
            self._tensor_into(t, nm)
            if self.ir_version < 4:  # IR 3 requires initializers to be graph inputs
                self._value_info_into(g.input.add(), nm, for_tensor=t)
                self.used.add("init_as_input")
            local.append(nm)
        annotatable = list(local)
        if body == "no_node":
            g.output.add().CopyFrom(g.input[0])  # the same value: identical declaration
            self.used.add("passthrough_output")
        else:
            feed = [] if body == "source_node" else visible + local
            if feed and visible:
                self.used.add("captures")
            outs = self._node_into(g.node.add(), visible=feed, depth=depth)
            annotatable += outs
            if body == "two_nodes":
                mid = outs
                outs = self._node_into(g.node.add(), visible=list(mid), depth=depth)
                self.used.add("value_info")
                self._value_info_into(g.value_info.add(), rng.choice(mid))
            self._value_info_into(g.output.add(), outs[0], may_be_untyped=True)
        if keep == "quantization_annotation":
            self.used.add("quant_annotation")
            ann = g.quantization_annotation.add()
            ann.tensor_name = rng.choice(annotatable)
            e = ann.quant_parameter_tensor_names.add()
            e.key = rng.choice(("SCALE_TENSOR", "ZERO_POINT_TENSOR", "AXIS_HINT"))
            e.value = f"{ann.tensor_name}_{e.key.lower()}"

    def _sparse_function(self, f: onnx.FunctionProto, domain: str, name: str, overload: str) -> dict:
        rng = self.rng
        self.carriers.add("function")
        f.name = name
        if domain:
            f.domain = domain
        if overload:
            f.overload = overload
            self.used.add("overloads")
        options = ["nothing", "doc_string", "input", "attribute"]
        if self.ir_version >= gp.FEATURE_MIN_IR["func_attr_defaults"]:
            options.append("attribute_proto")
        if self.ir_version >= 10:
            options += ["metadata_props", "value_info", "value_info"]
        keep = self._kept("function", options)
        inputs = [self.name("fi")] if keep == "input" or (keep == "value_info" and rng.random() < 0.5) else []
        f.input.extend(inputs)
        func_attrs: list[tuple[str, int]] = []
        if keep == "doc_string":
            f.doc_string = self.text()
            self.used.add("func_doc")
        elif keep == "metadata_props":
            self._one_meta(f.metadata_props, "func_meta")
        elif keep == "attribute":
            f.attribute.append("axis")
            func_attrs.append(("axis", rng.choice(list(gp.ATTR_KINDS.values()))))
            self.used.add("func_attr_params")
        elif keep == "attribute_proto":
            kind = rng.choice(self._attr_kinds(self.max_depth) or ["attr_int"])
            self._attribute_into(f.attribute_proto.add(), "axis", kind, depth=self.max_depth, visible=[])
            func_attrs.append(("axis", gp.ATTR_KINDS[kind]))
            self.used.add("func_attr_defaults")
        saved = (self._func_attrs, self._domains)
        self._func_attrs = func_attrs or None
        self._domains = {}
        try:
            outs = self._node_into(f.node.add(), visible=list(inputs), depth=0)
            domains = self._domains
        finally:
            self._func_attrs, self._domains = saved
        f.output.append(outs[0])
        domains.setdefault("", rng.randint(13, 23))
        self._opsets_into(f.opset_import, domains)
        if keep == "value_info":
            self.used.add("func_value_info")
            self._value_info_into(f.value_info.add(), rng.choice(inputs + outs))
        return {"domain": domain, "name": name, "overload": overload, "n_in": len(inputs), "n_out": 1}

    # ---- function value info parked in the main graph (IR < 10) ----------------------------------
    def _park_function_value_info(self, m: onnx.ModelProto) -> None:
        if "fn_value_info_pre10" not in self.enabled or not len(m.functions):
            return
        rng = self.rng
        taken = {v.name for v in m.graph.value_info}
        for f in m.functions:
            if f.overload or "/" in f.name or "::" in f.name or "/" in f.domain or "::" in f.domain:
                continue
            kinds = [("input", nm) for nm in f.input] + [("node_output", o) for n in f.node for o in n.output if o]
            for where, nm in dict.fromkeys(kinds):
                entry = f"{f.domain}::{f.name}/{nm}"
                if "/" in nm or entry in taken or rng.random() >= 0.6:
                    continue
                taken.add(entry)
                self._value_info_into(m.graph.value_info.add(), entry)
                self.used.add("fn_value_info_pre10")
                self.used.add("func_value_info")
                self.used.add(f"fn_value_info_pre10:{where}")
                self.used.add("fn_value_info_pre10:function_with%s_inputs" % ("" if len(f.input) else "out"))
                self.used.add("fn_value_info_pre10:function_with%s_outputs" % ("" if len(f.output) else "out"))
        if len(m.graph.value_info) > 1 and rng.random() < 0.5:
            order = [onnx.ValueInfoProto() for _ in m.graph.value_info]
            for c, o in zip(order, m.graph.value_info):
                c.CopyFrom(o)
            rng.shuffle(order)
            del m.graph.value_info[:]
            m.graph.value_info.extend(order)

    # ---- carriers of degenerate arity ----------------------------------------------------------------
    def _degenerate(self, carrier: str, p: float) -> bool:
        if "degenerate_arity" not in self.enabled:
            return False
        if self.rng.random() >= (max(p, 0.7) if "degenerate_arity" in self.forced else p):
            return False
        self.used.add("degenerate_arity")
        return True

    def _shape_of(self, carrier: str, options: list[str]) -> str:
        shape = self.rng.choice(options)
        self.used.add(f"degenerate:{carrier}:{shape}")
        return shape

    def _maybe_sink_node(self, container, visible: list[str], depth: int) -> None:
        """Rarely: one more node that has no outputs (and, half of the time, no inputs either)."""
        if self.rng.random() >= 0.2:
            return
        n = container.add()
        self._node_into(n, visible=visible if self.rng.random() < 0.5 else [], depth=depth)
        if len(n.device_configurations):
            return  # its sharding specs may name the outputs: leave the node as it is
        del n.output[:]
        self.used.add("degenerate:node:no_output")
        if not len(n.input):
            self.used.add("degenerate:node:no_input_no_output")

    def _degenerate_function(self, f: onnx.FunctionProto, domain: str, name: str, overload: str) -> dict:
        rng = self.rng
        self.carriers.add("function")
        f.name = name
        if domain:
            f.domain = domain
        if overload:
            f.overload = overload
            self.used.add("overloads")
        if self.on("func_doc", 0.6):
            f.doc_string = self.text()
        self._meta(f.metadata_props, "func_meta", 0.6)
        shape = self._shape_of("function", ["no_input", "no_input", "no_node", "no_output", "no_input_no_output", "nothing"])
        n_in = 0 if shape in ("no_input", "no_input_no_output", "nothing") else rng.randint(1, 3)
        n_nodes = 0 if shape in ("no_node", "nothing") else rng.randint(1, 3)
        inputs = [self.name("fi") for _ in range(n_in)]
        f.input.extend(inputs)
        func_attrs: list[tuple[str, int]] = []
        if rng.random() < 0.5:
            self.used.add(f"degenerate:function:{shape}:no_attribute")
        else:
            kinds = [k for k in self._attr_kinds(self.max_depth)] or ["attr_int"]
            for an in rng.sample(("axis", "mode", "scale", "body", "kind", "eps"), rng.randint(1, 3)):
                if self.on("func_attr_defaults", 0.5):
                    kind = rng.choice(kinds)
                    self._attribute_into(f.attribute_proto.add(), an, kind, depth=self.max_depth, visible=[])
                    func_attrs.append((an, gp.ATTR_KINDS[kind]))
                elif self.on("func_attr_params", 0.8):
                    f.attribute.append(an)
                    func_attrs.append((an, rng.choice(list(gp.ATTR_KINDS.values()))))
        saved = (self._func_attrs, self._domains)
        self._func_attrs = func_attrs or None
        self._domains = {}
        try:
            local = list(inputs)
            node_outs: list[str] = []
            for _ in range(n_nodes):
                outs = self._node_into(f.node.add(), visible=local, depth=0)
                node_outs.extend(outs)
                local.extend(outs)
            if n_nodes:
                self._maybe_sink_node(f.node, local, 0)
            domains = self._domains
        finally:
            self._func_attrs, self._domains = saved
        if shape in ("no_output", "no_input_no_output", "nothing"):
            pass
        elif shape == "no_node":
            f.output.extend(rng.sample(inputs, rng.randint(1, len(inputs))))  # outputs forward inputs
        else:
            f.output.extend(rng.sample(node_outs, min(len(node_outs), rng.randint(1, 2))))
        domains.setdefault("", rng.randint(13, 23))
        if self.on("func_multi_opset", 0.5):
            domains.setdefault("com.extra", rng.randint(1, 3))
        self._opsets_into(f.opset_import, domains)
        if "func_value_info" in self.enabled:
            for nm in inputs + node_outs:
                if self.on("func_value_info", 0.6):
                    self._value_info_into(f.value_info.add(), nm)
        return {"domain": domain, "name": name, "overload": overload, "n_in": len(inputs), "n_out": len(f.output)}

    def _degenerate_graph(self, g: onnx.GraphProto, *, depth: int, outer: list[str]) -> None:
        rng = self.rng
        self.carriers.add("graph")
        g.name = self.name("graph")
        if self.on("graph_doc", 0.5):
            g.doc_string = self.text()
        self._meta(g.metadata_props, "graph_meta", 0.5)
        shape = self._shape_of("graph", ["no_input", "no_input", "no_node", "no_output", "no_input_no_output"])
        no_input = shape in ("no_input", "no_input_no_output")
        local: list[str] = []
        inputs: list[str] = []
        for _ in range(0 if no_input else rng.randint(1, 3)):
            nm = self.name("in")
            self._value_info_into(g.input.add(), nm, may_be_untyped=True)
            inputs.append(nm)
            local.append(nm)
        init_names: list[str] = []
        # IR 3 requires initializers to be graph inputs: a graph without inputs has none there
        if not (no_input and self.ir_version < 4) and self.on("initializers", 0.8):
            for _ in range(rng.randint(1, 2)):
                nm = self.name("w")
                t = g.initializer.add()
                self._tensor_into(t, nm)
                init_names.append(nm)
                local.append(nm)
                if self.ir_version < 4 or (not no_input and self.on("init_as_input", 0.3)):
                    self._value_info_into(g.input.add(), nm, for_tensor=t)
                    inputs.append(nm)
                elif self.on("init_value_info", 0.5):
                    self._value_info_into(g.value_info.add(), nm, for_tensor=t)
        visible_outer = list(outer) if (outer and "captures" in self.enabled) else []
        if visible_outer:
            self.used.add("captures")
        node_outs: list[str] = []
        if shape != "no_node":
            for _ in range(rng.randint(1, 3 if depth == 0 else 2)):
                outs = self._node_into(g.node.add(), visible=visible_outer + local, depth=depth)
                node_outs.extend(outs)
                local.extend(outs)
            self._maybe_sink_node(g.node, visible_outer + local, depth)
        graph_outs: list[str] = []
        if shape in ("no_output", "no_input_no_output"):
            pass
        elif shape == "no_node":
            with_entry = {v.name for v in g.value_info}
            passable = inputs + [nm for nm in init_names if nm not in inputs and nm not in with_entry]
            for pick in rng.sample(passable, min(len(passable), rng.randint(1, 2))):
                if pick in inputs:
                    g.output.add().CopyFrom(next(v for v in g.input if v.name == pick))  # identical declaration
                else:
                    self._value_info_into(g.output.add(), pick, for_tensor=next(t for t in g.initializer if t.name == pick))
            self.used.add("passthrough_output")
        else:
            graph_outs = rng.sample(node_outs, min(len(node_outs), rng.randint(1, 2)))
            for nm in graph_outs:
                self._value_info_into(g.output.add(), nm, may_be_untyped=True)
        for nm in node_outs:
            if nm not in graph_outs and self.on("value_info", 0.5):
                self._value_info_into(g.value_info.add(), nm)
        annotatable = inputs + [nm for nm in init_names if nm not in inputs] + node_outs
        if annotatable and self.on("quant_annotation", 0.5):
            for nm in dict.fromkeys(rng.sample(annotatable, min(len(annotatable), rng.randint(1, 2)))):
                ann = g.quantization_annotation.add()
                ann.tensor_name = nm
                for k in sorted(rng.sample(("SCALE_TENSOR", "ZERO_POINT_TENSOR", "AXIS_HINT"), rng.randint(1, 2))):
                    e = ann.quant_parameter_tensor_names.add()
                    e.key = k
                    e.value = f"{nm}_{k.lower()}"

    def model(self) -> onnx.ModelProto:
        m = self._model_body()
        self._park_function_value_info(m)
        return m

    def _model_body(self) -> onnx.ModelProto:
        if not self._sparse("model"):
            return super().model()
        rng = self.rng
        m = onnx.ModelProto()
        self.carriers.add("model")
        m.ir_version = self.ir_version
        options = ["nothing", "producer_name", "producer_version", "domain", "model_version", "doc_string",
                   "metadata_props"]
        if self.ir_version >= gp.FEATURE_MIN_IR["functions"]:
            options += ["functions", "functions"]
        if self.ir_version >= gp.FEATURE_MIN_IR["device_config"]:
            options.append("configuration")
        keep = self._kept("model", options)
        if keep == "producer_name":
            m.producer_name = "vfpy"
        elif keep == "producer_version":
            m.producer_version = "0"
        elif keep == "domain":
            m.domain = "ai.vision"
        elif keep == "model_version":
            m.model_version = rng.choice((1, 2**40))
        elif keep == "doc_string":
            m.doc_string = self.text()
            self.used.add("model_doc")
        elif keep == "metadata_props":
            self._one_meta(m.metadata_props, "model_meta")
        elif keep == "configuration":
            c = m.configuration.add()
            c.name = "mesh2"
            c.num_devices = rng.randint(1, 4)
            self._configs.append(c.name)
            self.used.add("device_config")
        elif keep == "functions":
            d = rng.choice(("custom.fn", "local", "com.example"))
            ov = "a" if self.ir_version >= 10 and rng.random() < 0.3 else ""
            info = self._function_into(m.functions.add(), d, "Fn0", ov)
            self._functions.append(info)
            self._domains.setdefault(d, 1)
            self.used.add("functions")
        self._graph_into(m.graph, depth=0, outer=[])
        self._domains.setdefault("", rng.randint(13, 23))
        self._opsets_into(m.opset_import, self._domains)
        return m

    def build(self, kind: str):
        if kind in ("TypeProto", "ValueInfoProto") and "sparse_carriers" in self.enabled and self.rng.random() < 0.06:
            # a type that has a denotation and no value case: rejected by the ONNX checker, the statement
            # is silent on it - generated to be counted, never judged
            self.report_only = "type_without_value_case"
            self.used.add("sparse:type:denotation_without_value_case")
            tp = onnx.TypeProto()
            tp.denotation = self.rng.choice(gp._TYPE_DENOTATIONS)
            self.carriers.add("type")
            if kind == "TypeProto":
                return tp
            vi = onnx.ValueInfoProto()
            vi.name = self.name()
            vi.type.CopyFrom(tp)
            self.carriers.add("value_info")
            return vi
        return super().build(kind)


# ---- for the oracle -----------------------------------------------------------------------------


def entries_for_functions(model: onnx.ModelProto) -> list[onnx.ValueInfoProto]:
    """The ``value_info`` entries of the main graph of an IR < 10 model that describe a value of a
    model-local function: named ``{domain}::{function}/{value}`` (exactly one '/', exactly one '::'
    before it), the function (without overload) is in the model, the value is one of its inputs or an
    output of one of its top-level nodes, and no value of the main graph itself has that name."""
    if model.ir_version >= _STRUCTURED_MIN_IR or not len(model.functions):
        return []
    g = model.graph
    own = {v.name for v in g.input} | {v.name for v in g.output} | {t.name for t in g.initializer}
    own |= {o for n in g.node for o in n.output}
    values: dict[tuple[str, str], set[str]] = {}
    for f in model.functions:
        if f.overload:
            continue
        values.setdefault((f.domain, f.name), set()).update(list(f.input) + [o for n in f.node for o in n.output if o])
    out = []
    for vi in g.value_info:
        head, slash, value = vi.name.partition("/")
        domain, colons, fname = head.partition("::")
        if not slash or not colons or "/" in value or "::" in fname or vi.name in own:
            continue
        if value in values.get((domain, fname), ()):
            out.append(vi)
    return out
