"""C02's own extension of ``vfpy.gen_proto.ProtoGen`` (a subclass: the shared generator is untouched).

Two dimensions the shared generator does not have, both still WELL-FORMED protos of the supported
feature set:

**Names that are not opaque** (``alias_names``).  The shared allocator hands out names that are unique
per model and carry no structure.  Any string is a legal ONNX value name and each graph / function is
its own name scope, so with this feature a value of a graph that is generated *after* a function (the
main graph of a model, its subgraphs, a later function) may be named

  * exactly like a value of an earlier function (``bare``: two scopes, one name),
  * ``{domain}::{function}/{value}`` of an earlier function and one of its values (``convention``:
    the spelling serde itself uses to park function value-info in the main graph of IR < 10 models),
  * a near miss of that spelling (``{domain}::{function}``, ``{function}/{value}``,
    ``{domain}::{function}::{overload}/{value}``, ``{domain}::{function}/{value}/x``).

  The two structured spellings are used from IR 10 on only: below, serde documents that it claims
  names of that form in the main graph's value_info for the function (the statement is silent on what
  a *real* main-graph value of such a name means there).  A structured/bare name is used at most once
  as an alias, so names stay unique within every scope chain.

**One value described at more than one place, the places saying different amounts** (``overlap_*``).
The shared generator declares every value exactly once (a forwarded input is copied verbatim, an
initializer that is a graph output has no value_info entry).  Here, after a graph has been generated:

  * ``overlap_untyped_output``: the ``output`` entry of an initializer that is a graph output is
    listed *without a type* (name, maybe doc string / metadata) although the value is typed by its
    tensor - added as an extra output when the graph has none; the type of an ``output`` entry is
    optional, the entry must come back as it went in;
  * ``overlap_output_value_info``: a graph output produced by a node additionally gets a
    ``value_info`` entry (type and shape only - no doc string or metadata, so that nothing but the
    type is said twice); the ``output`` entry may then be stripped of its type as above.  ``canon`` N4
    drops value_info entries naming a declared input/output on both sides, so only the ``output``
    entry itself is judged;
  * ``overlap_untyped_init_input`` (IR >= 4): the ``input`` entry of an initializer that is also a
    graph input is listed without a type (a verbatim forwarded copy among the outputs is kept
    identical).

**Storage strings that are not in a normal form** (``location_spelling``).  The shared generator
spells the ``location`` of an external tensor in exactly one way: a plain, already normalised relative
path (``weights.bin``, ``data/w.bin``).  A location is an opaque string of the proto - a relative path
the *producer* chose to spell - and the statement promises every storage field back unaltered.  With
this feature the location of an external tensor (initializer, TENSOR/TENSORS attribute value,
stand-alone tensor) is re-spelled by composing rewrites none of which changes the file it names or
makes it absolute / leave the model directory:

  * ``dot_prefix``: leading ``./`` (possibly twice);
  * ``double_sep``: a doubled separator between two segments;
  * ``dot_segment``: an inner ``/./`` segment;
  * ``updir_inner``: an inner ``sub/../`` detour (never leading, so the path stays inside);
  * ``case``: upper / mixed case letters in a segment or the extension (``Weights.BIN``);
  * ``blank``: a blank inside a segment, or a leading / trailing blank of the whole string;
  * ``non_ascii``: a non-ASCII segment in composed or decomposed Unicode form (the two are different
    strings);
  * ``backslash``: a backslash inside a segment (an ordinary file-name character of a POSIX path);
  * ``percent``: a percent-escape-looking segment (``w%20x.bin``: not an escape, just characters);
  * ``deep``: several directory levels.

Nothing here imports ``onnx_ir``.
"""

from __future__ import annotations

import random
from typing import Iterable

import onnx

from vfpy import gen_proto as gp

#: features of this module (toggled like the shared ones, with draws made AFTER the shared ones)
EXTRA_FEATURES: tuple[str, ...] = (
    "alias_names", "overlap_untyped_output", "overlap_output_value_info", "overlap_untyped_init_input",
    "location_spelling",
)
EXTRA_MIN_IR = {"alias_names": 8, "overlap_untyped_init_input": 4}
#: first IR version in which FunctionProto has its own value_info: the structured spellings are
#: only generated from here on (see module doc)
_STRUCTURED_MIN_IR = 10
_ALIASABLE_PREFIXES = frozenset({"v", "in", "w", "ghost"})

#: rewrites of a relative location (see module doc); each keeps the path relative, inside the model
#: directory and naming the same file *as far as path semantics go* - as a string it is different
LOCATION_STYLES: tuple[str, ...] = (
    "dot_prefix", "double_sep", "dot_segment", "updir_inner", "case", "blank", "non_ascii", "backslash",
    "percent", "deep",
)
#: segment-level rewrites first, structural ones (which add '.', '..' and empty segments) last
_APPLY_ORDER = ("deep", "case", "blank", "non_ascii", "backslash", "percent", "updir_inner", "dot_segment",
                "double_sep", "dot_prefix")
_SEGMENTS = ("data", "shards", "w", "ext", "part-0", "v1.2")
_NON_ASCII = ("caf\u00e9", "cafe\u0301", "\u65e5\u672c", "\u00c5", "A\u030a")  # composed / decomposed pairs


class ProtoGenC02(gp.ProtoGen):
    def __init__(self, rng: random.Random, features: Iterable[str] | None = None, *,
                 force: Iterable[str] = (), extra_force: Iterable[str] = (), p_extra: float = 0.6, **kw) -> None:
        super().__init__(rng, features, force=force, **kw)
        extra_force = set(extra_force)
        for f in EXTRA_FEATURES:  # fixed order: determinism
            draw = rng.random()
            if EXTRA_MIN_IR.get(f, 3) > self.ir_version:
                continue
            if f in extra_force or draw < p_extra:
                self.enabled.add(f)
        self.forced |= extra_force
        # (domain, name, overload, [value names]) of the functions generated so far
        self._fn_values: list[tuple[str, str, str, list[str]]] = []
        self._alias_taken: set[str] = set()
        self._building_function = False

    # ---- names that are not opaque ---------------------------------------------------------------
    def name(self, prefix: str = "v") -> str:
        plain = super().name(prefix)  # always advances the allocator
        if prefix not in _ALIASABLE_PREFIXES or not self._fn_values or "alias_names" not in self.enabled:
            return plain
        if self.rng.random() >= (0.45 if "alias_names" in self.forced else 0.3):
            return plain
        cand, style = self._alias_candidate()
        if cand is None or cand in self._alias_taken:
            return plain
        self._alias_taken.add(cand)
        self.used.add("alias_names")
        self.used.add(f"alias_names:{style}")
        return cand

    def _alias_candidate(self) -> tuple[str | None, str]:
        rng = self.rng
        d, n, ov, values = rng.choice(self._fn_values)
        if not values:
            return None, ""
        v = rng.choice(values)
        structured = self.ir_version >= _STRUCTURED_MIN_IR and not self._building_function
        r = rng.random()
        if not structured or r < 0.3:
            return v, "bare"
        if r < 0.8:
            return f"{d}::{n}/{v}", "convention"
        return rng.choice((f"{d}::{n}", f"{n}/{v}", f"{d}::{n}::{ov or 'a'}/{v}", f"{d}::{n}/{v}/x")), "near_miss"

    def _function_into(self, f: onnx.FunctionProto, domain: str, name: str, overload: str) -> dict:
        saved = self._building_function
        self._building_function = True
        try:
            info = super()._function_into(f, domain, name, overload)
        finally:
            self._building_function = saved
        values = list(dict.fromkeys(list(f.input) + [o for n in f.node for o in n.output if o]))
        self._fn_values.append((domain, name, overload, values))
        return info

    # ---- storage strings that are not in a normal form -------------------------------------------
    def _tensor_into(self, t: onnx.TensorProto, name: str | None, *, allow_external: bool = True) -> None:
        super()._tensor_into(t, name, allow_external=allow_external)
        if t.data_location != onnx.TensorProto.EXTERNAL:
            return
        if not self.on("location_spelling", 0.65):
            return
        for e in t.external_data:
            if e.key == "location":
                e.value = self._respell_location(e.value)

    def _respell_location(self, location: str) -> str:
        rng = self.rng
        parts = [p for p in location.split("/") if p]
        styles = rng.sample(LOCATION_STYLES, rng.choice((1, 1, 1, 2, 2, 3)))
        lead = ""
        for style in _APPLY_ORDER:  # fixed application order; the sample decides which apply
            if style not in styles:
                continue
            self.used.add(f"location_spelling:{style}")
            if style == "deep":
                parts = [rng.choice(_SEGMENTS) for _ in range(rng.randint(1, 3))] + parts
            elif style == "case":
                i = rng.randrange(len(parts))
                parts[i] = rng.choice((parts[i].upper(), parts[i].capitalize(), parts[i].swapcase() or parts[i]))
                if parts[i] == parts[i].lower():
                    parts[i] = "W" + parts[i]
            elif style == "blank":
                r = rng.random()
                if r < 0.4:
                    i = rng.randrange(len(parts))
                    parts[i] = parts[i][:1] + " " + parts[i][1:]
                elif r < 0.7:
                    parts[-1] = parts[-1] + " "
                else:
                    parts[0] = " " + parts[0]
            elif style == "non_ascii":
                parts.insert(rng.randrange(len(parts)), rng.choice(_NON_ASCII))
            elif style == "backslash":
                i = rng.randrange(len(parts))
                parts[i] = parts[i][:1] + "\\" + parts[i][1:]
            elif style == "percent":
                i = rng.randrange(len(parts))
                parts[i] = parts[i][:1] + rng.choice(("%20", "%2F", "%")) + parts[i][1:]
            elif style == "updir_inner":
                # a detour through a sub directory and back: never leading, so the path stays inside
                if len(parts) == 1:
                    parts = [rng.choice(_SEGMENTS)] + parts
                i = rng.randint(1, len(parts) - 1)  # before the file name, after the first directory
                parts[i:i] = [rng.choice(_SEGMENTS), ".."]
            elif style == "dot_segment":
                if len(parts) == 1:
                    parts = [rng.choice(_SEGMENTS)] + parts
                parts.insert(rng.randint(1, len(parts) - 1), ".")
            elif style == "double_sep":
                if len(parts) == 1:
                    parts = [rng.choice(_SEGMENTS)] + parts
                parts.insert(rng.randint(1, len(parts) - 1), "")
            elif style == "dot_prefix":
                lead = rng.choice(("./", "./", "././", ".//"))
        return lead + "/".join(parts)

    # ---- one value, several entries ----------------------------------------------------------------
    def _graph_into(self, g: onnx.GraphProto, *, depth: int, outer: list[str]) -> None:
        super()._graph_into(g, depth=depth, outer=outer)
        self._overlap(g)

    def _strip_type(self, vi: onnx.ValueInfoProto) -> None:
        vi.ClearField("type")
        # what is left is what the entry says: a name, maybe a doc string, maybe metadata
        if not vi.doc_string and self.on("vi_doc", 0.6):
            vi.doc_string = self.text()
        if not len(vi.metadata_props):
            self._meta(vi.metadata_props, "vi_meta", 0.6)

    def _overlap(self, g: onnx.GraphProto) -> None:
        rng = self.rng
        input_names = [v.name for v in g.input]
        init_names = [t.name for t in g.initializer if t.name]
        with_entry = {v.name for v in g.value_info}
        node_outs = {o for n in g.node for o in n.output if o}

        if init_names and "overlap_untyped_init_input" in self.enabled:
            for vi in g.input:
                if vi.name in init_names and vi.HasField("type") and self.on("overlap_untyped_init_input", 0.4):
                    self._strip_type(vi)
                    for out in g.output:
                        if out.name == vi.name:
                            out.CopyFrom(vi)  # the same value forwarded: identical declaration

        if "overlap_untyped_output" in self.enabled:
            own = [nm for nm in init_names if nm not in input_names and nm not in with_entry]
            listed = {v.name for v in g.output}
            if own and not (set(own) & listed) and self.on("overlap_untyped_output", 0.5):
                # an extra graph output that is one of the graph's own initializers
                nm = rng.choice(own)
                tensor = next(t for t in g.initializer if t.name == nm)
                self._value_info_into(g.output.add(), nm, for_tensor=tensor)
                listed.add(nm)
            for out in g.output:
                if out.name in own and out.HasField("type") and self.on("overlap_untyped_output", 0.6):
                    self._strip_type(out)

        if "overlap_output_value_info" in self.enabled:
            for out in g.output:
                nm = out.name
                if nm not in node_outs or nm in input_names or nm in init_names or nm in with_entry:
                    continue
                if not self.on("overlap_output_value_info", 0.4):
                    continue
                extra = g.value_info.add()
                extra.name = nm
                self.carriers.add("value_info")
                if out.HasField("type"):
                    extra.type.CopyFrom(out.type)  # both typed: they agree
                    if rng.random() < 0.5:
                        self._strip_type(out)
                        self.used.add("overlap_output_value_info:untyped_output")
                else:
                    self._type_into(extra.type)
                    self.used.add("overlap_output_value_info:untyped_output")
                with_entry.add(nm)
