"""C09 monitors, workload generator, offline checkers and the killable child process.

Everything that touches threads lives here and runs inside a *child* of the shard
(``python -m vfpy.c09_mon``): the shard (``vfpy/props/c09.py``) sends one JSON request per line
on stdin (``{"seed":..,"case":..,"rep":..}``) and reads one JSON result line on stdout.  A
watchdog thread inside the child diagnoses hangs structurally (two samples of
``sys._current_frames()`` with identical event counts and every thread parked at a lock /
condition) and then terminates the child; the shard restarts it.

Observation points (none of them shares code with ``onnx_ir.external_data``):

(i)   ``MonTensor`` - an own TensorProtocol implementation whose ``tofile/tobytes/numpy`` log
      enter/exit events into the monitor's log (logical clock = position in the log, appended
      under the monitor's own lock).  Logged intervals are subsets of the real evaluation
      intervals, so an overlap in the log is a real overlap.  The same events are logged by
      subclasses of every library tensor class a user can share between initializers
      (``ir.Tensor`` over an ndarray or over a framework array materialised on demand,
      ``ir.LazyTensor``, ``ir.ExternalTensor``, ``ir.PackedTensor``; see ``BASES``), whose real
      base-class methods produce the bytes.
(ii)  ``MonBudget`` - subclass of the real ``_ByteBudget`` (substituted through the module
      attribute) whose ``acquire/release`` call the real methods and afterwards read the real
      counters under the budget's own condition lock; its condition is replaced by a counting
      subclass of ``threading.Condition`` so that "an acquire had to wait" is measured.
(iii) the progress callback, (iv) byte comparison with a serial save, (v) thread census.
"""

from __future__ import annotations

import errno
import hashlib
import itertools
import json
import linecache
import os
import random
import shutil
import sys
import threading
import time
import traceback
from collections import Counter

import numpy as np

import onnx_ir as ir
from onnx_ir import external_data as ed

PROP = "C09"
STALL_S = 3.0  # silence (no monitor event) after which the watchdog samples the stacks
SAMPLE_GAP_S = 0.5  # distance between the two samples
CONFIRM_GAP_S = 1.0  # a third, confirming sample is taken this much later
HARD_SAVE_S = 40.0  # a save still running after this without a structural diagnosis: inconclusive
# tensor classes a user can share between initializers: an own TensorProtocol implementation, an ir.Tensor
# subclass over an ndarray, an ir.Tensor subclass over a framework (non-ndarray) array that materialises in
# tobytes/tofile (the shape of tensor_adapters.TorchTensor), ir.LazyTensor, ir.ExternalTensor, ir.PackedTensor
BASES = ("protocol", "tensor", "adapter", "lazy", "external", "packed")
BASE_NAMES = {"protocol": "TensorProtocol-object", "tensor": "ir.Tensor-subclass", "adapter": "ir.Tensor-subclass-materialising",
              "lazy": "ir.LazyTensor", "external": "ir.ExternalTensor", "packed": "ir.PackedTensor"}
PROFILES = ("uniform", "pct", "pct", "stall_worker", "stall_oversized", "stall_shared", "fast_fail")


class InjectedFailure(Exception):
    """Raised by a monitor tensor that was told to fail."""


class InjectedBaseFailure(BaseException):
    """Same, but not an ``Exception`` (the writer catches ``BaseException``)."""


def _hash(obj) -> str:
    text = json.dumps(obj, sort_keys=True, default=repr)
    return hashlib.blake2b(text.encode(), digest_size=8).hexdigest()


# ------------------------------------------------------------------------------------------------
# workload
# ------------------------------------------------------------------------------------------------
def _planned_shards(rng: random.Random):
    """A sharded layout chosen shard by shard instead of by one random ``max_shard_size_bytes``:
    every shard starts with an *anchor* object larger than half the shard limit (so the greedy
    sharder opens a new file there) followed by 0-3 small objects.  Shards therefore differ in
    tensor count (single-tensor shards are written by their shard driver, larger ones by an inner
    pool when ``max_workers`` leaves threads over) and one anchor may start several shards, i.e.
    one tensor object is evaluated by writers of different kinds.  The plan is only a generator
    hint: no verdict depends on the layout the library actually chooses."""
    n_shards = rng.choice([2, 2, 2, 3, 3, 4])
    counts = [rng.choice([1, 1, 2, 3, 4]) for _ in range(n_shards)]
    if rng.random() < 0.7 and (1 not in counts or max(counts) == 1):
        i, j = rng.sample(range(n_shards), 2)
        counts[i], counts[j] = 1, rng.randint(2, 4)
    limit = rng.randint(64, 6000)
    n_anchor = rng.randint(1, n_shards)
    sizes = [rng.randint(limit // 2 + 1, max(limit // 2 + 1, limit * 4 // 5)) for _ in range(n_anchor)]
    room = limit - max(sizes)
    n_small = rng.randint(1, 4)
    sizes += [rng.randint(1, max(1, room // 3)) for _ in range(n_small)]
    uses = []
    for c in counts:
        shard = [rng.randrange(n_anchor)] + [n_anchor + rng.randrange(n_small) for _ in range(c - 1)]
        if rng.random() < 0.2:
            rng.shuffle(shard)
        uses += shard
    used = sorted(set(uses))  # drop objects no shard uses
    uses = [used.index(o) for o in uses]
    workers = max(2, min(16, n_shards * rng.choice([1, 2, 3, 3, 4]) + rng.randint(0, 2)))
    return [sizes[o] for o in used], uses, limit, workers


def gen_spec(rng: random.Random) -> dict:
    """One save: tensor objects, their uses (an object may back several initializers), sizes
    (0 bytes .. 8000), entry point, worker count, byte budget, sharding (random limit or a
    shard-by-shard plan), alignment, failing tensors and a schedule profile."""
    mode = "sharded" if rng.random() < 0.4 else "single"
    layout = "planned" if mode == "sharded" and rng.random() < 0.45 else "greedy"
    max_shard = None
    if layout == "planned":
        obj_sizes, uses, max_shard, workers = _planned_shards(rng)
        n_obj = len(obj_sizes)
    else:
        n_obj = rng.randint(2, 10)
        mix = rng.choice(["tiny", "mixed", "mixed", "mixed", "big", "equal"])
        base = rng.randint(8, 600)

        def size() -> int:
            if mix == "tiny":
                return rng.randint(1, 48)
            if mix == "big":
                return rng.randint(400, 6000)
            if mix == "equal":
                return base
            r = rng.random()
            if r < 0.4:
                return rng.randint(1, 64)
            if r < 0.8:
                return rng.randint(65, 1200)
            return rng.randint(1200, 8000)

        obj_sizes = [size() for _ in range(n_obj)]
        uses = list(range(n_obj))
        if rng.random() < 0.55:
            for _ in range(rng.randint(1, 2)):
                o = rng.randrange(n_obj)
                for _ in range(rng.randint(1, 3)):
                    uses.insert(rng.randrange(len(uses) + 1), o)
        if rng.random() < 0.25:
            rng.shuffle(uses)
    # zero-element tensors: legitimate initializers whose reservation is 0 bytes
    if rng.random() < 0.25:
        for _ in range(rng.randint(1, 2)):
            obj_sizes.append(0)
            for _ in range(rng.choice([1, 1, 2])):
                uses.insert(rng.randrange(len(uses) + 1), n_obj)
            n_obj += 1
    objs = []
    for s in obj_sizes:
        itemsize = rng.choice([i for i in (1, 2, 4, 8) if s % i == 0])
        objs.append({"size": s, "itemsize": itemsize, "tofile": rng.random() < 0.75, "chunks": rng.random() < 0.5})
    sizes = [objs[o]["size"] for o in uses]
    total, mx, srt = sum(sizes), max(sizes), sorted(sizes)
    budget = max(1, rng.choice([
        1, 1, srt[0], srt[len(srt) // 2], srt[len(srt) // 2], mx - 1, mx,
        total // 2, total + 10, rng.randint(1, total),
    ]))
    if layout == "greedy":
        workers = rng.choice([2, 2, 3, 4, 4, 6, 8])
        if mode == "sharded":
            max_shard = max(1, total // rng.randint(2, 5))
            workers = rng.choice([2, 3, 4, 4, 6, 8, 12, 16])
    alignment = None
    align_threshold = 0
    if rng.random() < 0.15:
        alignment = 4096
        align_threshold = rng.choice([0, srt[len(srt) // 2]])
    fail = {}
    if rng.random() < 0.3:
        for o in rng.sample(range(n_obj), 1 if rng.random() < 0.75 or n_obj < 3 else 2):
            fail[str(o)] = [rng.choice(["early", "mid", "late"]), "base" if rng.random() < 0.12 else "exc"]
    cb_fail = rng.randrange(len(uses)) if rng.random() < 0.06 else None
    # entry point: ir.save (-> unload_from_model) or the public tensor-level writer; ir.save only
    # externalises tensors with nbytes > size_threshold_bytes, so zero-byte tensors need -1 there
    api = "convert" if mode == "single" and rng.random() < 0.3 else "save"
    # tensor class of every object (own random stream, so the other dimensions keep their distribution)
    profile, p_yield = rng.choice(PROFILES), rng.choice([0, 0, 0.02, 0.1, 0.3])
    data_seed = rng.getrandbits(32)
    brng = random.Random(f"{data_seed}:base")
    for od in objs:
        od["base"] = brng.choice(BASES + BASES[:1])
        od["lazy_cache"] = brng.random() < 0.4
        od["src_offset"] = brng.choice([0, 0, 8, 24])
    if brng.random() < 0.35:
        # every object that backs several initializers (or, failing that, one object) is of ONE non-protocol class
        b = brng.choice(BASES[1:])
        multi = [o for o in range(n_obj) if uses.count(o) > 1] or [brng.randrange(n_obj)]
        for o in multi:
            objs[o]["base"] = b
    return {
        "cb_fail": cb_fail,
        "mode": mode, "layout": layout, "api": api, "threshold": -1 if 0 in sizes else 0,
        "objs": objs, "uses": uses, "budget": budget, "workers": workers,
        "max_shard": max_shard, "alignment": alignment, "align_threshold": align_threshold,
        "fail": fail, "profile": profile, "p_yield": p_yield,
        "data_seed": data_seed,
    }


_ENV_ERRNOS = {errno.ENOSPC, errno.EMFILE, errno.ENFILE, errno.ENOMEM, errno.EDQUOT}

_DTYPES = {1: (ir.DataType.UINT8, np.uint8), 2: (ir.DataType.INT16, np.int16),
           4: (ir.DataType.FLOAT, np.float32), 8: (ir.DataType.INT64, np.int64)}


class _Box:
    """What a tensor consults to find the monitor of the save it takes part in (None = quiet)."""

    def __init__(self, mon=None):
        self.mon = mon


class MonTensorNoFile:
    """TensorProtocol implementation without ``tofile`` (the writer then uses ``tobytes``)."""

    def __init__(self, label: int, data: bytes, itemsize: int, box: _Box, fail, shared: bool, chunks: bool):
        self.label = label
        self.name = f"t{label}"
        self._data = data
        self.dtype, self._np = _DTYPES[itemsize]
        self.shape = ir.Shape([len(data) // itemsize])
        self.doc_string = None
        self.raw = data
        self.metadata_props: dict = {}
        self.meta: dict = {}
        self._box = box
        self.fail = fail  # None or [when, kind]
        self.shared = shared
        self.chunks = chunks

    @property
    def size(self) -> int:
        return self.shape[0]

    @property
    def nbytes(self) -> int:
        return len(self._data)

    def __repr__(self) -> str:
        return f"MonTensor(t{self.label}, {len(self._data)}B)"

    def numpy(self):
        return self._eval("numpy", None)

    def __array__(self, dtype=None, copy=None):
        arr = self.numpy()
        return arr if dtype is None else arr.astype(dtype)

    def __dlpack__(self, *, stream=None):
        return self.numpy().__dlpack__()

    def __dlpack_device__(self):
        return self.numpy().__dlpack_device__()

    def tobytes(self) -> bytes:
        return self._eval("tobytes", None)

    def _exc(self):
        cls = InjectedBaseFailure if self.fail[1] == "base" else InjectedFailure
        return cls(f"injected failure of t{self.label}")

    def _produce(self, method: str, file, mon):
        data = self._data
        if method == "numpy":
            return np.frombuffer(data, dtype=self._np)
        if method == "tobytes":
            if mon is not None and self.fail and self.fail[0] == "mid":
                raise self._exc()
            return data
        # tofile
        if mon is not None and (self.chunks or (self.fail and self.fail[0] == "mid")) and len(data) > 1:
            half = len(data) // 2
            file.write(data[:half])
            mon.pause("t_mid", self)
            if self.fail and self.fail[0] == "mid":
                raise self._exc()
            file.write(data[half:])
        else:
            file.write(data)
        return None

    def _eval(self, method: str, file):
        mon = self._box.mon
        if mon is None:
            return self._produce(method, file, None)
        n = len(self._data)
        mon.log("t_enter", self.label, n, method)
        how = "t_error"
        try:
            try:
                mon.pause("t_in", self)
                if self.fail and self.fail[0] == "early":
                    raise self._exc()
                r = self._produce(method, file, mon)
                if self.fail and self.fail[0] == "late":
                    raise self._exc()
            except (InjectedFailure, InjectedBaseFailure):
                how = "t_raise"
                raise
            how = "t_exit"
            return r
        finally:
            mon.log(how, self.label, n, method)


class MonTensor(MonTensorNoFile):
    def tofile(self, file) -> None:
        self._eval("tofile", file)


class _MonHooks:
    """Mixin for monitor tensors derived from the library's OWN tensor classes: the public
    ``numpy/tobytes/tofile`` of the subclass log the same enter/exit events as ``MonTensor`` around
    the real method of the base class (which produces/writes the real bytes).  Only the outermost
    call of a thread on the object is logged (``ir.Tensor.tofile`` may call ``tobytes`` and that
    ``numpy``), so one use by the writer is one interval."""

    def _vf_setup(self, label: int, nbytes: int, box: _Box, fail, shared: bool, chunks: bool) -> None:
        self.label = label
        self._vf_n = nbytes
        self._box = box
        self.fail = fail
        self.shared = shared
        self.chunks = chunks
        self._vf_depth: dict[int, int] = {}  # thread ident -> 1 while that thread is inside a logged call

    def _exc(self):
        cls = InjectedBaseFailure if self.fail[1] == "base" else InjectedFailure
        return cls(f"injected failure of t{self.label}")

    def _vf_wrap(self, method: str, real, *args):
        mon = self._box.mon
        ident = threading.get_ident()
        if mon is None or self._vf_depth.get(ident):
            return real(self, *args)
        self._vf_depth[ident] = 1
        n = self._vf_n
        try:
            mon.log("t_enter", self.label, n, method)
            how = "t_error"
            try:
                try:
                    mon.pause("t_in", self)
                    if self.fail and self.fail[0] == "early":
                        raise self._exc()
                    r = real(self, *args)
                    if self.chunks or (self.fail and self.fail[0] == "mid"):
                        mon.pause("t_mid", self)
                    if self.fail and self.fail[0] in ("mid", "late"):
                        raise self._exc()
                except (InjectedFailure, InjectedBaseFailure):
                    how = "t_raise"
                    raise
                how = "t_exit"
                return r
            finally:
                mon.log(how, self.label, n, method)
        finally:
            del self._vf_depth[ident]


def _monitored(cls):
    """Class decorator: route the three evaluating methods through ``_vf_wrap``."""
    def make(name, real):
        def method(self, *args):
            return self._vf_wrap(name, real, *args)
        method.__name__ = name
        return method

    for name in ("numpy", "tobytes", "tofile"):
        setattr(cls, name, make(name, getattr(cls, name)))
    return cls


@_monitored
class MonIrTensor(_MonHooks, ir.Tensor):
    """``ir.Tensor`` subclass over an ndarray."""

    def __init__(self, data: bytes, itemsize: int, name: str):
        dtype, npdt = _DTYPES[itemsize]
        super().__init__(np.frombuffer(data, dtype=npdt), dtype=dtype, name=name)


class _FrameworkArray:
    """Stands for a framework tensor: array-compatible, not an ndarray; converted when asked."""

    def __init__(self, data: bytes, npdt):
        self.data = data
        self.npdt = npdt
        self.shape = (len(data) // np.dtype(npdt).itemsize,)

    def __array__(self, dtype=None, copy=None):
        arr = np.frombuffer(self.data, dtype=self.npdt)
        return arr if dtype is None else arr.astype(dtype)


class _AdapterBase(ir.Tensor):
    """``ir.Tensor`` subclass that materialises the framework tensor in tobytes/tofile (the shape of
    ``tensor_adapters.TorchTensor``)."""

    def __init__(self, data: bytes, itemsize: int, name: str):
        dtype, npdt = _DTYPES[itemsize]
        super().__init__(_FrameworkArray(data, npdt), dtype=dtype, name=name)

    def numpy(self):
        return self.raw.__array__()

    def tobytes(self) -> bytes:
        return bytes(self.raw.data)

    def tofile(self, file) -> None:
        file.write(bytes(self.raw.data))


@_monitored
class MonAdapterTensor(_MonHooks, _AdapterBase):
    pass


@_monitored
class MonAdapterTensorNoFile(_MonHooks, _AdapterBase):
    """Overrides only tobytes; the inherited ``ir.Tensor.tofile`` falls back to it."""

    tofile = ir.Tensor.tofile


@_monitored
class MonLazyTensor(_MonHooks, ir.LazyTensor):
    def __init__(self, data: bytes, itemsize: int, name: str, cache: bool):
        dtype, npdt = _DTYPES[itemsize]
        super().__init__(lambda: ir.Tensor(np.frombuffer(data, dtype=npdt), dtype=dtype, name=name),
                         dtype=dtype, shape=ir.Shape([len(data) // itemsize]), cache=cache, name=name)


@_monitored
class MonExternalTensor(_MonHooks, ir.ExternalTensor):
    """Backed by a source file of its own (never the destination of the save)."""

    def __init__(self, data: bytes, itemsize: int, name: str, src_dir: str, prefix: int):
        dtype, _ = _DTYPES[itemsize]
        os.makedirs(src_dir, exist_ok=True)
        location = f"{name}.bin"
        path = os.path.join(src_dir, location)
        if not os.path.exists(path):
            with open(path, "wb") as f:
                f.write(b"\xee" * prefix + data + b"\xee" * 5)
        super().__init__(location, prefix, len(data), dtype, shape=ir.Shape([len(data) // itemsize]),
                         name=name, base_dir=src_dir)


@_monitored
class MonPackedTensor(_MonHooks, ir.PackedTensor):
    def __init__(self, data: bytes, name: str):
        super().__init__(np.frombuffer(data, dtype=np.uint8), ir.DataType.UINT4, shape=[2 * len(data)], name=name)


def _make_tensor(o: int, od: dict, data: bytes, box: _Box, fail, shared: bool, src_dir: str | None):
    base = od.get("base", "protocol")
    if base == "external" and src_dir is None:
        base = "protocol"
    if base == "protocol":
        cls = MonTensor if od["tofile"] else MonTensorNoFile
        return cls(o, data, od["itemsize"], box, fail, shared, od["chunks"])
    name = f"t{o}"
    if base == "tensor":
        t = MonIrTensor(data, od["itemsize"], name)
    elif base == "adapter":
        t = (MonAdapterTensor if od["tofile"] else MonAdapterTensorNoFile)(data, od["itemsize"], name)
    elif base == "lazy":
        t = MonLazyTensor(data, od["itemsize"], name, bool(od.get("lazy_cache")))
    elif base == "external":
        t = MonExternalTensor(data, od["itemsize"], name, src_dir, od.get("src_offset", 0))
    elif base == "packed":
        t = MonPackedTensor(data, name)
    else:
        raise ValueError(f"unknown tensor base {base!r}")
    t._vf_setup(o, len(data), box, fail, shared, od["chunks"])
    if t.nbytes != len(data):
        raise RuntimeError(f"harness: {type(t).__name__} reports nbytes={t.nbytes} for {len(data)} bytes")
    return t


def build_model(spec: dict, box: _Box, faults: bool, src_dir: str | None = None):
    shared = Counter(spec["uses"])
    tensors = []
    for o, od in enumerate(spec["objs"]):
        data = random.Random(f"{spec['data_seed']}:{o}").randbytes(od["size"])
        fail = spec["fail"].get(str(o)) if faults else None
        tensors.append(_make_tensor(o, od, data, box, fail, shared[o] > 1, src_dir))
    values = [
        ir.Value(name=f"w{i}", const_value=tensors[o], shape=tensors[o].shape,
                 type=ir.TensorType(tensors[o].dtype))
        for i, o in enumerate(spec["uses"])
    ]
    out = ir.Value(name="y", shape=values[0].shape, type=values[0].type)
    node = ir.Node("", "Identity", inputs=[values[0]], outputs=[out], name="n0")
    graph = ir.Graph(inputs=[], outputs=[out], nodes=[node], initializers=values,
                     opset_imports={"": 20}, name="g")
    return ir.Model(graph, ir_version=10), tensors


# ------------------------------------------------------------------------------------------------
# monitor: event log + schedule injection
# ------------------------------------------------------------------------------------------------
class Schedule:
    """Seeded delays at monitor points: PCT-style per-thread speed classes, an occasional long
    stall of one worker, and targeted stalls of the thread that evaluates an oversized / shared
    tensor (so that the reservation is held while the other workers arrive)."""

    def __init__(self, spec: dict, rng: random.Random):
        self.rng = rng
        self.lock = threading.Lock()
        self.profile = spec["profile"]
        self.budget = spec["budget"]
        self.cls: dict[int, float] = {}
        self.count: Counter = Counter()
        self.stall_thread = rng.randint(1, spec["workers"]) if self.profile == "stall_worker" else None
        self.stall_at = rng.randint(1, 10)

    def delay(self, tlabel: int, point: str, tensor) -> float:
        rng = self.rng
        with self.lock:
            f = self.cls.get(tlabel)
            if f is None:
                f = rng.choice([0.0, 0.1, 0.4, 1.0]) if self.profile != "uniform" else 0.5
                self.cls[tlabel] = f
            self.count[tlabel] += 1
            if self.stall_thread == tlabel and self.count[tlabel] == self.stall_at:
                return rng.uniform(0.03, 0.07)
            if tensor is not None and point == "t_in":
                if self.profile == "stall_oversized" and tensor.nbytes > self.budget:
                    return rng.uniform(0.008, 0.025)
                if self.profile == "stall_shared" and tensor.shared:
                    return rng.uniform(0.008, 0.02)
                if self.profile == "fast_fail":
                    return -1.0 if tensor.fail else rng.uniform(0.008, 0.025)
            r = rng.random()
            if r < 0.3:
                return -1.0
            if r < 0.45:
                return 0.0
            return rng.uniform(0.0, 0.003) * f


class Monitor:
    def __init__(self, spec: dict, sched_rng: random.Random):
        self.lock = threading.Lock()
        self.events: list[tuple] = []
        self.last_t = time.monotonic()
        self.tlabels: dict[int, int] = {}
        self.tnames: dict[int, str] = {}
        self.budgets: list = []
        self.sched = Schedule(spec, sched_rng)
        self.lines = itertools.count()
        self.yields = itertools.count()

    def _label(self) -> int:
        ident = threading.get_ident()
        t = self.tlabels.get(ident)
        if t is None:
            with self.lock:
                t = self.tlabels.get(ident)
                if t is None:
                    t = self.tlabels[ident] = len(self.tlabels)
                    self.tnames[t] = threading.current_thread().name
        return t

    def log(self, kind: str, a=None, b=None, c=None) -> int:
        t = self._label()
        with self.lock:
            clk = len(self.events)
            self.events.append((clk, t, kind, a, b, c))
            self.last_t = time.monotonic()
        return clk

    def pause(self, point: str, tensor=None) -> None:
        d = self.sched.delay(self._label(), point, tensor)
        if d >= 0.0:
            time.sleep(d)

    def register_budget(self, budget) -> int:
        with self.lock:
            self.budgets.append(budget)
            return len(self.budgets) - 1


class _State:
    mon: Monitor | None = None  # monitor of the concurrent save in progress
    in_save = False
    save_start = 0.0
    case = None
    rep = None
    spec = None
    line_state = None  # (mon, p, rng) while LINE yields are armed


STATE = _State()


class _CountingCondition(threading.Condition):
    """The budget's condition variable; ``wait`` is logged (measures that an acquire blocked)."""

    def __init__(self, mon: Monitor, bid: int):
        super().__init__()
        self._vf = (mon, bid)

    def wait(self, timeout=None):
        mon, bid = self._vf
        mon.log("b_wait", bid)
        r = super().wait(timeout)
        mon.log("b_woke", bid)
        return r


def _discover_budget_attrs(real) -> dict:
    """The budget keeps a capacity, a count of bytes in flight, an 'oversized reservation active' flag and
    a condition variable.  Their attribute NAMES are private and may be renamed by a refactoring, so they
    are discovered by behaviour on a probe object instead of being hard-coded: the attribute that holds
    the constructor argument, the Condition, the int that follows acquire/release of a fitting
    reservation, the flag that follows an oversized one."""
    def state(o):
        d = dict(getattr(o, "__dict__", {}))
        for klass in type(o).__mro__:
            for name in getattr(klass, "__slots__", ()):
                if hasattr(o, name):
                    d[name] = getattr(o, name)
        return d

    probe = real(5)
    d0 = state(probe)
    cond = [k for k, v in d0.items() if isinstance(v, threading.Condition)]
    cap = [k for k, v in d0.items() if type(v) is int and v == 5]
    tok = probe.acquire(3)
    d1 = state(probe)
    infl = [k for k, v in d1.items() if type(v) is int and v == 3 and d0.get(k) == 0]
    probe.release(tok)
    tok = probe.acquire(100)
    d2 = state(probe)
    over = [k for k, v in d2.items() if bool(v) and not bool(d0.get(k)) and k not in infl and type(v) in (bool, int)]
    probe.release(tok)
    d3 = state(probe)
    found = {"capacity": cap, "in_flight": infl, "oversized": over, "condition": cond}
    bad = {k: v for k, v in found.items() if len(v) != 1}
    if bad or any(d3.get(k) != d0.get(k) for k in infl + over):
        raise RuntimeError(f"_ByteBudget state not recognisable by behaviour ({bad or 'probe did not return to its initial state'}): "
                           "budget facet unobservable")
    return {k: v[0] for k, v in found.items()}


def install_budget_monitor() -> None:
    real = ed._ByteBudget
    if not callable(getattr(real, "acquire", None)) or not callable(getattr(real, "release", None)):
        raise RuntimeError("_ByteBudget no longer has acquire/release: budget facet unobservable")
    names = _discover_budget_attrs(real)
    a_cap, a_infl, a_over, a_cond = names["capacity"], names["in_flight"], names["oversized"], names["condition"]

    class MonBudget(real):  # type: ignore[misc, valid-type]
        def __init__(self, capacity):
            super().__init__(capacity)
            mon = STATE.mon
            self._vf_mon = mon
            if mon is not None:
                self._vf_id = mon.register_budget(self)
                setattr(self, a_cond, _CountingCondition(mon, self._vf_id))

        def _vf_snap(self):
            with getattr(self, a_cond):
                return (getattr(self, a_infl), bool(getattr(self, a_over)), getattr(self, a_cap))

        def acquire(self, nbytes):
            mon = self._vf_mon
            if mon is None:
                return super().acquire(nbytes)
            mon.log("b_req", self._vf_id, nbytes)
            mon.pause("b_req")
            token = super().acquire(nbytes)
            snap = self._vf_snap()
            mon.log("b_ok", self._vf_id, token, snap)
            mon.pause("b_ok")
            return token

        def release(self, reservation):
            mon = self._vf_mon
            if mon is None:
                return super().release(reservation)
            mon.pause("b_rel")
            mon.log("b_rel", self._vf_id, reservation)  # shadow interval ends before the real release
            super().release(reservation)
            snap = self._vf_snap()
            mon.log("b_rel_done", self._vf_id, reservation, snap)
            mon.pause("b_rel_done")
            return None

    MonBudget.__name__ = "_ByteBudget"
    ed._ByteBudget = MonBudget


def _module_codes(module) -> list:
    fname = module.__file__
    seen, out, stack = set(), [], []
    for v in vars(module).values():
        if isinstance(v, type):
            stack.extend(x for x in vars(v).values())
        else:
            stack.append(v)
    while stack:
        v = stack.pop()
        if isinstance(v, (staticmethod, classmethod)):
            v = v.__func__
        if isinstance(v, property):
            stack.extend(f for f in (v.fget, v.fset, v.fdel) if f)
            continue
        code = getattr(v, "__code__", None) if not isinstance(v, type(_module_codes.__code__)) else v
        if code is None or id(code) in seen or getattr(code, "co_filename", None) != fname:
            continue
        seen.add(id(code))
        out.append(code)
        stack.extend(c for c in code.co_consts if isinstance(c, type(code)))
    return out


def install_line_yields() -> int:
    """sleep(0) at a seeded fraction of the LINE events of external_data.py (while armed)."""
    mon_api = sys.monitoring
    tool = mon_api.PROFILER_ID
    mon_api.use_tool_id(tool, "vf-c09")

    def on_line(code, line):
        st = STATE.line_state
        if st is None:
            return None
        mon, p, rng = st
        next(mon.lines)
        if p and rng.random() < p:
            next(mon.yields)
            time.sleep(0)
        return None

    mon_api.register_callback(tool, mon_api.events.LINE, on_line)
    codes = _module_codes(ed)
    for code in codes:
        mon_api.set_local_events(tool, code, mon_api.events.LINE)
    return len(codes)


# ------------------------------------------------------------------------------------------------
# offline checkers over the event log
# ------------------------------------------------------------------------------------------------
TRACE_KINDS = {"b_req", "b_wait", "b_ok", "t_enter", "t_exit", "t_raise", "t_error", "b_rel", "cb_enter", "cb_exit", "cb_raise"}


def _window(events, clk, n=14) -> str:
    lo = max(0, clk - n)
    return " ".join(
        f"[{e[0]} T{e[1]} {e[2]}" + "".join(f" {x}" for x in e[3:] if x is not None) + "]"
        for e in events[lo:clk + 1]
    )


def analyse(spec: dict, events: list, outcome: str, ret_clk: int):
    """Returns (violations [(signature, message)], stats).  ``outcome`` is 'returned' or 'raised'."""
    mode = spec["mode"]
    uses = spec["uses"]
    n_uses = len(uses)
    sizes = [spec["objs"][o]["size"] for o in uses]
    bound = spec["budget"] + max(sizes)
    viol: dict[str, str] = {}
    st: Counter = Counter()

    def bad(sig: str, msg: str) -> None:
        viol.setdefault(sig, msg)

    n_backs = Counter(uses)
    cb_active: dict[int, int] = {}
    cb_count: Counter = Counter()
    cb_obj: Counter = Counter()
    obj_active: Counter = Counter()
    mat = 0
    shadow_over: Counter = Counter()
    shadow_sum: Counter = Counter()
    busy: set = set()
    evaluating = 0
    injected_raise = 0
    file_cbs: Counter = Counter()  # observed layout: callbacks per destination file ...
    file_threads: dict = {}  # ... the threads that made them ...
    file_objs: dict = {}  # ... and the tensor objects they were made for
    for ev in events:
        clk, thr, kind, a, b, c = ev
        st["ev_" + kind] += 1
        if clk > ret_clk:
            bad(f"event-after-{outcome}|{mode}",
                f"event logged after the save {outcome}: {_window(events, clk, 6)}")
            continue
        if kind == "cb_enter":
            cb_count[a] += 1
            cb_obj[b] += 1
            if cb_active:
                bad(f"callback-overlap|{mode}",
                    f"callback for index {a} entered on T{thr} while callback(s) {sorted(cb_active)} "
                    f"still running on T{sorted(set(cb_active.values()))}: {_window(events, clk)}")
            cb_active[a] = thr
            total = c[0] if c else None
            if c:
                file_cbs[c[1]] += 1
                file_threads.setdefault(c[1], set()).add(thr)
                file_objs.setdefault(c[1], set()).add(b)
            if total != n_uses:
                bad(f"callback-total-wrong|{mode}", f"CallbackInfo.total={total}, {n_uses} tensors are written")
        elif kind in ("cb_exit", "cb_raise"):
            cb_active.pop(a, None)
            if kind == "cb_raise":
                injected_raise += 1
        elif kind == "t_enter":
            obj_active[a] += 1
            evaluating += 1
            st["max_eval"] = max(st["max_eval"], evaluating)
            base = spec["objs"][a].get("base", "protocol")
            if n_backs[a] > 1:
                st["shared_evals_" + base] += 1
            if obj_active[a] > 1:
                bad(f"same-tensor-concurrent|{mode}|{BASE_NAMES[base]}",
                    f"tensor object t{a} ({BASE_NAMES[base]}, backs {uses.count(a)} initializers) entered {c} on T{thr} while "
                    f"another evaluation of the same object was in progress: {_window(events, clk)}")
            mat += b
            st["zero_byte_evals"] += 1 if b == 0 else 0
            st["mat_peak"] = max(st["mat_peak"], mat)
            if mat > bound:
                n_over = sum(1 for s in sizes if s > spec["budget"])
                bad(f"materialised-bytes-exceed-budget-plus-largest|{mode}|{'several-oversized' if n_over > 1 else 'regular'}",
                    f"{mat} bytes inside tofile/tobytes at once > max_in_flight_bytes {spec['budget']} + largest "
                    f"tensor {max(sizes)} = {bound}; sizes={sizes}: {_window(events, clk)}")
        elif kind in ("t_exit", "t_raise", "t_error"):
            obj_active[a] -= 1
            evaluating -= 1
            mat -= b
            if kind == "t_raise":
                injected_raise += 1
        elif kind == "b_req":
            busy.add(thr)
            st["max_busy"] = max(st["max_busy"], len(busy))
        elif kind == "b_ok":
            in_flight, over, cap = c
            if b == -1:
                st["oversized_reservations"] += 1
                shadow_over[a] += 1
                if shadow_over[a] > 1:
                    bad("budget-two-oversized-reservations-active",
                        f"{shadow_over[a]} oversized reservations held at once (capacity {cap}): {_window(events, clk)}")
            else:
                shadow_sum[a] += b
                if shadow_sum[a] > cap:
                    bad("budget-reservations-exceed-capacity",
                        f"regular reservations held at once sum to {shadow_sum[a]} > capacity {cap}: {_window(events, clk)}")
            if not 0 <= in_flight <= cap:
                bad("budget-counter-out-of-range|after-acquire",
                    f"_in_flight={in_flight} outside [0, {cap}] after acquire: {_window(events, clk)}")
            st["budget_snapshots"] += 1
        elif kind == "b_rel":
            if b == -1:
                shadow_over[a] -= 1
            else:
                shadow_sum[a] -= b
        elif kind == "b_rel_done":
            busy.discard(thr)
            in_flight, over, cap = c
            if not 0 <= in_flight <= cap:
                bad("budget-counter-out-of-range|after-release",
                    f"_in_flight={in_flight} outside [0, {cap}] after release: {_window(events, clk)}")
            st["budget_snapshots"] += 1

    # exactly-once callbacks
    if outcome == "returned":
        wrong = {i: cb_count.get(i, 0) for i in range(n_uses) if cb_count.get(i, 0) != 1}
        extra = {i: n for i, n in cb_count.items() if not (isinstance(i, int) and 0 <= i < n_uses)}
        if wrong or extra:
            kind = "missing" if any(n == 0 for n in wrong.values()) else "duplicate"
            bad(f"callback-count-not-1|{kind}|{mode}",
                f"callback counts per index != 1: {wrong} unexpected indices {extra}; {n_uses} tensors")
        want = Counter(uses)
        if not wrong and not extra and cb_obj != want:
            bad(f"callback-wrong-tensor|{mode}", f"callbacks per tensor object {dict(cb_obj)} != uses {dict(want)}")
    else:
        dup = {i: n for i, n in cb_count.items() if n > 1}
        if dup:
            bad(f"callback-count-not-1|duplicate|{mode}", f"callback invoked more than once for indices {dup}")
    if injected_raise and outcome == "returned":
        bad(f"worker-exception-swallowed|{mode}",
            f"{injected_raise} tensor evaluation(s) raised the injected failure but the save returned normally")
    st["injected_raises"] = injected_raise
    # measured, report-only: did writers of different kinds take part?  A file whose callbacks came
    # from >=2 threads was written by an inner pool; a file with one tensor by its shard driver.
    if outcome == "returned" and mode == "sharded":
        single = {f for f, n in file_cbs.items() if n == 1}
        pooled = {f for f in file_cbs if len(file_threads[f]) >= 2}
        st["files"] = len(file_cbs)
        if single and pooled:
            st["driver_and_pool_writers"] = 1
            in_single = set().union(*(file_objs[f] for f in single))
            in_pooled = set().union(*(file_objs[f] for f in pooled))
            if in_single & in_pooled:
                st["object_shared_by_driver_and_pool"] = 1
    return list(viol.items()), st


def trace_hash(spec_hash: str, events: list) -> str:
    h = hashlib.blake2b(spec_hash.encode(), digest_size=8)
    for ev in events:
        if ev[2] in TRACE_KINDS:
            h.update(f"{ev[2]}:{ev[3]};".encode())
    return h.hexdigest()


def _files(d: str) -> dict[str, bytes]:
    out = {}
    for root, _dirs, names in os.walk(d):
        for n in names:
            p = os.path.join(root, n)
            with open(p, "rb") as f:
                out[os.path.relpath(p, d)] = f.read()
        for dn in _dirs:
            out.setdefault(os.path.relpath(os.path.join(root, dn), d) + "/", b"")
    return out


# ------------------------------------------------------------------------------------------------
# one case = serial reference save + one monitored concurrent save
# ------------------------------------------------------------------------------------------------
def _save(model, tensors, directory: str, spec: dict, **kw):
    """One external-data save through the entry point named by the case; returns what the
    tensor-level writer reports about each written tensor (None for ir.save)."""
    if spec.get("api") == "convert":
        ext = ed.convert_tensors_to_external(
            [tensors[o] for o in spec["uses"]], directory, "m.data", alignment=spec["alignment"],
            align_threshold=spec["align_threshold"], **kw,
        )
        return [(str(t.location), t.offset, t.length) for t in ext]
    ir.save(
        model, os.path.join(directory, "m.onnx"), external_data="m.data",
        size_threshold_bytes=spec.get("threshold", 0),
        max_shard_size_bytes=spec["max_shard"], alignment=spec["alignment"],
        align_threshold=spec["align_threshold"], **kw,
    )
    return None


def run_case(seed: int, case: int, rep: int, tmp_root: str, spec: dict | None = None) -> dict:
    t0 = time.monotonic()
    if spec is None:
        spec = gen_spec(random.Random(f"{seed}:{PROP}::{case}"))  # == ctx.rng(case)
    spec_hash = _hash(spec)
    sched_rng = random.Random(f"{seed}:{PROP}:sched:{case}:{rep}")
    d = os.path.join(tmp_root, f"c{case}_{rep}")
    a, b = os.path.join(d, "serial"), os.path.join(d, "conc")
    os.makedirs(a)
    os.makedirs(b)
    try:
        src = os.path.join(d, "src")  # source files of ExternalTensor-based objects (read by both saves)
        model0, tensors0 = build_model(spec, _Box(None), faults=False, src_dir=src)
        ret_serial = _save(model0, tensors0, a, spec)  # serial reference: no workers, no monitor, no faults

        mon = Monitor(spec, sched_rng)
        model, tensors = build_model(spec, _Box(mon), faults=True, src_dir=src)

        def callback(tensor, info):
            mon.log("cb_enter", info.index, getattr(tensor, "label", None),
                    (info.total, info.filename, info.offset))
            mon.pause("cb")
            if spec["cb_fail"] is not None and info.index == spec["cb_fail"]:
                mon.log("cb_raise", info.index)
                raise InjectedFailure(f"injected failure of the callback for index {info.index}")
            mon.log("cb_exit", info.index)

        before = set(threading.enumerate())
        STATE.case, STATE.rep, STATE.spec = case, rep, spec
        STATE.mon = mon
        STATE.save_start = time.monotonic()
        mon.log("save_start")
        STATE.line_state = (mon, spec["p_yield"], random.Random(sched_rng.getrandbits(32)))
        STATE.in_save = True
        exc_name = None
        try:
            ret_conc = _save(model, tensors, b, spec, callback=callback, max_workers=spec["workers"],
                             max_in_flight_bytes=spec["budget"])
            outcome = "returned"
        except (KeyboardInterrupt, SystemExit):
            raise
        except BaseException as e:  # noqa: BLE001 - "raises": any type is accepted
            if isinstance(e, OSError) and e.errno in _ENV_ERRNOS:
                raise RuntimeError(f"environment problem, not a verdict: {e!r}") from e
            outcome = "raised"
            exc_name = type(e).__name__
            exc_text = f"{type(e).__name__}: {e}"[:300]
        finally:
            STATE.in_save = False
            STATE.line_state = None
        ret_clk = mon.log("save_end", outcome)
        alive = [t for t in threading.enumerate() if t not in before]
        alive_desc = [t.name for t in alive]
        budget_end = []
        for bud in mon.budgets:
            budget_end.append(bud._vf_snap())
        dirty = False
        for t in alive:
            t.join(2.0)
            dirty = dirty or t.is_alive()
        STATE.mon = None
        with mon.lock:
            events = list(mon.events)

        mode = spec["mode"]
        viol, st = analyse(spec, events, outcome, ret_clk)
        if alive_desc:
            viol.append((f"worker-alive-after-{outcome}|{mode}",
                         f"threads still running when the save {outcome}: {alive_desc}; "
                         f"events logged afterwards: {len(events) - 1 - ret_clk}"))
        for i, (in_flight, over, cap) in enumerate(budget_end):
            if in_flight != 0 or over:
                viol.append((f"budget-not-released-after-{outcome}|{mode}",
                             f"after the save {outcome} budget {i} still has _in_flight={in_flight} "
                             f"_oversized_active={over} (capacity {cap}); tail: {_window(events, ret_clk, 10)}"))
        if outcome == "raised" and not st["injected_raises"]:
            viol.append((f"save-raised-without-fault|{mode}|{exc_name}",
                         f"no tensor failed but the concurrent save raised {exc_text}"))
        compared = False
        if outcome == "returned" and not st["injected_raises"]:
            fa, fb = _files(a), _files(b)
            compared = True
            if ret_serial != ret_conc:
                viol.append((f"output-differs-from-serial|{mode}|returned-external-tensors",
                             f"(location, offset, length) per tensor: serial {ret_serial}, concurrent {ret_conc}"))
            if sorted(fa) != sorted(fb):
                viol.append((f"output-differs-from-serial|{mode}|file-set",
                             f"serial save wrote {sorted(fa)}, concurrent save wrote {sorted(fb)}"))
            else:
                for name in sorted(fa):
                    if fa[name] != fb[name]:
                        kind = "model-file" if name.endswith(".onnx") else "data-file"
                        first = next((i for i, (x, y) in enumerate(zip(fa[name], fb[name])) if x != y),
                                     min(len(fa[name]), len(fb[name])))
                        viol.append((f"output-differs-from-serial|{mode}|{kind}",
                                     f"{name}: serial {len(fa[name])} bytes, concurrent {len(fb[name])} bytes, "
                                     f"first difference at byte {first}"))
                        break
        n_bud = len(mon.budgets)
        waits = st["ev_b_wait"]
        res = {
            "case": case, "rep": rep, "spec": spec, "spec_hash": spec_hash,
            "outcome": outcome if exc_name is None else f"raised:{exc_name}",
            "trace": trace_hash(spec_hash, events),
            "violations": viol,
            "stats": {
                "events": len(events), "threads": len(mon.tlabels), "budgets": n_bud, "waits": waits,
                "max_busy": st["max_busy"], "max_eval": st["max_eval"], "mat_peak": st["mat_peak"],
                "oversized": st["oversized_reservations"], "snapshots": st["budget_snapshots"],
                "callbacks": st["ev_cb_enter"], "evals": st["ev_t_enter"], "injected_raises": st["injected_raises"],
                "t_error": st["ev_t_error"], "lines": next(mon.lines), "yields": next(mon.yields),
                "compared": compared, "zero_byte_evals": st["zero_byte_evals"],
                "driver_and_pool": st["driver_and_pool_writers"], "obj_driver_and_pool": st["object_shared_by_driver_and_pool"],
                "shared_evals": sum(1 for e in events if e[2] == "t_enter" and spec["uses"].count(e[3]) > 1),
                "cap_mismatch": sum(1 for x in budget_end if x[2] != max(spec["budget"], 1)),
                "shared_evals_by_base": {b: st["shared_evals_" + b] for b in BASES},
            },
            "restart": dirty,
            "ms": round((time.monotonic() - t0) * 1000),
        }
        if viol:
            res["events_tail"] = _window(events, len(events) - 1, 60)
        return res
    finally:
        STATE.in_save = False
        STATE.line_state = None
        STATE.mon = None
        shutil.rmtree(d, ignore_errors=True)


# ------------------------------------------------------------------------------------------------
# watchdog: structural hang diagnosis
# ------------------------------------------------------------------------------------------------
_ED_FILE = ed.__file__


def _frame_summary(frame):
    stack = []
    f = frame
    while f is not None:
        stack.append((f.f_code.co_filename, f.f_code.co_name, f.f_lineno))
        f = f.f_back
    return stack  # innermost first


def _blocking_looking(filename: str, func: str, lineno: int) -> str | None:
    """Is the innermost Python frame sitting in a blocking primitive?  Returns a short tag."""
    norm = filename.replace("\\", "/")
    if norm.endswith("/threading.py") and func in ("wait", "_wait_for_tstate_lock", "join", "acquire", "wait_for"):
        return "threading." + func
    if norm.endswith("concurrent/futures/thread.py") and func == "_worker":
        return "idle-pool-worker"
    if norm.endswith("/queue.py") and func in ("get", "put"):
        return "queue." + func
    if filename == _ED_FILE and linecache.getline(filename, lineno).strip().startswith("with "):
        return "lock-acquire@" + func
    return None


def _sample(me: int):
    mon = STATE.mon
    n_events = len(mon.events) if mon is not None else -1
    out = {}
    for ident, frame in sys._current_frames().items():
        if ident == me:
            continue
        out[ident] = (frame.f_code, frame.f_lasti, _frame_summary(frame))
    return n_events, out


_FATAL_FD = 1  # set by child_main to the duplicate of the protocol pipe


def _emit_fatal(kind: str, detail: dict) -> None:
    rec = {"fatal": kind, "case": STATE.case, "rep": STATE.rep, "spec": STATE.spec, **detail}
    os.write(_FATAL_FD, (json.dumps(rec, default=repr) + "\n").encode())
    os._exit(3 if kind == "deadlock" else 4)


def watchdog() -> None:
    me = threading.get_ident()
    while True:
        time.sleep(0.25)
        mon = STATE.mon
        if mon is None or not STATE.in_save:
            continue
        now = time.monotonic()
        if now - mon.last_t < STALL_S:
            continue
        n1, s1 = _sample(me)
        time.sleep(SAMPLE_GAP_S)
        if STATE.mon is not mon or not STATE.in_save:
            continue
        n2, s2 = _sample(me)
        names = {t.ident: t.name for t in threading.enumerate()}
        stacks, parked_all, where = {}, True, set()
        for ident, (code, lasti, stack) in s2.items():
            tag = None
            if ident in s1 and s1[ident][0] is code and s1[ident][1] == lasti:
                tag = _blocking_looking(*stack[0])
            if tag is None:
                parked_all = False
            elif tag != "idle-pool-worker":
                edf = next((fn for (fl, fn, _ln) in stack if fl == _ED_FILE), None)
                if edf:
                    where.add(edf)
            stacks[names.get(ident, str(ident))] = {
                "parked": tag,
                "stack": [f"{os.path.basename(fl)}:{ln} {fn}" for (fl, fn, ln) in stack[:14]],
            }
        tail = _window(mon.events, len(mon.events) - 1, 40) if mon.events else ""
        logged = list(mon.events)
        failed = any(e[2] in ("t_raise", "cb_raise") for e in logged)
        # threads that hold a granted reservation (b_ok without b_rel in the log) yet are parked
        # at a lock: the budget is held across a blocking acquisition (lock-order diagnosis)
        held: Counter = Counter()
        for e in logged:
            if e[2] == "b_ok":
                held[e[1]] += 1
            elif e[2] == "b_rel":
                held[e[1]] -= 1
        holder_parked = set()
        for ident, (_code, _lasti, stack) in s2.items():
            if held.get(mon.tlabels.get(ident, -1), 0) > 0:
                tag = stacks.get(names.get(ident, str(ident)), {}).get("parked")
                if tag and tag.startswith("lock-acquire@"):
                    holder_parked.add(tag)
        detail = {"stacks": stacks, "events": n2, "silence_s": round(time.monotonic() - mon.last_t, 1),
                  "parked_in": sorted(where), "after_failure": failed, "events_tail": tail,
                  "holder_parked": sorted(holder_parked)}
        if n1 == n2 and parked_all and set(s1) == set(s2):
            # confirmation: a third sample one second later must show the very same picture
            time.sleep(CONFIRM_GAP_S)
            n3, s3 = _sample(me)
            same = n3 == n2 and set(s3) == set(s2) and all(
                s3[i][0] is s2[i][0] and s3[i][1] == s2[i][1] for i in s2
            )
            if same and STATE.mon is mon and STATE.in_save:
                detail["silence_s"] = round(time.monotonic() - mon.last_t, 1)
                _emit_fatal("deadlock", detail)
            continue
        if time.monotonic() - STATE.save_start > HARD_SAVE_S:
            _emit_fatal("undiagnosed-hang", detail)
        # otherwise: keep waiting, sample again on the next round


# ------------------------------------------------------------------------------------------------
# child main loop
# ------------------------------------------------------------------------------------------------
def child_main() -> int:
    sys.setswitchinterval(1e-5)
    tmp_root = os.environ.get("VF_SHARD_TMP") or os.environ.get("TMPDIR") or "."
    tmp_root = os.path.join(tmp_root, f"c09-{os.getpid()}")
    os.makedirs(tmp_root, exist_ok=True)
    out = os.fdopen(os.dup(1), "w")
    os.dup2(2, 1)  # anything printed by libraries goes to stderr; fd 1 copy is kept for fatal records
    try:
        install_budget_monitor()
        ncodes = install_line_yields()
    except Exception:  # noqa: BLE001
        out.write(json.dumps({"hello": False, "error": traceback.format_exc()}) + "\n")
        out.flush()
        return 5
    global _FATAL_FD
    _FATAL_FD = out.fileno()  # the watchdog writes fatal records to the same pipe as `out`
    threading.Thread(target=watchdog, name="vf-watchdog", daemon=True).start()
    out.write(json.dumps({"hello": True, "code_objects": ncodes, "external_data": _ED_FILE}) + "\n")
    out.flush()
    for line in sys.stdin:
        line = line.strip()
        if not line:
            continue
        req = json.loads(line)
        if req.get("quit"):
            break
        try:
            res = run_case(int(req["seed"]), int(req["case"]), int(req.get("rep", 0)), tmp_root, req.get("spec"))
        except (KeyboardInterrupt, SystemExit):
            raise
        except BaseException:  # noqa: BLE001 - harness error: reported, makes the shard inconclusive
            res = {"case": req.get("case"), "error": traceback.format_exc()}
        out.write(json.dumps(res, default=repr) + "\n")
        out.flush()
        if res.get("restart"):
            break
    shutil.rmtree(tmp_root, ignore_errors=True)
    return 0


if __name__ == "__main__":
    sys.exit(child_main())
