"""C15 workloads B and C: generated models with missing / duplicated names across nested scopes and
functions, described by a flat, JSON-able list of items so that every sub-list still builds
(this is what makes ddmin over a model possible).

items
  ["g",    gid, parent_nid | None, attr_name, kind]     kind in main | func | GRAPH | GRAPHS
  ["in",   gid, vid, name]
  ["init", gid, vid, name]                               name non-empty and unique among the inits of gid
  ["node", gid, nid, name, op_type, [vid | None, ...], [[vid, name], ...]]
  ["out",  gid, vid]
  ["free", vid, name, has_const]                         a value outside every graph (workload C)

A reference to a vid / gid / nid that is not (or no longer) defined is dropped at build time.
"""

from __future__ import annotations

import numpy as np
import onnx_ir as ir

BASES = ["x", "y", "w", "v"]
NODE_NAMES = [None, None, "", "node", "node_1", "node_2", "n", "n", "n_1", "n_1_1", "n_2", "node_1_1"]


def draw_value_name(rng, p_missing=0.18):
    r = rng.random()
    if r < p_missing:
        return None if rng.random() < 0.6 else ""
    b = rng.choice(BASES)
    r = rng.random()
    if r < 0.45:
        return b
    if r < 0.85:
        return f"{b}_{rng.randint(1, 3)}"
    if r < 0.95:
        return f"{b}_{rng.randint(1, 2)}_{rng.randint(1, 2)}"
    return f"{b}_{rng.randint(1, 2)}_1_1"


def draw_init_name(rng, taken):
    for _ in range(20):
        n = draw_value_name(rng, p_missing=0.0)
        if n not in taken:
            return n
    k = 0
    while f"w_{k}" in taken:
        k += 1
    return f"w_{k}"


class SpecGen:
    def __init__(self, rng, init_heavy=False, max_depth=2):
        self.rng = rng
        self.items = []
        self.nv = 0
        self.nn = 0
        self.ng = 0
        self.init_heavy = init_heavy
        self.max_depth = max_depth

    def vid(self):
        self.nv += 1
        return self.nv - 1

    def graph(self, parent_nid, attr, kind, visible, depth):
        rng = self.rng
        gid = self.ng
        self.ng += 1
        self.items.append(["g", gid, parent_nid, attr, kind])
        own = []
        top = kind in ("main", "func")
        for _ in range(rng.randint(1, 3) if top else rng.randint(0, 2)):
            v = self.vid()
            self.items.append(["in", gid, v, draw_value_name(rng)])
            own.append(v)
        if kind != "func":
            taken = set()
            k = rng.randint(1, 4) if self.init_heavy else rng.choice([0, 0, 1, 2, 3])
            for _ in range(k):
                if own and rng.random() < 0.12:
                    # an initializer that is also a graph input (one object in both collections)
                    cand = [it for it in self.items if it[0] == "in" and it[1] == gid and it[3] and it[3] not in taken]
                    if cand:
                        it = rng.choice(cand)
                        self.items.append(["init", gid, it[2], it[3]])
                        taken.add(it[3])
                        continue
                v = self.vid()
                name = draw_init_name(rng, taken)
                taken.add(name)
                self.items.append(["init", gid, v, name])
                own.append(v)
        for _ in range(rng.randint(2, 6) if top else rng.randint(1, 3)):
            nid = self.nn
            self.nn += 1
            pool = own + visible
            ins = []
            for _ in range(rng.randint(0, 3)):
                r = rng.random()
                if r < 0.08:
                    ins.append(None)
                elif r < 0.12:
                    d = self.vid()  # a value nobody defines (undeclared outer name in a real model)
                    self.items.append(["free", d, draw_value_name(rng), False])
                    ins.append(d)
                elif pool:
                    ins.append(rng.choice(pool))
            outs = [[self.vid(), draw_value_name(rng)] for _ in range(rng.choice([0, 1, 1, 1, 2, 2, 3]))]
            self.items.append(["node", gid, nid, rng.choice(NODE_NAMES), rng.choice(["Add", "Relu", "If", "Loop"]), ins, outs])
            own += [o[0] for o in outs]
            if depth < self.max_depth and rng.random() < (0.35 if top else 0.25):
                vis = own + visible
                r = rng.random()
                if r < 0.4:
                    self.graph(nid, "body", "GRAPH", vis, depth + 1)
                elif r < 0.75:
                    self.graph(nid, "then_branch", "GRAPH", vis, depth + 1)
                    self.graph(nid, "else_branch", "GRAPH", vis, depth + 1)
                else:
                    for _ in range(rng.randint(1, 3)):
                        self.graph(nid, "branches", "GRAPHS", vis, depth + 1)
        for _ in range(rng.randint(0, 2) if top else rng.randint(0, 2)):
            # only own values: graph.outputs takes ownership, an outer value cannot be listed here
            if own:
                self.items.append(["out", gid, rng.choice(own)])
        return gid


def gen_spec(rng, init_heavy=False, free_values=0):
    sg = SpecGen(rng, init_heavy=init_heavy, max_depth=rng.choice([1, 2, 2, 3]))
    sg.graph(None, None, "main", [], 0)
    for _ in range(rng.choice([0, 0, 1, 2])):
        sg.graph(None, None, "func", [], 0)
    for _ in range(free_values):
        sg.items.append(["free", sg.vid(), draw_value_name(rng), rng.random() < 0.5])
    return sg.items


def planted(kind, rng):
    """Adversarial seeds of the design: a fresh name equals the name of a value the pass has not visited yet."""
    b = rng.choice(BASES)
    items = [["g", 0, None, None, "main"]]
    if kind == "init_fresh_hits_init":
        # input b + initializers b, b_1
        items += [["in", 0, 0, b], ["init", 0, 1, b], ["init", 0, 2, f"{b}_1"]]
        items += [["node", 0, 0, "n", "Add", [0, 1], [[3, "o"]]], ["out", 0, 3]]
    elif kind == "fresh_hits_later_output":
        items += [["in", 0, 0, "a"]]
        for i, nm in enumerate([b, b, f"{b}_1"]):
            items.append(["node", 0, i, f"n{i}", "Relu", [0], [[1 + i, nm]]])
    elif kind == "fresh_hits_later_node":
        items += [["in", 0, 0, "a"]]
        for i, nm in enumerate(["n", "n", "n_1"]):
            items.append(["node", 0, i, nm, "Relu", [0], [[1 + i, f"o{i}"]]])
    elif kind == "unnamed_fresh_hits_later":
        items += [["in", 0, 0, "v"]]
        for i, nm in enumerate([None, "v_1"]):
            items.append(["node", 0, i, f"n{i}", "Relu", [0], [[1 + i, nm]]])
    elif kind == "sub_init_fresh_hits_sub_init":
        items += [["in", 0, 0, b], ["node", 0, 0, "n0", "If", [0], [[1, "o"]]],
                  ["g", 1, 0, "then_branch", "GRAPH"], ["init", 1, 2, b], ["init", 1, 3, f"{b}_1"],
                  ["node", 1, 1, "m", "Add", [2, 3], [[4, "p"]]], ["out", 1, 4]]
    else:
        raise ValueError(kind)
    return items


PLANTED = ["init_fresh_hits_init", "fresh_hits_later_output", "fresh_hits_later_node", "unnamed_fresh_hits_later",
           "sub_init_fresh_hits_sub_init"]


# =============================================================================================
# build
# =============================================================================================
class Built:
    def __init__(self):
        self.model = None
        self.values = {}    # vid -> Value
        self.nodes = {}     # nid -> Node
        self.graphs = {}    # gid -> Graph
        self.functions = []
        self.free = []      # vids of values outside every graph


def _tensor(name):
    return ir.tensor(np.zeros((1,), dtype=np.float32), name=name)


def build(items) -> Built:
    b = Built()
    ginfo = {}
    by_graph = {}
    for it in items:
        if it[0] == "g":
            ginfo[it[1]] = it
            by_graph.setdefault(it[1], [])
        elif it[0] == "free":
            v = ir.Value(name=it[2], const_value=_tensor(it[2]) if it[3] else None)
            b.values[it[1]] = v
            b.free.append(it[1])
        else:
            by_graph.setdefault(it[1], []).append(it)
    # pre-create every value that some existing graph defines
    late_none = []
    nodes_none = []
    for gid, its in by_graph.items():
        if gid not in ginfo:
            continue
        for it in its:
            if it[0] == "in" and it[2] not in b.values:
                b.values[it[2]] = ir.Value(name=it[3])
                if it[3] is None:
                    late_none.append(it[2])
            elif it[0] == "init" and it[2] not in b.values:
                b.values[it[2]] = ir.Value(name=it[3], const_value=_tensor(it[3]))
            elif it[0] == "node":
                for vid, name in it[6]:
                    if vid not in b.values:
                        b.values[vid] = ir.Value(name=name)
                        if name is None:
                            late_none.append(vid)
    children = {}
    for gid, info in ginfo.items():
        if info[2] is not None:
            children.setdefault(info[2], []).append(gid)

    def build_graph(gid):
        its = by_graph.get(gid, [])
        inputs, inits, nodes, outputs = [], [], [], []
        seen_in, seen_init = set(), set()
        for it in its:
            if it[0] == "in" and it[2] not in seen_in:
                seen_in.add(it[2])
                inputs.append(b.values[it[2]])
            elif it[0] == "init" and it[2] not in seen_init:
                v = b.values[it[2]]
                if v.const_value is None:
                    v.const_value = _tensor(v.name)
                if v.name and v.name not in {x.name for x in inits}:
                    seen_init.add(it[2])
                    inits.append(v)
            elif it[0] == "node":
                nid = it[2]
                attrs = []
                groups = {}
                for cg in children.get(nid, []):
                    groups.setdefault((ginfo[cg][3], ginfo[cg][4]), []).append(cg)
                for (aname, kind), gids in groups.items():
                    if kind == "GRAPH":
                        attrs.append(ir.AttrGraph(aname, build_graph(gids[0])))
                    else:
                        attrs.append(ir.AttrGraphs(aname, [build_graph(x) for x in gids]))
                ins = [None if i is None else b.values.get(i) for i in it[5]]
                ins = [x for x, i in zip(ins, it[5]) if i is None or x is not None]
                outs = [b.values[vid] for vid, _ in it[6]]
                n = ir.Node("", it[4], ins, attrs, outputs=outs, name=it[3])
                if it[3] is None:
                    nodes_none.append(n)
                b.nodes[nid] = n
                nodes.append(n)
            elif it[0] == "out" and it[2] in b.values:
                outputs.append(b.values[it[2]])
        g = ir.Graph(inputs, outputs, nodes=nodes, initializers=inits, name=f"g{gid}")
        b.graphs[gid] = g
        return g

    tops = [gid for gid, info in ginfo.items() if info[2] is None]
    main = None
    for gid in tops:
        g = build_graph(gid)
        if ginfo[gid][4] == "main" and main is None:
            main = g
        else:
            b.functions.append(ir.Function("fdom", f"fn{gid}", graph=g, attributes=[]))
    if main is None:
        main = ir.Graph([], [], nodes=[], name="empty")
    # the graph constructor names what is unnamed; the workload wants missing names
    for vid in late_none:
        b.values[vid].name = None
    for n in nodes_none:
        n.name = None
    b.model = ir.Model(main, ir_version=10, functions=b.functions)
    return b


# =============================================================================================
# independent walk of a model (own traversal through public accessors)
# =============================================================================================
def subgraphs_of(node):
    out = []
    for attr in node.attributes.values():
        if isinstance(attr, ir.Attr) and not attr.is_ref():
            if attr.type == ir.AttributeType.GRAPH:
                out.append(attr.value)
            elif attr.type == ir.AttributeType.GRAPHS:
                out.extend(attr.value)
    return out


def _uniq(seq):
    seen, out = set(), []
    for x in seq:
        if id(x) not in seen:
            seen.add(id(x))
            out.append(x)
    return out


class Scope:
    """One graph of a tree: its own values, the values visible from it (conservative reading) and
    everything it merely references."""

    def __init__(self, graph, path, visible):
        self.graph = graph
        self.path = path
        self.visible = visible          # values of enclosing graphs visible from here
        self.own = _uniq(list(graph.inputs) + list(graph.initializers.values()) + [v for n in graph for v in n.outputs])
        refs = [v for n in graph for v in n.inputs if v is not None] + list(graph.outputs)
        self.referenced = _uniq(self.own + refs)
        self.nodes = list(graph)


def walk_tree(top_graph, path):
    """All scopes of the tree rooted at a top-level graph, outermost first."""
    out = []

    def rec(graph, path, visible):
        sc = Scope(graph, path, visible)
        out.append(sc)
        preceding = _uniq(list(graph.inputs) + list(graph.initializers.values()))
        for i, n in enumerate(graph):
            for j, sg in enumerate(subgraphs_of(n)):
                rec(sg, f"{path}/n{i}.g{j}", _uniq(visible + preceding))
            preceding = preceding + list(n.outputs)

    rec(top_graph, path, [])
    return out


def trees(model):
    out = [("main", walk_tree(model.graph, "main"))]
    for k, f in model.functions.items():
        out.append((f"func:{f.name}", walk_tree(f.graph, f"func:{f.name}")))
    return out


def role(v):
    if v.is_initializer():
        return "initializer"
    if v.is_graph_input():
        return "input"
    if v.producer() is not None:
        return "node-output"
    if v.is_graph_output():
        return "output-only"
    return "undefined"


def simplify_items(items, fails, max_tests=150):
    """After ddmin over whole items: drop single inputs / outputs of the remaining nodes while the
    predicate still holds (readability of the witness only)."""
    items = [list(it) for it in items]
    tests = 0
    for idx, it in enumerate(items):
        if it[0] != "node":
            continue
        for field in (5, 6):
            k = 0
            while k < len(items[idx][field]) and tests < max_tests:
                cand = [list(x) for x in items]
                cand[idx][field] = items[idx][field][:k] + items[idx][field][k + 1:]
                tests += 1
                if fails(cand):
                    items = cand
                else:
                    k += 1
    return items
