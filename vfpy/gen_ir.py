"""Structural IR model generator (public API only) for C03 and friends.

Models are *structural*: arbitrary op names, not executable.  Value names are unique over the
whole model (a name-based serialisation cannot tell two equally named values of one scope
apart; that is not the library's fault), node names may repeat or be missing.  Every graph is
lexically well scoped: a value is used only in its own graph or in graphs nested inside it.
"""

from __future__ import annotations

import numpy as np
import onnx
import onnx_ir as ir

DT = ir.DataType
TENSOR_DTYPES = [
    (np.float32, DT.FLOAT), (np.int64, DT.INT64), (np.int32, DT.INT32), (np.uint8, DT.UINT8), (np.int8, DT.INT8),
    (np.float16, DT.FLOAT16), (np.float64, DT.DOUBLE), (np.bool_, DT.BOOL), (np.uint16, DT.UINT16),
    (np.int16, DT.INT16), (np.uint32, DT.UINT32), (np.uint64, DT.UINT64), (np.complex64, DT.COMPLEX64),
]
VALUE_DTYPES = [DT.FLOAT, DT.INT64, DT.FLOAT16, DT.BOOL, DT.BFLOAT16, DT.INT4, DT.FLOAT8E4M3FN, DT.STRING, DT.UINT2
                if hasattr(DT, "UINT2") else DT.UINT8]
OPS = ["Add", "Mul", "Relu", "Custom", "If", "Loop", "Concat", "Split", "Cast", "MyOp"]
DOMAINS = ["", "", "", "custom.domain", "ai.onnx.ml"]
DENOTS = [None, None, "DATA_BATCH", "DATA_CHANNEL"]


class IRGen:
    def __init__(self, rng, *, max_depth=2, with_functions=True, with_meta=True, ir_versions=(8, 9, 10, 11, 13)):
        self.rng = rng
        self.max_depth = max_depth
        self.with_functions = with_functions
        self.with_meta = with_meta
        self.ir_versions = ir_versions
        self.counter = 0
        self.ir_version = rng.choice(list(ir_versions))  # overloads exist in the format from IR version 10 only
        self.features: set[str] = set()
        self.np_rng = np.random.default_rng(rng.randrange(2**32))

    # ---- small pieces -----------------------------------------------------------------------
    def fresh(self, prefix="v") -> str:
        self.counter += 1
        return f"{prefix}{self.counter}"

    def maybe(self, p) -> bool:
        return self.rng.random() < p

    def doc(self):
        return self.rng.choice([None, None, "doc", "a longer\ndoc string"])

    def mprops(self):
        if not self.with_meta or self.maybe(0.7):
            return None
        self.features.add("metadata_props")
        return {self.rng.choice(["k", "key2", "namespace"]): self.rng.choice(["v", "", "value 2"])
                for _ in range(self.rng.randint(1, 2))}

    def shape(self):
        r = self.rng.random()
        if r < 0.25:
            return None
        rank = self.rng.choice([0, 1, 2, 2, 3, 4])
        dims = []
        for _ in range(rank):
            k = self.rng.random()
            if k < 0.5:
                dims.append(self.rng.choice([0, 1, 2, 3, 7, 128]))
            elif k < 0.8:
                dims.append(self.rng.choice(["N", "batch", "seq_len", "N+1", "2*N"]))
                self.features.add("symbolic_dim")
            else:
                dims.append(None)
                self.features.add("unknown_dim")
        denots = None
        if rank and self.maybe(0.2):
            denots = [self.rng.choice(DENOTS) for _ in range(rank)]
            self.features.add("dim_denotation")
        return ir.Shape(dims, denotations=denots)

    def type_(self, depth=0):
        r = self.rng.random()
        den = "TENSOR" if self.maybe(0.1) else None
        if den:
            self.features.add("type_denotation")
        if r < 0.7 or depth >= 2:
            return ir.TensorType(self.rng.choice(VALUE_DTYPES), denotation=den)
        if r < 0.78:
            self.features.add("sparse_type")
            return ir.SparseTensorType(self.rng.choice([DT.FLOAT, DT.INT64]), denotation=den)
        if r < 0.9:
            self.features.add("sequence_type")
            return ir.SequenceType(self.type_(depth + 1), denotation=den)
        self.features.add("optional_type")
        return ir.OptionalType(self.type_(depth + 1), denotation=den)

    def tensor(self, name=None):
        r = self.rng.random()
        shape = self.rng.choice([(), (0,), (1,), (3,), (2, 3), (1, 2, 2)])
        if r < 0.55:
            npdt, _ = self.rng.choice(TENSOR_DTYPES)
            arr = (self.np_rng.integers(0, 5, size=shape)).astype(npdt)
            if arr.ndim >= 2 and self.maybe(0.35):
                # a Fortran-contiguous / transposed view (e.g. a transposed weight): same logical array
                arr = np.asfortranarray(arr) if self.maybe(0.5) else np.ascontiguousarray(arr.T).T
                self.features.add("fortran_order_tensor")
            return ir.tensor(arr, name=name)
        if r < 0.65:
            self.features.add("string_tensor")
            arr = np.array([b"ab", b"", b"\xff\x00c"][: max(1, int(np.prod(shape)) or 1)], dtype=object)
            return ir.StringTensor(arr, name=name, shape=ir.Shape([len(arr)]))
        if r < 0.8:
            self.features.add("proto_tensor")
            npdt, _ = self.rng.choice(TENSOR_DTYPES[:8])
            arr = (self.np_rng.integers(0, 5, size=shape)).astype(npdt)
            proto = onnx.numpy_helper.from_array(arr, name=name or "")
            if self.maybe(0.4) and arr.dtype in (np.float32,) and arr.size:
                proto = onnx.helper.make_tensor(name or "", onnx.TensorProto.FLOAT, arr.shape, arr.flatten().tolist())
            if self.maybe(0.3):
                proto.doc_string = "tensor doc"
            return ir.from_proto(proto)
        if r < 0.9:
            self.features.add("lazy_tensor")
            npdt, dt = self.rng.choice(TENSOR_DTYPES[:4])
            arr = (self.np_rng.integers(0, 5, size=shape)).astype(npdt)
            return ir.LazyTensor(lambda arr=arr: ir.tensor(arr), dtype=dt, shape=ir.Shape(arr.shape), name=name)
        self.features.add("lowbit_tensor")
        dt = self.rng.choice([DT.INT4, DT.UINT4, DT.FLOAT8E4M3FN, DT.BFLOAT16])
        n = self.rng.choice([1, 3, 4])
        arr = self.np_rng.integers(0, 3, size=(n,)).astype(dt.numpy())
        return ir.tensor(arr, dtype=dt, name=name)

    def value(self, name=None, *, typed=None) -> ir.Value:
        name = self.fresh() if name is None else name
        typed = self.maybe(0.7) if typed is None else typed
        ty = self.type_() if typed else None
        sh = self.shape() if typed else None   # a shape without a type cannot be serialised (report-only class elsewhere)
        return ir.Value(name=name, type=ty, shape=sh, doc_string=self.doc(), metadata_props=self.mprops())

    def annotate(self, v: ir.Value) -> None:
        if v.type is None and self.maybe(0.6):
            v.type = self.type_()
            if self.maybe(0.7):
                v.shape = self.shape()
        if self.maybe(0.25):
            v.doc_string = self.doc()
        if self.with_meta and self.maybe(0.2):
            v.metadata_props["vk"] = "vv"
            self.features.add("metadata_props")

    def attrs(self, visible, depth, in_function=False):
        out = []
        kinds = ["f", "i", "s", "t", "fs", "is", "ss", "ts", "tp", "tps"]
        for _ in range(self.rng.choice([0, 0, 1, 2, 3])):
            k = self.rng.choice(kinds)
            name = self.fresh("attr_")
            d = "attr doc" if self.maybe(0.15) else None
            if d:
                self.features.add("attr_doc")
            if in_function and self.maybe(0.25):
                self.features.add("ref_attr")
                out.append(ir.RefAttr(name, "fparam", ir.AttributeType.INT, doc_string=d))
            elif k == "f":
                out.append(ir.AttrFloat32(name, self.rng.choice([0.0, 1.5, -2.25, 1e10, float("inf")]), doc_string=d))
            elif k == "i":
                out.append(ir.AttrInt64(name, self.rng.choice([0, 1, -7, 2**40]), doc_string=d))
            elif k == "s":
                out.append(ir.AttrString(name, self.rng.choice(["", "str", "unicode é"]), doc_string=d))
            elif k == "t":
                out.append(ir.AttrTensor(name, self.tensor(self.rng.choice([None, "tname"])), doc_string=d))
            elif k == "fs":
                out.append(ir.AttrFloat32s(name, [0.5, -1.0][: self.rng.randint(0, 2)], doc_string=d))
            elif k == "is":
                out.append(ir.AttrInt64s(name, [1, 2, 3][: self.rng.randint(0, 3)], doc_string=d))
            elif k == "ss":
                out.append(ir.AttrStrings(name, ["a", ""][: self.rng.randint(0, 2)], doc_string=d))
            elif k == "ts":
                out.append(ir.AttrTensors(name, [self.tensor() for _ in range(self.rng.randint(0, 2))], doc_string=d))
            elif k == "tp":
                self.features.add("type_proto_attr")
                out.append(ir.AttrTypeProto(name, ir.TypeAndShape(self.type_(), self.shape()), doc_string=d))
            else:
                self.features.add("type_proto_attr")
                out.append(ir.AttrTypeProtos(name, [ir.TypeAndShape(self.type_(), self.shape())
                                                    for _ in range(self.rng.randint(0, 2))], doc_string=d))
        return out

    # ---- graphs -----------------------------------------------------------------------------
    def graph(self, depth, outer_visible, *, is_function_body=False, n_nodes=None) -> ir.Graph:
        rng = self.rng
        inputs = [self.value() for _ in range(rng.randint(0, 3))]
        inits = []
        if not is_function_body:
            for _ in range(rng.choice([0, 1, 2, 3])):
                name = self.fresh("w")
                t = self.tensor(name if self.maybe(0.5) else None)
                v = ir.Value(name=name, const_value=t, doc_string=self.doc(), metadata_props=self.mprops())
                if self.maybe(0.7):
                    den = "TENSOR" if self.maybe(0.25) else None
                    v.type = ir.TensorType(t.dtype, denotation=den)
                    if self.maybe(0.8):
                        dims = list(t.shape)
                        dd = [self.rng.choice(DENOTS) for _ in dims] if (dims and self.maybe(0.3)) else None
                        v.shape = ir.Shape(dims, denotations=dd)
                        if dd and any(dd):
                            self.features.add("initializer_dim_denotation")
                    if den:
                        self.features.add("initializer_type_denotation")
                inits.append(v)
            if inits and self.maybe(0.25):
                inputs.append(inits[0])  # an initializer that is also a graph input
                self.features.add("init_is_input")
        visible = list(outer_visible) + inputs + inits
        nodes = []
        n_nodes = rng.randint(0, 6) if n_nodes is None else n_nodes
        for _ in range(n_nodes):
            nodes.append(self.node(visible, depth, in_function=is_function_body))
            visible.extend(o for o in nodes[-1].outputs if o.name)
        own = inputs + inits + [o for n in nodes for o in n.outputs if o.name]
        outputs = [rng.choice(own) for _ in range(rng.randint(0, 3))] if own else []
        if outputs and self.maybe(0.15):
            outputs.append(outputs[0])  # duplicated graph output
            self.features.add("dup_output")
        order = list(nodes)
        if len(order) > 1 and self.maybe(0.3):
            rng.shuffle(order)
            self.features.add("unsorted_nodes")
        g = ir.Graph(inputs, outputs, nodes=order, initializers=inits, doc_string=self.doc(),
                     name=rng.choice([None, self.fresh("graph")]), metadata_props=self.mprops(),
                     opset_imports=None)
        return g

    def node(self, visible, depth, in_function=False) -> ir.Node:
        rng = self.rng
        nin = rng.randint(0, 3)
        inputs = []
        for _ in range(nin):
            if not visible or self.maybe(0.12):
                inputs.append(None)
                self.features.add("optional_input")
            else:
                inputs.append(rng.choice(visible))
        if inputs and inputs[-1] is None and self.maybe(0.5):
            inputs.pop()  # trailing empty inputs are legal but ambiguous to compare; keep some
        attrs = self.attrs(visible, depth, in_function)
        op = rng.choice(OPS)
        if depth < self.max_depth and self.maybe(0.22):
            self.features.add("subgraph")
            if self.maybe(0.7):
                attrs.append(ir.AttrGraph(self.fresh("body_"), self.graph(depth + 1, visible, n_nodes=rng.randint(0, 3))))
            else:
                attrs.append(ir.AttrGraphs(self.fresh("branches_"),
                                           [self.graph(depth + 1, visible, n_nodes=rng.randint(0, 2))
                                            for _ in range(rng.randint(0, 2))]))
        nout = rng.choice([0, 1, 1, 1, 2, 3])
        outs = []
        for j in range(nout):
            outs.append(self.value())
        if nout >= 2 and self.maybe(0.2):
            outs[-1] = ir.Value(name="")  # trailing empty-named optional output (unused by construction)
            self.features.add("empty_named_output")
        if nout >= 3 and self.maybe(0.2):
            outs[1] = ir.Value(name="")  # an omitted optional output in the middle
            self.features.add("empty_named_middle_output")
        dom = rng.choice(DOMAINS)
        overload = rng.choice(["", "", "ovl"]) if (dom == "custom.domain" and self.ir_version >= 10) else ""
        if overload:
            self.features.add("overload")
        n = ir.Node(dom, op, inputs, attrs, overload=overload, outputs=outs,
                    name=rng.choice([None, self.fresh("node"), "dupname"]), doc_string=self.doc(),
                    metadata_props=self.mprops(), version=rng.choice([None, None, 18]))
        return n

    def function(self) -> ir.Function:
        rng = self.rng
        g = self.graph(1, [], is_function_body=True, n_nodes=rng.randint(0, 4))
        g.opset_imports.update({"": rng.choice([17, 18]), **({"custom.domain": 1} if self.maybe(0.4) else {})})
        attrs = [ir.Attr("fparam", ir.AttributeType.INT, None if self.maybe(0.5) else 3)]
        if self.maybe(0.3):
            attrs.append(ir.AttrFloat32("fdefault", 0.5))
        self.features.add("function")
        return ir.Function("custom.domain", self.fresh("fn"), rng.choice(["", "ovl"]) if self.ir_version >= 10 else "",
                           graph=g, attributes=attrs)

    def model(self) -> ir.Model:
        rng = self.rng
        g = self.graph(0, [])
        g.opset_imports.update({"": rng.choice([13, 18, 21])})
        if self.maybe(0.4):
            g.opset_imports["custom.domain"] = 1
        funcs = []
        if self.with_functions and self.maybe(0.4):
            ids = set()
            for _ in range(rng.randint(1, 2)):
                f = self.function()
                if f.identifier() not in ids:
                    ids.add(f.identifier())
                    funcs.append(f)
        irv = self.ir_version
        m = ir.Model(g, ir_version=irv, producer_name=rng.choice([None, "vf"]),
                     producer_version=rng.choice([None, "1.0"]), domain=rng.choice([None, "dom"]),
                     model_version=rng.choice([None, 3]), doc_string=self.doc(), functions=funcs,
                     metadata_props=self.mprops())
        return m


def uniquify_names(model: ir.Model) -> int:
    """Harness-side renamer (not NameFixPass): give every value of the model a non-empty name that is
    unique over the whole model, except empty-named unused trailing outputs.  Returns #renames."""
    seen: set[str] = set()
    renamed = 0
    counter = [0]

    def fix(v: ir.Value, keep_empty=False):
        nonlocal renamed
        if v is None:
            return
        if id(v) in done:
            return
        done.add(id(v))
        if keep_empty and not v.name and not v.uses() and not v.is_graph_output() and v.producer() is not None \
                and not (v.is_graph_input() or v.is_initializer()):
            return  # an omitted optional output ("" or None) stays unnamed
        if not v.name or v.name in seen:
            while True:
                counter[0] += 1
                cand = f"u{counter[0]}"
                if cand not in seen and cand not in taken:
                    break
            v.name = cand
            renamed += 1
        seen.add(v.name)

    done: set[int] = set()
    graphs = [model.graph] + [f.graph for f in model.functions.values()]
    all_values = []
    stack = list(graphs)
    visited = set()
    while stack:
        g = stack.pop()
        if id(g) in visited:
            continue
        visited.add(id(g))
        all_values.extend(g.inputs)
        all_values.extend(g.initializers.values())
        all_values.extend(g.outputs)
        for n in g:
            all_values.extend(v for v in n.inputs if v is not None)
            all_values.extend(n.outputs)
            for a in n.attributes.values():
                if isinstance(a, ir.Attr) and not a.is_ref():
                    if a.type == ir.AttributeType.GRAPH:
                        stack.append(a.value)
                    elif a.type == ir.AttributeType.GRAPHS:
                        stack.extend(a.value)
    taken = {v.name for v in all_values if v.name}
    for v in all_values:
        fix(v, keep_empty=True)
    return renamed


def annotate_devices(model: ir.Model, rng) -> int:
    """IR >= 11: register device configurations and annotate random nodes of every graph (main graph,
    nested graphs, function bodies and graphs nested in them) through the public API.  Returns the
    number of annotations made."""
    if (model.ir_version or 0) < 11:
        return 0
    cfgs = []
    for i in range(rng.randint(1, 2)):
        names = tuple(f"dev{i}_{j}" for j in range(rng.randint(2, 4)))
        cfgs.append(model.add_device_configuration(f"cfg{i}", device_names=names if rng.random() < 0.7 else (),
                                                   num_devices=len(names)))
    graphs = [model.graph] + [f.graph for f in model.functions.values()]
    nodes, seen = [], set()
    while graphs:
        g = graphs.pop()
        if id(g) in seen:
            continue
        seen.add(id(g))
        for n in g:
            nodes.append(n)
            for a in n.attributes.values():
                if isinstance(a, ir.Attr) and not a.is_ref():
                    if a.type == ir.AttributeType.GRAPH:
                        graphs.append(a.value)
                    elif a.type == ir.AttributeType.GRAPHS:
                        graphs.extend(a.value)
    made = 0
    for n in nodes:
        if rng.random() > 0.4:
            continue
        cfg = rng.choice(cfgs)
        cands = [v for v in list(n.inputs) + list(n.outputs) if v is not None and v.name]
        try:
            if cands and rng.random() < 0.8:
                v = rng.choice(cands)
                rank = len(v.shape) if v.shape is not None else None
                axis = rng.randrange(rank) if rank else 0
                if rank == 0:
                    continue
                n.shard(v, configuration=cfg, axis=axis, num_shards=rng.choice([1, 2]),
                        device_indices=[0, 1][: rng.randint(0, 2)],
                        pipeline_stage=rng.choice([None, 0, 1]))
            else:
                n.set_pipeline_stage(cfg, rng.randint(0, 3))
            made += 1
        except ValueError:
            pass
    return made
