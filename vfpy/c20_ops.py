"""C20 helper: the C01 alphabet (vfpy.world / vfpy.gen_ops, unchanged) extended with the calls the
journaling wrappers instrument but the shared alphabet never makes: tensor / attribute / model
construction, the Node domain/version/overload and Function name/domain/overload setters,
Value.merge_shapes, direct ``attributes[key] = attr``, keyword-argument call forms, Graph.clone,
and the journal markers ``J_enter`` / ``J_exit`` (plus ``J_hook`` / ``J_hook_clear`` / ``J_fault``, which
configure the journals through their hook API) that are interleaved in a history (so that any
sub-list of a history is still a well-formed, replayable plan).

Nothing here decides a verdict; it only widens the workload.
"""

from __future__ import annotations

import atexit
import hashlib
import logging
import os
import random
import shutil
import tempfile
import weakref

import numpy as np
import onnx
import onnx.numpy_helper
import onnx_ir as ir
import onnx_ir.tensor_adapters  # noqa: F401 - TorchTensor

try:  # imported here, before the shard freezes the start-up heap (gc.freeze): a later import would put
    import torch  # torch's objects into every gc.collect() of the liveness monitor
except ImportError:  # pragma: no cover
    torch = None

from vfpy import gen_proto
from vfpy.gen_ops import Gen
from vfpy.world import OPS, PickyTensor, Result, Skip, World

# "Input 'x' of node ... cannot be found in any scope" for stand-alone node / graph messages: output only
logging.getLogger("onnx_ir.serde").setLevel(logging.ERROR)

XOPS: dict = {}
MARKERS = {"J_enter", "J_exit", "J_hook", "J_hook_clear", "J_fault", "J_inspect"}
HOOK_KINDS = ["observe", "observe", "observe", "fault", "fault", "touch"]


def xop(name):
    def deco(fn):
        XOPS[name] = fn
        return fn
    return deco


class World20(World):
    """World + pools of tensors and attributes built by the history + a counter of lazy-tensor
    evaluations (a journal that evaluates a lazy tensor interferes)."""

    def __init__(self) -> None:
        super().__init__()
        self.xtensors: list = []
        self.attrs: list = []
        self.lazy_evals = 0
        self.cyclic = False
        self._scratch = None
        self.saves = 0

    @property
    def scratch(self) -> str:
        """A directory of this world's own (so that the files an earlier run left cannot be seen by this
        one); removed with the world.  Its path is not state: ``norm`` replaces it in messages."""
        if self._scratch is None:
            self._scratch = tempfile.mkdtemp(prefix="w-", dir=scratch_root())
            weakref.finalize(self, shutil.rmtree, self._scratch, True)
        return self._scratch

    def norm(self, text: str) -> str:
        return text.replace(self._scratch, "<scratch>") if self._scratch else text

    def M(self, i):  # noqa: N802
        return self._pick(self.models, i)

    def X(self, i):  # noqa: N802
        return self._pick(self.xtensors, i)

    def A(self, i):  # noqa: N802
        return self._pick(self.attrs, i)

    def F(self, i):  # noqa: N802
        return self._pick(self.functions, i)

    def has_attribute_cycle(self) -> bool:
        """A graph that is reachable from the attributes of its own nodes (public accessors only)."""
        edges = {}
        for g in self.graphs:
            subs = []
            try:
                for n in g:
                    for a in n.attributes.values():
                        if isinstance(a, ir.Attr) and not a.is_ref():
                            if a.type == ir.AttributeType.GRAPH:
                                subs.append(a.value)
                            elif a.type == ir.AttributeType.GRAPHS:
                                subs.extend(a.value)
            except Exception:  # noqa: BLE001
                pass
            edges[id(g)] = subs
        state = {}

        def visit(g):
            k = id(g)
            if state.get(k) == 1:
                return True
            if state.get(k) == 2:
                return False
            state[k] = 1
            for s in edges.get(k, ()):
                if visit(s):
                    return True
            state[k] = 2
            return False
        return any(visit(g) for g in self.graphs)

    def apply(self, op: list) -> Result:
        if self.cyclic:
            # repr() of a graph that contains itself recurses without bound, and the journal's
            # detail strings call repr(): such IR is out of scope, the history ends here in every run
            return Result(skipped=True)
        res = self._apply(op)
        if not res.skipped and self.has_attribute_cycle():
            self.cyclic = True
        return res

    def _apply(self, op: list) -> Result:
        fn = XOPS.get(op[0]) or OPS[op[0]]
        try:
            thunk = fn(self, *op[1:])
        except Skip:
            return Result(skipped=True)
        try:
            res = Result(ret=thunk())
        except Exception as e:  # noqa: BLE001 - any exception is a 'rejected call'
            res = Result(exc=e)
        self.discover()
        return res

    def extra_state(self) -> dict:
        """Observables of the extension pools (cross-world comparable)."""
        return {
            "lazy_evals": self.lazy_evals,
            "cyclic": self.cyclic,
            "xtensors": tuple((type(t).__name__, t.name, str(t.dtype), tuple(t.shape)) for t in self.xtensors),
            "attrs": tuple((a.name, str(a.type), a.ref_attr_name, a.doc_string) for a in self.attrs),
            "pools": (len(self.values), len(self.nodes), len(self.graphs), len(self.functions), len(self.models)),
        }


_SCRATCH_ROOT = None


def scratch_root() -> str:
    global _SCRATCH_ROOT
    if _SCRATCH_ROOT is None:
        d = os.environ.get("VF_SHARD_TMP")
        if not d:  # a replay outside the runner
            d = tempfile.mkdtemp(prefix="vf-c20-")
            atexit.register(shutil.rmtree, d, True)
        _SCRATCH_ROOT = d
    return _SCRATCH_ROOT


# ---- setters the shared alphabet does not reach ---------------------------------------------------
def _setter(pool, attr):
    def make(w, i, value):
        obj = getattr(w, pool)(i)

        def run():
            setattr(obj, attr, value)
        return run
    return make


XOPS["n_domain"] = _setter("N", "domain")
XOPS["n_version"] = _setter("N", "version")
XOPS["n_overload"] = _setter("N", "overload")
XOPS["f_name"] = _setter("F", "name")
XOPS["f_domain"] = _setter("F", "domain")
XOPS["f_overload"] = _setter("F", "overload")

SHAPES = [None, [2, "N"], [2, 3], [3, 3], ["M", None], [2], [None, 3]]


@xop("v_merge")
def _v_merge(w, v, s):
    val = w.V(v)
    dims = SHAPES[s % len(SHAPES)]
    shape = None if dims is None else ir.Shape(dims)
    return lambda: val.merge_shapes(shape)


@xop("model")
def _model(w, g, nf):
    graph = w.G(g)
    funcs = list(w.functions[:nf])

    def run():
        m = ir.Model(graph, ir_version=10, producer_name="vf", functions=funcs)
        w.models.append(m)
        return f"m{len(w.models) - 1}"
    return run


@xop("g_clone")
def _g_clone(w, g):
    graph = w.G(g)

    def run():
        c = graph.clone()
        w.add_graph(c)
        return w.label(c)
    return run


# ---- tensors ----------------------------------------------------------------------------------------
TENSOR_KINDS = ["tensor_fn", "Tensor", "String", "Lazy", "LazyCached", "External", "Packed", "tensor_list", "bad",
                # every other tensor class of the library and every other public way to one
                "ProtoTensor", "deser_tensor", "from_proto_tensor", "tensor_of_proto", "ExternalReal", "Torch", "Picky",
                "tensor_strs", "ProtoTensorStr"]


def _small_tensor_proto(k: int, name: str, strings: bool = False) -> onnx.TensorProto:
    if strings:
        return onnx.numpy_helper.from_array(np.array([b"a", b"bc", b""][: k % 3 + 1], dtype=object), name=name)
    return onnx.numpy_helper.from_array(np.arange(k + 1, dtype=np.float32), name=name)


@xop("tensor")
def _tensor(w, kind, k):
    name = f"x{k}"

    def run():
        if kind == "tensor_fn":
            t = ir.tensor(np.arange(k + 1, dtype=np.float32), name=name)
        elif kind == "Tensor":
            t = ir.Tensor(np.ones((k % 3 + 1, 2), dtype=np.int64), name=name, doc_string="d", metadata_props={"k": "v"})
        elif kind == "String":
            t = ir.StringTensor(np.array([b"a", b"bc"][: k % 2 + 1]), name=name)
        elif kind in ("Lazy", "LazyCached"):
            inner = ir.Tensor(np.zeros(3, dtype=np.float32), name="inner")

            def fn():
                w.lazy_evals += 1
                return inner
            t = ir.LazyTensor(fn, dtype=ir.DataType.FLOAT, shape=ir.Shape([3]), cache=(kind == "LazyCached"), name=name)
        elif kind == "External":
            t = ir.ExternalTensor("nofile.bin", 0, 12, ir.DataType.FLOAT, shape=ir.Shape([3]), name=name,
                                  base_dir="/nonexistent-vf-c20")
        elif kind == "Packed":
            t = ir.PackedTensor(np.zeros(2, dtype=np.uint8), ir.DataType.INT4, shape=[4], name=name)
        elif kind == "tensor_list":
            t = ir.tensor([1, 2, k], dtype=ir.DataType.INT32, name=name)
        elif kind == "ProtoTensor":  # the proto-backed tensor class, constructed directly
            t = ir.TensorProtoTensor(_small_tensor_proto(k, name))
        elif kind == "ProtoTensorStr":
            t = ir.TensorProtoTensor(_small_tensor_proto(k, name, strings=True))
        elif kind == "deser_tensor":
            t = ir.serde.deserialize_tensor(_small_tensor_proto(k, name, strings=(k == 3)))
        elif kind == "from_proto_tensor":
            t = ir.from_proto(_small_tensor_proto(k, name))
        elif kind == "tensor_of_proto":
            t = ir.tensor(_small_tensor_proto(k, name), name=name)
        elif kind == "ExternalReal":  # an external tensor whose file exists
            path = os.path.join(w.scratch, f"real{k}.bin")
            with open(path, "wb") as f:
                f.write(np.arange(3, dtype=np.float32).tobytes())
            t = ir.ExternalTensor(f"real{k}.bin", 0, 12, ir.DataType.FLOAT, shape=ir.Shape([3]), name=name,
                                  base_dir=w.scratch)
        elif kind == "Torch" and torch is not None:
            t = ir.tensor_adapters.TorchTensor(torch.arange(k + 1, dtype=torch.float32), name=name)
        elif kind == "Picky":  # a user-defined tensor class
            t = PickyTensor(np.arange(2, dtype=np.float32), name=name)
        elif kind == "tensor_strs":
            t = ir.tensor(["a", "bc"][: k % 2 + 1], name=name)
        else:  # a constructor call that is rejected
            t = ir.Tensor(np.zeros(3, dtype=np.float32), dtype=ir.DataType.INT64, name=name)
        w.xtensors.append(t)
        return f"{type(t).__name__}#{len(w.xtensors) - 1}"
    return run


def _sha(b: bytes) -> str:
    return hashlib.sha1(b).hexdigest()[:12]


@xop("x_read")
def _x_read(w, t, how):
    """Read a tensor of the pool (a lazy tensor is evaluated by the *client*, inside or outside a journal)."""
    ten = w.X(t)

    def run():
        if how == "numpy":
            a = ten.numpy()
            return f"{a.dtype}:{a.shape}:{_sha(a.tobytes())}"
        if how == "tobytes":
            return _sha(ten.tobytes())
        return f"{ten.dtype}:{tuple(ten.shape)}:{ten.size}:{ten.nbytes}"
    return run


# ---- deserialisation: the other way IR objects (and the proto-backed tensors) come into being -------------
FORCE = [(), ("initializers", "attr_tensor"), ("initializers", "external", "string_tensor", "attr_tensors"),
         ("functions", "attr_graph", "captures", "initializers"), ("initializers", "typed_storage", "tensor_meta", "lowbit")]
_PROTO_CACHE: dict = {}


def _proto(kind: str, seed: int, force: int):
    """A fresh, well-formed message of ``kind`` (built field by field by vfpy.gen_proto, no onnx_ir involved);
    a function of the arguments only."""
    key = (kind, seed, force)
    b = _PROTO_CACHE.get(key)
    if b is None:
        g = gen_proto.ProtoGen(random.Random(seed * 7 + force), force=FORCE[force % len(FORCE)])
        b = g.build(kind).SerializeToString()
        if len(_PROTO_CACHE) > 256:
            _PROTO_CACHE.clear()
        _PROTO_CACHE[key] = b
    return getattr(onnx, kind).FromString(b)


SERDE_FN = {
    "ModelProto": lambda p: ir.serde.deserialize_model(p),
    "GraphProto": lambda p: ir.serde.deserialize_graph(p),
    "FunctionProto": lambda p: ir.serde.deserialize_function(p),
    "NodeProto": lambda p: ir.serde.deserialize_node(p),
    "TensorProto": lambda p: ir.serde.deserialize_tensor(p),
    "AttributeProto": lambda p: ir.serde.deserialize_attribute(p),
    "ValueInfoProto": lambda p: ir.serde.deserialize_value_info_proto(p, None),
    "TypeProto": lambda p: (ir.serde.deserialize_type_proto_for_type(p), ir.serde.deserialize_type_proto_for_shape(p)),
}
DESER_ENTRIES = {k: ["from_proto", "serde"] for k in gen_proto.KINDS}
DESER_ENTRIES["ModelProto"] += ["load", "load"]
DESER_ENTRIES["TensorProto"] += ["TensorProtoTensor", "tensor()"]


def _digest(w, obj) -> str:
    """What a client can see of a deserialised object, cross-world comparable: its serialisation."""
    if isinstance(obj, (ir.Model, ir.Graph, ir.Function, ir.Node, ir.Value, ir.Attr)) or isinstance(obj, ir.TensorProtocol):
        try:
            return f"{type(obj).__name__}:{_sha(ir.to_proto(obj).SerializeToString(deterministic=True))}"
        except Exception as e:  # noqa: BLE001 - e.g. an external tensor without its file
            return f"{type(obj).__name__}:<to_proto raised {type(e).__name__}>"
    return w.norm(repr(obj))[:300]


def _adopt(w, obj) -> str:
    """Put a deserialised object into the pools: the rest of the history edits it like any other."""
    if isinstance(obj, ir.Model):
        w.adopt_model(obj)
        return f"m{len(w.models) - 1}"
    if isinstance(obj, ir.Function):
        w.add_function(obj)
        w.add_graph(obj.graph)
    elif isinstance(obj, ir.Graph):
        w.add_graph(obj)
    elif isinstance(obj, ir.Node):
        w.add_node(obj)
    elif isinstance(obj, ir.Value):
        w.add_value(obj)
    elif isinstance(obj, ir.Attr):
        w.attrs.append(obj)
        return f"attr#{len(w.attrs) - 1}"
    elif isinstance(obj, ir.TensorProtocol):
        w.xtensors.append(obj)
        return f"x#{len(w.xtensors) - 1}"
    else:
        return "-"
    return w.label(obj)


@xop("deser")
def _deser(w, kind, seed, force, entry, adopt):
    def run():
        proto = _proto(kind, seed, force)
        if entry == "from_proto":
            obj = ir.from_proto(proto)
        elif entry == "serde":
            obj = SERDE_FN[kind](proto)
        elif entry == "TensorProtoTensor":
            obj = ir.TensorProtoTensor(proto)
        elif entry == "tensor()":
            obj = ir.tensor(proto)
        else:  # "load": through a file
            path = os.path.join(w.scratch, f"gen-{seed}-{force}.onnx")
            with open(path, "wb") as f:
                f.write(proto.SerializeToString())
            obj = ir.load(path)
        d = _digest(w, obj)
        return d + "|" + (_adopt(w, obj) if adopt else "dropped")
    return run


@xop("ser_rt")
def _ser_rt(w, what, i, adopt):
    """Serialise an object of the world and deserialise the message again (a copy made of proto-backed parts)."""
    obj = {"g": w.G, "m": w.M, "f": w.F, "n": w.N, "v": w.V, "x": w.X, "a": w.A}[what](i)

    def run():
        back = ir.from_proto(ir.to_proto(obj))
        return _digest(w, back) + "|" + (_adopt(w, back) if adopt else "dropped")
    return run


@xop("save_load")
def _save_load(w, m, ext, adopt):
    """ir.save (optionally moving every tensor into an external data file) and ir.load of the file."""
    model = w.M(m)

    def run():
        w.saves += 1
        d = os.path.join(w.scratch, f"sl{w.saves}")
        os.makedirs(d)
        path = os.path.join(d, "m.onnx")
        if ext:
            ir.save(model, path, external_data="m.data", size_threshold_bytes=0)
        else:
            ir.save(model, path)
        back = ir.load(path)
        return _digest(w, back) + "|" + (_adopt(w, back) if adopt else "dropped")
    return run


@xop("v_const_x")
def _v_const_x(w, v, t):
    val, ten = w.V(v), w.X(t)

    def run():
        val.const_value = ten
    return run


@xop("val_x")
def _val_x(w, name, t, tmode):
    ten = None if t is None else w.X(t)

    def run():
        v = ir.val(name, ir.DataType.FLOAT if tmode else None, [3] if tmode == 2 else None, const_value=ten)
        w.add_value(v)
        return w.label(v)
    return run


# ---- attributes -------------------------------------------------------------------------------------
ATTR_KINDS = ["f32", "i64", "i64s", "f32s", "str", "strs", "tensor", "tensors", "graph", "graphs", "ref", "Attr", "doc", "bad"]


@xop("attr")
def _attr(w, kind, key, i):
    ten = w.X(i) if kind in ("tensor", "tensors") else None
    gr = w.G(i) if kind in ("graph", "graphs") else None

    def run():
        if kind == "f32":
            a = ir.AttrFloat32(key, 0.5 * i)
        elif kind == "i64":
            a = ir.AttrInt64(key, i)
        elif kind == "i64s":
            a = ir.AttrInt64s(key, [i, i + 1])
        elif kind == "f32s":
            a = ir.AttrFloat32s(key, [1.0, float(i)])
        elif kind == "str":
            a = ir.AttrString(key, f"s{i}")
        elif kind == "strs":
            a = ir.AttrStrings(key, ["a", f"s{i}"])
        elif kind == "tensor":
            a = ir.AttrTensor(key, ten)
        elif kind == "tensors":
            a = ir.AttrTensors(key, [ten, ten])
        elif kind == "graph":
            a = ir.AttrGraph(key, gr)
        elif kind == "graphs":
            a = ir.AttrGraphs(key, [gr])
        elif kind == "ref":
            a = ir.RefAttr(key, "outer_" + key, ir.AttributeType.INT)
        elif kind == "Attr":
            a = ir.Attr(key, ir.AttributeType.INT, i)
        elif kind == "doc":
            a = ir.Attr(key, ir.AttributeType.STRING, "v", doc_string="doc")
        else:  # rejected: missing argument
            a = ir.Attr(key)  # type: ignore[call-arg]
        w.attrs.append(a)
        return f"attr#{len(w.attrs) - 1}:{a.name}:{a.type}"
    return run


@xop("attr_setitem")
def _attr_setitem(w, n, keymode, a):
    node, attr = w.N(n), w.A(a)
    key = attr.name if keymode == 0 else ("other" if keymode == 1 else 7)

    def run():
        node.attributes[key] = attr
    return run


@xop("attr_add_x")
def _attr_add_x(w, n, a):
    node, attr = w.N(n), w.A(a)
    return lambda: node.attributes.add(attr)


@xop("attr_update")
def _attr_update(w, n, idxs):
    node = w.N(n)
    attrs = [w.A(i) for i in idxs]
    return lambda: node.attributes.update({a.name: a for a in attrs})


@xop("f_attr_setitem")
def _f_attr_setitem(w, f, a):
    func, attr = w.F(f), w.A(a)

    def run():
        func.attributes[attr.name] = attr
    return run


@xop("node_x")
def _node_x(w, op_type, ins, num_outputs, cont, with_attrs):
    inputs = [w.V(i) for i in ins]
    c = w.C(cont) if cont is not None else None
    if isinstance(c, ir.Function):
        c = c.graph
    attrs = {"k": 1, "s": "x", "fl": [1.0, 2.0], "il": [1, 2]} if with_attrs else None

    def run():
        n = ir.node(op_type, inputs, attrs, num_outputs=num_outputs, graph=c, name=None)
        w.add_node(n)
        return w.label(n)
    return run


@xop("node_attrs")
def _node_attrs(w, op_type, ins, idxs, version):
    """Node(...) with several attributes: Attributes.__init__ goes through __setitem__."""
    inputs = [w.V(i) for i in ins]
    attrs = [w.A(i) for i in idxs]

    def run():
        n = ir.Node("custom.domain", op_type, inputs, attrs, version=version, overload="o", doc_string="doc")
        w.add_node(n)
        return w.label(n)
    return run


@xop("func_x")
def _func_x(w, g, name, idxs):
    graph = w.G(g)
    if any(f.graph is graph for f in w.functions):
        raise Skip()
    attrs = [w.A(i) for i in idxs]

    def run():
        f = ir.Function("dom", name, "ov", graph=graph, attributes=attrs)
        w.add_function(f)
        return w.label(f)
    return run


# ---- keyword-argument call forms (the wrappers' detail lambdas re-declare each signature) -----------
def _io(w, c, which):
    cont = w.C(c)
    return cont.inputs if which == "inputs" else cont.outputs


@xop("kw_io_append")
def _kw_io_append(w, c, which, v):
    lst, val = _io(w, c, which), w.V(v)
    return lambda: lst.append(item=val)


@xop("kw_io_insert")
def _kw_io_insert(w, c, which, i, v):
    lst, val = _io(w, c, which), w.V(v)
    return lambda: lst.insert(i=i, item=val)


@xop("kw_io_pop")
def _kw_io_pop(w, c, which, i):
    lst = _io(w, c, which)
    return lambda: w.label(lst.pop(i=i))


@xop("kw_io_remove")
def _kw_io_remove(w, c, which, v):
    lst, val = _io(w, c, which), w.V(v)
    return lambda: lst.remove(item=val)


@xop("kw_io_extend")
def _kw_io_extend(w, c, which, vs):
    lst, vals = _io(w, c, which), w.Vs(vs)
    return lambda: lst.extend(other=(v for v in vals))  # a generator: must not be consumed by the journal


@xop("kw_reg")
def _kw_reg(w, g, v):
    graph, val = w.G(g), w.V(v)
    return lambda: graph.register_initializer(value=val)


@xop("kw_prepend")
def _kw_prepend(w, n, ns):
    node, nodes = w.N(n), w.Ns(ns)
    return lambda: node.prepend(nodes=nodes)


@xop("kw_n_append")
def _kw_n_append(w, n, ns):
    node, nodes = w.N(n), w.Ns(ns)
    return lambda: node.append(nodes=iter(nodes))


@xop("gen_extend")
def _gen_extend(w, c, ns):
    cont, nodes = w.C(c), w.Ns(ns)
    return lambda: cont.extend(n for n in nodes)  # generator argument


@xop("kw_in_set")
def _kw_in_set(w, g, v):
    graph, val = w.G(g), w.V(v)
    k = val.name if val.name is not None else "k"
    return lambda: graph.initializers.__setitem__(key=k, value=val)


@xop("kw_rauw")
def _kw_rauw(w, v, v2):
    a, b = w.V(v), w.V(v2)
    return lambda: a.replace_all_uses_with(b)  # default replace_graph_outputs


# ---- every other legal binding of the optional / keyword-capable parameters of instrumented calls ------
@xop("pos_rauw")
def _pos_rauw(w, v, v2, rgo):
    a, b = w.V(v), w.V(v2)
    return lambda: a.replace_all_uses_with(b, rgo)  # the flag passed positionally


@xop("pos_remove")
def _pos_remove(w, c, ns, safe):
    cont, nodes = w.C(c), w.Ns(ns)
    return lambda: cont.remove(nodes, safe)  # `safe` passed positionally


@xop("kw_io_set")
def _kw_io_set(w, c, which, i, v):
    lst, val = _io(w, c, which), w.V(v)
    return lambda: lst.__setitem__(i=i, item=val)


@xop("kw_in_del")
def _kw_in_del(w, g, key):
    graph = w.G(g)
    return lambda: graph.initializers.__delitem__(key=key)


@xop("kw_attr_setitem")
def _kw_attr_setitem(w, n, a):
    node, attr = w.N(n), w.A(a)
    return lambda: node.attributes.__setitem__(key=attr.name, value=attr)


@xop("pos_val")
def _pos_val(w, name):
    def run():
        v = ir.Value(None, name=name)  # `producer` passed positionally
        w.add_value(v)
        return w.label(v)
    return run


@xop("kw_attr")
def _kw_attr(w, key, i, ref):
    def run():
        if ref:
            a = ir.Attr(key, ir.AttributeType.INT, None, "outer_" + key)  # ref_attr_name passed positionally
        else:
            a = ir.Attr(name=key, type=ir.AttributeType.INT, value=i, ref_attr_name=None)
        w.attrs.append(a)
        return f"attr#{len(w.attrs) - 1}:{a.name}:{a.type}"
    return run


@xop("kw_func")
def _kw_func(w, g, name):
    graph = w.G(g)
    if any(f.graph is graph for f in w.functions):
        raise Skip()

    def run():
        f = ir.Function(domain="dom", name=name, overload="kw", graph=graph, attributes=[])
        w.add_function(f)
        return w.label(f)
    return run


# ---- markers are no-ops for a world (the journaled executor interprets them) ------------------------
@xop("J_enter")
def _j_enter(w, *a):
    raise Skip()


@xop("J_exit")
def _j_exit(w, *a):
    raise Skip()


@xop("J_hook")
def _j_hook(w, *a):
    raise Skip()


@xop("J_hook_clear")
def _j_hook_clear(w, *a):
    raise Skip()


@xop("J_fault")
def _j_fault(w, *a):
    raise Skip()


@xop("J_inspect")
def _j_inspect(w, *a):
    raise Skip()


# =============================================================================================
# generator
# =============================================================================================
XWEIGHTS = {
    "n_domain": 1, "n_version": 1, "n_overload": 1, "f_name": 2, "f_domain": 2, "f_overload": 2, "v_merge": 2,
    "model": 0.7, "g_clone": 0.2, "tensor": 3, "v_const_x": 2, "val_x": 1, "attr": 3.5, "attr_setitem": 2,
    "attr_add_x": 1.5, "attr_update": 1, "f_attr_setitem": 0.8, "node_x": 1.5, "node_attrs": 1.2, "func_x": 0.8,
    "kw_io_append": 0.6, "kw_io_insert": 0.5, "kw_io_pop": 0.5, "kw_io_remove": 0.5, "kw_io_extend": 0.5, "kw_reg": 0.5,
    "kw_prepend": 0.5, "kw_n_append": 0.5, "gen_extend": 0.6, "kw_in_set": 0.5, "kw_rauw": 0.5,
    "pos_rauw": 0.8, "pos_remove": 0.8, "kw_io_set": 0.5, "kw_in_del": 0.4, "kw_attr_setitem": 0.5, "pos_val": 0.4,
    "kw_attr": 0.6, "kw_func": 0.3,
    "deser": 3.0, "ser_rt": 1.0, "save_load": 0.5, "x_read": 1.0,
}


class Gen20:
    """Draws from the shared generator and, with probability ``p_ext``, from the extension table.
    ``node_in_graph=False`` rewrites ``Node(..., graph=c)`` into ``Node(...)`` followed by
    ``c.append(node)`` (same resulting state through two public calls)."""

    def __init__(self, rng, w: World20, hostile: float, p_ext: float, node_in_graph: bool, collaborators: bool = False):
        self.rng, self.w, self.p_ext, self.node_in_graph = rng, w, p_ext, node_in_graph
        # collaborators: values may be backed by the proto-backed tensor / a user tensor class that can
        # reject a name, and renames may use a name no protobuf string field accepts
        self.g = Gen(rng, w, hostile, weights={"n_op": 1.5, "func": 1.2}, avoid={"owned_node_outputs"},
                     collaborators=collaborators)
        self.queue: list = []
        self._names = list(XWEIGHTS)
        self._wts = [XWEIGHTS[n] for n in self._names]

    def op(self) -> list:
        if self.queue:
            return self.queue.pop(0)
        w, rng = self.w, self.rng
        if len(w.values) >= 3 and w.graphs and len(w.nodes) >= 2 and rng.random() < self.p_ext:
            op = getattr(self, "_" + rng.choices(self._names, self._wts)[0])()
        else:
            op = self.g.op()
        if not self.node_in_graph:
            if op[0] == "node" and op[5] is not None:
                self.queue.append(["append", op[5], len(w.nodes)])
                op = op[:5] + [None] + op[6:]
            elif op[0] == "node_x" and op[4] is not None:
                self.queue.append(["append", op[4], len(w.nodes)])
                op = op[:4] + [None] + op[5:]
        return op

    # -- extension draws
    def _s(self):
        return self.rng.choice(["", "ai.onnx", "d", "custom"])

    def _n_domain(self):
        return ["n_domain", self.g.any_n(), self._s()]

    def _n_version(self):
        return ["n_version", self.g.any_n(), self.rng.choice([None, 1, 18])]

    def _n_overload(self):
        return ["n_overload", self.g.any_n(), self.rng.choice(["", "o1"])]

    def _f(self):
        return self.rng.randrange(max(1, len(self.w.functions)))

    def _f_name(self):
        return ["f_name", self._f(), self.rng.choice(["f", "fn2"])]

    def _f_domain(self):
        return ["f_domain", self._f(), self._s()]

    def _f_overload(self):
        return ["f_overload", self._f(), self.rng.choice(["", "o1"])]

    def _v_merge(self):
        return ["v_merge", self.g.any_v(), self.rng.randrange(len(SHAPES))]

    def _model(self):
        return ["model", self.g.any_g(), self.rng.randint(0, 2)]

    def _g_clone(self):
        return ["g_clone", self.g.any_g()]

    def _tensor(self):
        return ["tensor", self.rng.choice(TENSOR_KINDS), self.rng.randrange(4)]

    def _x(self):
        return self.rng.randrange(max(1, len(self.w.xtensors)))

    def _x_read(self):
        if not self.w.xtensors:
            return self._tensor()
        return ["x_read", self._x(), self.rng.choice(["numpy", "tobytes", "meta"])]

    def _deser(self):
        rng = self.rng
        kind = rng.choice(["ModelProto", "ModelProto", "ModelProto", "GraphProto", "FunctionProto", "NodeProto",
                           "TensorProto", "TensorProto", "AttributeProto", "ValueInfoProto", "TypeProto"])
        return ["deser", kind, rng.randrange(100000), rng.randrange(len(FORCE)), rng.choice(DESER_ENTRIES[kind]),
                rng.random() < 0.6]

    def _ser_rt(self):
        rng, w = self.rng, self.w
        what = rng.choice([k for k, pool in (("g", w.graphs), ("m", w.models), ("f", w.functions), ("n", w.nodes),
                                             ("v", w.values), ("x", w.xtensors), ("a", w.attrs)) if pool] or ["g"])
        return ["ser_rt", what, rng.randrange(64), rng.random() < 0.5]

    def _save_load(self):
        if not self.w.models:
            return self._deser() if self.rng.random() < 0.5 else self._model()
        return ["save_load", self.rng.randrange(max(1, len(self.w.models))), self.rng.random() < 0.6,
                self.rng.random() < 0.5]

    def _a(self):
        return self.rng.randrange(max(1, len(self.w.attrs)))

    def _v_const_x(self):
        if not self.w.xtensors:
            return self._tensor()
        return ["v_const_x", self.g.any_v(), self._x()]

    def _val_x(self):
        return ["val_x", self.g.name(), self._x() if self.w.xtensors and self.rng.random() < 0.6 else None,
                self.rng.randrange(3)]

    def _attr(self):
        kind = self.rng.choice(ATTR_KINDS)
        if kind in ("tensor", "tensors") and not self.w.xtensors:
            return self._tensor()
        return ["attr", kind, self.rng.choice(["axis", "k", "body", "t"]), self.rng.randrange(5)]

    def _attr_setitem(self):
        if not self.w.attrs:
            return self._attr()
        return ["attr_setitem", self.g.any_n(), 0 if not self.g.h() else self.rng.randrange(3), self._a()]

    def _attr_add_x(self):
        if not self.w.attrs:
            return self._attr()
        return ["attr_add_x", self.g.any_n(), self._a()]

    def _attr_update(self):
        if not self.w.attrs:
            return self._attr()
        return ["attr_update", self.g.any_n(), [self._a() for _ in range(self.rng.randint(1, 3))]]

    def _f_attr_setitem(self):
        if not self.w.attrs:
            return self._attr()
        return ["f_attr_setitem", self._f(), self._a()]

    def _ins(self):
        return [self.g.any_v() for _ in range(self.rng.randint(0, 3))]

    def _node_x(self):
        cont = self.g.any_c() if self.rng.random() < 0.4 else None
        return ["node_x", self.rng.choice(["Add", "Relu", "Custom"]), self._ins(), self.rng.choice([None, 1, 2]), cont,
                self.rng.random() < 0.6]

    def _node_attrs(self):
        if not self.w.attrs:
            return self._attr()
        return ["node_attrs", self.rng.choice(["Add", "Custom"]), self._ins(),
                [self._a() for _ in range(self.rng.randint(1, 3))], self.rng.choice([None, 3])]

    def _func_x(self):
        return ["func_x", self.g.any_g(), self.rng.choice(["f", "fx"]),
                [self._a() for _ in range(self.rng.randint(0, 2))] if self.w.attrs else []]

    def _kw_io_append(self):
        c, wh = self.g.any_c(), self.g._which()
        return ["kw_io_append", c, wh, self.g._io_value(c, wh)]

    def _kw_io_insert(self):
        c, wh = self.g.any_c(), self.g._which()
        return ["kw_io_insert", c, wh, self.g._io_index(c, wh), self.g._io_value(c, wh)]

    def _kw_io_pop(self):
        c, wh = self.g.any_c(), self.g._which()
        return ["kw_io_pop", c, wh, self.g._io_index(c, wh)]

    def _kw_io_remove(self):
        c, wh = self.g.any_c(), self.g._which()
        return ["kw_io_remove", c, wh, self.g._io_member(c, wh)]

    def _kw_io_extend(self):
        c, wh = self.g.any_c(), self.g._which()
        return ["kw_io_extend", c, wh, self.g.values_list(self.g.cont_graph(c), wh == "inputs")]

    def _kw_reg(self):
        g = self.g.any_g()
        return ["kw_reg", g, self.g._init_value(g)]

    def _kw_prepend(self):
        return ["kw_prepend", self.g.any_n(), self.g.nodes_list(None)]

    def _kw_n_append(self):
        return ["kw_n_append", self.g.any_n(), self.g.nodes_list(None)]

    def _gen_extend(self):
        c = self.g.any_c()
        return ["gen_extend", c, self.g.nodes_list(self.g.cont_graph(c))]

    def _kw_in_set(self):
        g = self.g.any_g()
        return ["kw_in_set", g, self.g._init_value(g)]

    def _kw_rauw(self):
        return ["kw_rauw", self.g.any_v(), self.g.any_v()]

    def _pos_rauw(self):
        op = self.g._rauw()
        return ["pos_rauw", op[1], op[2], bool(op[3])]

    def _pos_remove(self):
        op = self.g._remove()
        return ["pos_remove", op[1], op[2], bool(op[4])]

    def _kw_io_set(self):
        c, wh = self.g.any_c(), self.g._which()
        return ["kw_io_set", c, wh, self.g._io_index(c, wh), self.g._io_value(c, wh)]

    def _kw_in_del(self):
        g = self.g.any_g()
        try:
            keys = list(self.w.G(g).initializers)
        except Exception:  # noqa: BLE001
            keys = []
        return ["kw_in_del", g, self.rng.choice(keys) if keys and self.rng.random() < 0.8 else "absent"]

    def _kw_attr_setitem(self):
        if not self.w.attrs:
            return self._attr()
        return ["kw_attr_setitem", self.g.any_n(), self._a()]

    def _pos_val(self):
        return ["pos_val", self.g.name()]

    def _kw_attr(self):
        return ["kw_attr", self.rng.choice(["k", "alpha", "axis"]), self.rng.randint(0, 3), self.rng.random() < 0.3]

    def _kw_func(self):
        return ["kw_func", self.g.any_g(), self.rng.choice(["f", "g", "h"])]


INSPECTOR_NAMES = ["entry.ref()", "entry.obj", "entry.details", "entry.public-attributes", "entry.display()",
                   "Journal.display()", "filter-by-operation-and-class", "repr/eq/copy"]


def insert_markers(rng, ops: list, max_depth: int = 3, faultable=(), inspectors: bool = True) -> list:
    """Journal markers (see ``_journal_markers``) and then, when ``faultable`` names operation kinds,
    markers that configure the journals through their public hook API:

    ``["J_hook", kind]``: ``add_hook`` on the innermost active journal - "observe" (notes what it is
    told), "fault" (raises when the executor arms it), "touch" (performs IR calls of its own on a
    private object).  ``["J_hook_clear"]``: ``clear_hooks()``.  ``["J_fault"]``: the next item, if its
    kind is in ``faultable`` and a journal is active, is executed with the innermost journal's fault
    hook armed; the caller handles the hook's exception and repeats the call.  All of them are no-ops
    outside a journal and in the plain run."""
    items = _hook_markers(rng, _journal_markers(rng, ops, max_depth), max_depth, faultable)
    return _inspect_markers(rng, items, max_depth) if inspectors else items


def _inspect_markers(rng, items: list, max_depth: int) -> list:
    """``["J_inspect", [inspector, ...]]``: the client looks at the entries of the journals used so far
    through the named public accessors (vfpy.c20_mon.INSPECTORS) - while a journal is active and / or
    after the last one was left, i.e. while the recorded objects are still alive.  A no-op in the plain run."""
    style = rng.choice(["none", "end", "end", "end", "mid", "both", "both"])
    if style == "none":
        return items

    def names():
        r = rng.random()
        if r < 0.55:
            return [rng.choice(INSPECTOR_NAMES)]
        if r < 0.75:
            return sorted(rng.sample(INSPECTOR_NAMES, 2), key=INSPECTOR_NAMES.index)
        return list(INSPECTOR_NAMES)
    out: list = []
    depth = mid = 0
    for it in items:
        if it[0] == "J_enter":
            depth = min(max_depth, depth + 1)
        elif it[0] == "J_exit":
            depth = max(0, depth - int(it[2]))
        elif it[0] not in MARKERS and depth > 0 and style in ("mid", "both") and mid < 2 and rng.random() < 0.04:
            out.append(["J_inspect", names()])
            mid += 1
        out.append(it)
    if style in ("end", "both") or not mid:
        out.append(["J_inspect", names()])
    return out


def _hook_markers(rng, items: list, max_depth: int, faultable) -> list:
    if not faultable:
        return items
    style = rng.choice(["none", "observe", "fault", "fault", "mixed", "mixed", "mixed"])
    if style == "none":
        return items
    p_hook_at_enter = {"observe": 0.8, "fault": 0.3, "mixed": 0.6}[style]
    p_hook_later = {"observe": 0.03, "fault": 0.01, "mixed": 0.03}[style]
    p_fault = {"observe": 0.0, "fault": 0.4, "mixed": 0.25}[style]
    p_clear = 0.0 if style == "fault" else 0.015
    kinds = ["observe"] if style == "observe" else HOOK_KINDS
    out: list = []
    depth = 0  # approximate: an "op_exc" exit only happens when an IR call raised
    for it in items:
        if it[0] == "J_enter":
            out.append(it)
            depth = min(max_depth, depth + 1)
            while rng.random() < p_hook_at_enter and len(out) < 400:
                out.append(["J_hook", rng.choice(kinds)])
                if rng.random() < 0.5:
                    break
            continue
        if it[0] == "J_exit":
            out.append(it)
            depth = max(0, depth - int(it[2]))
            continue
        if depth > 0:
            if rng.random() < p_hook_later:
                out.append(["J_hook", rng.choice(kinds)])
            if rng.random() < p_clear:
                out.append(["J_hook_clear"])
            if it[0] in faultable and rng.random() < p_fault:
                out.append(["J_fault"])
        out.append(it)
    return out


def _journal_markers(rng, ops: list, max_depth: int = 3) -> list:
    """Interleave journal markers in a history: a random properly nested bracket structure of depth
    <= max_depth.  ``["J_enter", reuse]``: enter a journal (reuse=1: re-enter the most recently closed
    Journal object).  ``["J_exit", mode, levels]``: leave ``levels`` journals; mode "normal" (only
    levels == 1), "exc" (a harness exception thrown inside the innermost block) or "op_exc" (the
    exception of the last IR call, if it raised, is re-thrown from inside the block)."""
    n = len(ops)
    style = rng.choice(["whole", "one", "several", "several", "nested", "nested", "nested"])
    out: list = []
    depth = 0
    if style == "whole":
        d = rng.randint(1, max_depth)
        lead = rng.randint(0, min(6, n))
        out = ops[:lead] + [["J_enter", 0] for _ in range(d)] + ops[lead:]
        tail = rng.choice(["normal", "exc", "none"])
        if tail == "normal":
            out += [["J_exit", "normal", 1] for _ in range(d)]
        elif tail == "exc":
            out += [["J_exit", rng.choice(["exc", "op_exc"]), d]]
        return out
    p_enter = {"one": 0.0, "several": 0.07, "nested": 0.12}[style]
    p_exit = {"one": 0.0, "several": 0.08, "nested": 0.07}[style]
    one_at = (rng.randrange(n + 1), rng.randrange(n + 1))
    for i, op in enumerate(ops):
        if style == "one":
            if i == min(one_at):
                out.append(["J_enter", 0])
                depth = 1
            if i == max(one_at) and depth:
                out.append(["J_exit", rng.choice(["normal", "exc", "op_exc"]), 1])
                depth = 0
        else:
            lim = 1 if style == "several" else max_depth
            while depth < lim and rng.random() < p_enter:
                out.append(["J_enter", 1 if rng.random() < 0.25 else 0])
                depth += 1
            if depth and rng.random() < p_exit:
                mode = rng.choice(["normal", "normal", "exc", "op_exc"])
                levels = 1 if mode == "normal" else rng.randint(1, depth)
                out.append(["J_exit", mode, levels])
                depth -= levels
        out.append(op)
    if depth and rng.random() < 0.7:
        mode = rng.choice(["normal", "exc"])
        if mode == "normal":
            out += [["J_exit", "normal", 1] for _ in range(depth)]
        else:
            out.append(["J_exit", "exc", depth])
    return out
