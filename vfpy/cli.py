from __future__ import annotations

import argparse
import os
import subprocess
import sys
from pathlib import Path

ROOT = Path(os.environ.get("VF_ROOT") or Path(__file__).resolve().parent.parent)


def setup() -> int:
    """Offline install of the optional contract libraries next to the repo's interpreter."""
    deps = ROOT / ".deps"
    if (deps / "icontract").exists():
        print("[setup] .deps already present")
        return 0
    cmd = [
        "/venv/bin/pip", "install", "--quiet", "--no-index", "--find-links", "/opt/veriftools/wheels",
        "--target", str(deps), "icontract", "deal",
    ]
    rc = subprocess.call(cmd)
    print(f"[setup] pip rc={rc}")
    # the contract libraries are optional (used by the invariant audit only); never fail setup
    return 0


def main(argv: list[str] | None = None) -> int:
    ap = argparse.ArgumentParser(prog="vf")
    sub = ap.add_subparsers(dest="cmd", required=True)
    c = sub.add_parser("check")
    c.add_argument("prop")
    c.add_argument("tier", choices=["quick", "thorough"])
    c.add_argument("--replay")
    c.add_argument("--seed", type=int, default=None)
    c.add_argument("--cases", type=int, default=None)
    c.add_argument("--shards", type=int, default=None)
    c.add_argument("--budget", type=float, default=None)
    s = sub.add_parser("selftest")
    s.add_argument("names", nargs="*")
    s.add_argument("--tier", default="quick")
    s.add_argument("--kind", default="all", choices=["all", "mutants", "seeded"])
    sub.add_parser("setup")
    args = ap.parse_args(argv)

    if args.cmd == "setup":
        return setup()
    if args.cmd == "selftest":
        from vfpy import selftest

        return selftest.main(args.names, args.tier, args.kind)
    from vfpy import runner

    prop = args.prop.upper()
    if args.replay:
        return runner.run_replay(prop, args.replay)
    seed = args.seed if args.seed is not None else int(os.environ.get("VERIF_SEED", "0") or 0)
    overrides = {}
    if args.cases is not None:
        overrides["cases"] = args.cases
    if args.shards is not None:
        overrides["shards"] = args.shards
    if args.budget is not None:
        overrides["budget_s"] = args.budget
    return runner.run_check(prop, args.tier, seed, overrides)


if __name__ == "__main__":
    sys.exit(main())
