"""C04 oracle side: everything here is written for the harness from the ONNX specification
(onnx.proto3 comments on TensorProto) and does NOT import onnx_ir.

* SPECS: the element types with bit width, kind, numpy/ml_dtypes dtype and the typed TensorProto
  field that may legally carry them.
* pack()/unpack(): the pure-Python bit packer (element i lives at bit offset (i mod k)*bits of
  byte i div k, k = 8/bits; >=8 bit elements are little endian, complex = real then imag).
* logical data = a list of unsigned bit patterns, one per element; generators per value class.
"""

from __future__ import annotations

import math
import struct
from dataclasses import dataclass

import ml_dtypes
import numpy as np


@dataclass(frozen=True)
class Spec:
    name: str
    value: int          # onnx.TensorProto.DataType number
    bits: int           # 0 for STRING
    kind: str           # float | int | uint | bool | complex | string
    np_dtype: object    # numpy dtype the library is documented to return from numpy()
    field: str          # typed TensorProto field that may legally hold it
    torch: str | None   # torch dtype attribute name handled by the documented adapter table


def _s(name, value, bits, kind, npdt, field, torch):
    return Spec(name, value, bits, kind, np.dtype(npdt) if npdt is not None else None, field, torch)


SPECS: dict[str, Spec] = {s.name: s for s in [
    _s("FLOAT", 1, 32, "float", np.float32, "float_data", "float32"),
    _s("UINT8", 2, 8, "uint", np.uint8, "int32_data", "uint8"),
    _s("INT8", 3, 8, "int", np.int8, "int32_data", "int8"),
    _s("UINT16", 4, 16, "uint", np.uint16, "int32_data", "uint16"),
    _s("INT16", 5, 16, "int", np.int16, "int32_data", "int16"),
    _s("INT32", 6, 32, "int", np.int32, "int32_data", "int32"),
    _s("INT64", 7, 64, "int", np.int64, "int64_data", "int64"),
    _s("STRING", 8, 0, "string", object, "string_data", None),
    _s("BOOL", 9, 8, "bool", np.bool_, "int32_data", "bool"),
    _s("FLOAT16", 10, 16, "float", np.float16, "int32_data", "float16"),
    _s("DOUBLE", 11, 64, "float", np.float64, "double_data", "float64"),
    _s("UINT32", 12, 32, "uint", np.uint32, "uint64_data", "uint32"),
    _s("UINT64", 13, 64, "uint", np.uint64, "uint64_data", "uint64"),
    _s("COMPLEX64", 14, 64, "complex", np.complex64, "float_data", "complex64"),
    _s("COMPLEX128", 15, 128, "complex", np.complex128, "double_data", "complex128"),
    _s("BFLOAT16", 16, 16, "float", ml_dtypes.bfloat16, "int32_data", "bfloat16"),
    _s("FLOAT8E4M3FN", 17, 8, "float", ml_dtypes.float8_e4m3fn, "int32_data", "float8_e4m3fn"),
    _s("FLOAT8E4M3FNUZ", 18, 8, "float", ml_dtypes.float8_e4m3fnuz, "int32_data", "float8_e4m3fnuz"),
    _s("FLOAT8E5M2", 19, 8, "float", ml_dtypes.float8_e5m2, "int32_data", "float8_e5m2"),
    _s("FLOAT8E5M2FNUZ", 20, 8, "float", ml_dtypes.float8_e5m2fnuz, "int32_data", "float8_e5m2fnuz"),
    _s("UINT4", 21, 4, "uint", ml_dtypes.uint4, "int32_data", None),
    _s("INT4", 22, 4, "int", ml_dtypes.int4, "int32_data", None),
    _s("FLOAT4E2M1", 23, 4, "float", ml_dtypes.float4_e2m1fn, "int32_data", None),
    _s("FLOAT8E8M0", 24, 8, "float", ml_dtypes.float8_e8m0fnu, "int32_data", "float8_e8m0fnu"),
    _s("UINT2", 25, 2, "uint", ml_dtypes.uint2, "int32_data", "uint2"),
    _s("INT2", 26, 2, "int", ml_dtypes.int2, "int32_data", "int2"),
]}

NUMERIC = [n for n, s in SPECS.items() if s.kind != "string"]
NON_NATIVE = {"BFLOAT16", "FLOAT8E4M3FN", "FLOAT8E4M3FNUZ", "FLOAT8E5M2", "FLOAT8E5M2FNUZ",
              "FLOAT8E8M0", "UINT4", "INT4", "FLOAT4E2M1", "UINT2", "INT2"}
UINT_OF_BITS = {8: np.uint8, 16: np.uint16, 32: np.uint32, 64: np.uint64}

# FLOAT4E2M1 value table from the ONNX spec (S.EE.M, bias 1, no inf/nan)
_F4 = [0.0, 0.5, 1.0, 1.5, 2.0, 3.0, 4.0, 6.0]

SHAPES: list[tuple[int, ...]] = [
    (), (0,), (1,), (2,), (3,), (5,), (7,), (3, 3), (2, 0, 3, 1), (1, 2, 1, 3, 1, 2),
]
VCLASSES = ["zeros", "ones", "minmax", "inf", "nan", "random"]


def nbytes_of(size: int, bits: int) -> int:
    return -((-size * bits) // 8)


# ---- the bit packer -------------------------------------------------------------------------
def pack(patterns: list[int], bits: int) -> bytes:
    if bits >= 8:
        nb = bits // 8
        out = bytearray()
        for p in patterns:
            out += int(p).to_bytes(nb, "little")
        return bytes(out)
    k = 8 // bits
    mask = (1 << bits) - 1
    out = bytearray((len(patterns) + k - 1) // k)
    for i, p in enumerate(patterns):
        out[i // k] |= (p & mask) << ((i % k) * bits)
    return bytes(out)


def unpack(data: bytes, bits: int, size: int) -> list[int]:
    if bits >= 8:
        nb = bits // 8
        return [int.from_bytes(data[i * nb:(i + 1) * nb], "little") for i in range(size)]
    k = 8 // bits
    mask = (1 << bits) - 1
    return [(data[i // k] >> ((i % k) * bits)) & mask for i in range(size)]


# ---- pattern <-> value ------------------------------------------------------------------------
def sign_extend(p: int, bits: int) -> int:
    return p - (1 << bits) if p >> (bits - 1) else p


def _float_of(p: int, spec: Spec) -> float:
    if spec.bits == 4:
        v = _F4[p & 7]
        return -v if p & 8 else v
    if spec.bits == 64:
        return struct.unpack("<d", p.to_bytes(8, "little"))[0]
    if spec.bits == 32:
        return struct.unpack("<f", p.to_bytes(4, "little"))[0]
    arr = np.array([p], dtype=UINT_OF_BITS[spec.bits]).view(spec.np_dtype)
    return float(arr.astype(np.float64)[0])


def value_of(p: int, spec: Spec):
    """Python value denoted by a pattern (what a user would put in a list / typed proto field)."""
    if spec.kind == "uint":
        return p
    if spec.kind == "bool":
        return bool(p)
    if spec.kind == "int":
        return sign_extend(p, spec.bits)
    if spec.kind == "float":
        return _float_of(p, spec)
    if spec.kind == "complex":
        half = spec.bits // 2
        comp = SPECS["FLOAT" if half == 32 else "DOUBLE"]
        return complex(_float_of(p & ((1 << half) - 1), comp), _float_of(p >> half, comp))
    raise AssertionError(spec)


def wide_bits_of(p: int, spec: Spec) -> int:
    """For sub-byte types: the uint32 bit pattern of the element value after widening to
    int32 / float32 (so -0.0 and the sign are compared exactly)."""
    v = value_of(p, spec)
    if spec.kind == "float":
        return struct.unpack("<I", struct.pack("<f", v))[0]
    return v & 0xFFFFFFFF


# ---- special patterns per type -----------------------------------------------------------------
_special_cache: dict[str, dict[str, list[int]]] = {}


def _float_specials(spec: Spec) -> dict[str, list[int]]:
    bits = spec.bits
    if bits <= 16:
        allp = np.arange(1 << bits, dtype=np.uint32).astype(UINT_OF_BITS[max(bits, 8)])
        with np.errstate(invalid="ignore"):
            vals = allp.view(spec.np_dtype).astype(np.float64)
        nan = [int(x) for x in allp[np.isnan(vals)]]
        inf = [int(x) for x in allp[np.isinf(vals)]]
        finite = np.isfinite(vals)
        mx = int(allp[finite][np.argmax(vals[finite])])
        mn = int(allp[finite][np.argmin(vals[finite])])
        # smallest positive: pattern with smallest positive value
        pos = finite & (vals > 0)
        tiny = int(allp[pos][np.argmin(vals[pos])])
        minmax = [mx, mn, tiny, (1 << (bits - 1)) % (1 << bits)]  # also the sign-bit-only pattern
        return {"nan": nan, "inf": inf, "minmax": minmax}
    if bits == 32:
        return {"nan": None, "inf": [0x7F800000, 0xFF800000],
                "minmax": [0x7F7FFFFF, 0xFF7FFFFF, 0x00000001, 0x80000000, 0x00800000]}
    return {"nan": None, "inf": [0x7FF0000000000000, 0xFFF0000000000000],
            "minmax": [0x7FEFFFFFFFFFFFFF, 0xFFEFFFFFFFFFFFFF, 1, 1 << 63, 0x0010000000000000]}


def specials(spec: Spec) -> dict[str, list[int]]:
    if spec.name not in _special_cache:
        _special_cache[spec.name] = _float_specials(spec)
    return _special_cache[spec.name]


def _rand_nan(spec: Spec, rng) -> int:
    """A quiet NaN with random sign and payload (32/64-bit IEEE)."""
    if spec.bits == 32:
        return (rng.getrandbits(1) << 31) | 0x7FC00000 | rng.getrandbits(22)
    return (rng.getrandbits(1) << 63) | 0x7FF8000000000000 | rng.getrandbits(51)


def has_class(spec: Spec, vclass: str) -> bool:
    if vclass in ("zeros", "ones", "minmax", "random", "mixed"):
        return True
    if spec.kind == "complex":
        return True
    if spec.kind != "float":
        return False
    sp = specials(spec)
    if vclass == "inf":
        return bool(sp["inf"])
    if vclass == "nan":
        return sp["nan"] is None or bool(sp["nan"])
    return False


def _one(spec: Spec, vclass: str, rng, i: int) -> int:
    bits, kind = spec.bits, spec.kind
    full = (1 << bits) - 1
    if kind == "complex":
        half = bits // 2
        comp = SPECS["FLOAT" if half == 32 else "DOUBLE"]
        # one component of the class, the other random-ish, alternating
        a = _one(comp, vclass, rng, i)
        b = _one(comp, vclass if (i % 3) else "random", rng, i + 1)
        return a | (b << half) if i % 2 == 0 else b | (a << half)
    if vclass == "zeros":
        return 0
    if kind == "bool":
        if vclass == "ones":
            return 1
        if vclass == "minmax":
            return i % 2
        return rng.getrandbits(1)
    if vclass == "ones":
        return full
    if vclass == "random":
        return rng.getrandbits(bits)
    if vclass == "minmax":
        if kind == "uint":
            return [full, 0, 1, full - 1][i % 4]
        if kind == "int":
            return [(1 << (bits - 1)) - 1, 1 << (bits - 1), full, 1][i % 4]  # max, min, -1, 1
        c = specials(spec)["minmax"]
        return c[i % len(c)]
    sp = specials(spec)
    if vclass == "inf":
        c = sp["inf"]
        return c[i % len(c)] if (i % 3) != 2 else rng.getrandbits(bits)
    if vclass == "nan":
        if sp["nan"] is None:
            return _rand_nan(spec, rng) if (i % 4) != 3 else rng.getrandbits(bits)
        c = sp["nan"]
        return c[rng.randrange(len(c))] if (i % 4) != 3 else rng.getrandbits(bits)
    raise AssertionError(vclass)


def gen_patterns(spec: Spec, size: int, vclass: str, rng) -> list[int]:
    if vclass == "mixed":
        classes = [c for c in VCLASSES if has_class(spec, c)]
        return [_one(spec, classes[rng.randrange(len(classes))], rng, i) for i in range(size)]
    return [_one(spec, vclass, rng, i) for i in range(size)]


def quietize(patterns: list[int], spec: Spec) -> list[int]:
    """Set the quiet bit of signalling NaNs of 32/64-bit IEEE components: representations that
    pass through Python floats / protobuf float fields cannot carry signalling NaNs (the CPU
    quiets them on float<->double conversion); that is outside the library."""
    def q(p: int, bits: int) -> int:
        if bits == 32:
            if (p & 0x7F800000) == 0x7F800000 and (p & 0x007FFFFF):
                return p | 0x00400000
            return p
        if (p & 0x7FF0000000000000) == 0x7FF0000000000000 and (p & 0x000FFFFFFFFFFFFF):
            return p | 0x0008000000000000
        return p
    if spec.kind == "float" and spec.bits in (32, 64):
        return [q(p, spec.bits) for p in patterns]
    if spec.kind == "complex":
        half = spec.bits // 2
        m = (1 << half) - 1
        return [q(p & m, half) | (q(p >> half, half) << half) for p in patterns]
    return patterns


def is_nan_pattern(p: int, spec: Spec) -> bool:
    if spec.kind == "complex":
        half = spec.bits // 2
        comp = SPECS["FLOAT" if half == 32 else "DOUBLE"]
        return is_nan_pattern(p & ((1 << half) - 1), comp) or is_nan_pattern(p >> half, comp)
    if spec.kind != "float":
        return False
    if spec.bits == 32:
        return (p & 0x7F800000) == 0x7F800000 and bool(p & 0x007FFFFF)
    if spec.bits == 64:
        return (p & 0x7FF0000000000000) == 0x7FF0000000000000 and bool(p & 0x000FFFFFFFFFFFFF)
    nan = specials(spec)["nan"]
    return p in nan


def prod(shape) -> int:
    return math.prod(shape)


# ---- numpy arrays of the logical data, built without the library ------------------------------
def bits_array(patterns: list[int], spec: Spec, shape) -> np.ndarray:
    """Unsigned bit-pattern array: uint8 for <=8 bits (zero extended), uintN otherwise; complex
    types are returned as the native complex dtype (built from the packed bytes)."""
    if spec.bits <= 8:
        return np.array(patterns, dtype=np.uint8).reshape(shape)
    if spec.kind == "complex":
        return np.frombuffer(pack(patterns, spec.bits), dtype=spec.np_dtype).reshape(shape).copy()
    return np.array(patterns, dtype=UINT_OF_BITS[spec.bits]).reshape(shape)


def typed_array(patterns: list[int], spec: Spec, shape) -> np.ndarray:
    """Array with the dtype numpy() is documented to return (ml_dtypes where numpy has none)."""
    b = bits_array(patterns, spec, shape)
    if spec.kind == "complex":
        return b
    if spec.kind == "bool":
        return b.astype(np.bool_)
    return b.view(spec.np_dtype)


def observed_bits(arr: np.ndarray, spec: Spec) -> list[int]:
    """Bit-for-bit observation of an array returned by the library: list of unsigned patterns
    (sub-byte: the widened int32/float32 pattern of each element value)."""
    if spec.bits < 8:
        wide = np.ascontiguousarray(arr).astype(np.float32 if spec.kind == "float" else np.int32)
        return [int(x) for x in wide.reshape(-1).view(np.uint32)]
    data = np.ascontiguousarray(arr).tobytes()
    return unpack(data, spec.bits, arr.size)


def expected_bits(patterns: list[int], spec: Spec) -> list[int]:
    if spec.bits < 8:
        return [wide_bits_of(p, spec) for p in patterns]
    return list(patterns)


# ---- unrounded sources: float64 numbers that a single correct rounding turns into a given pattern ------
# A narrow float element v (pattern p) is the image of every real number in its rounding interval
# (midpoint with the lower neighbour, midpoint with the upper neighbour), the end points included when
# p is even (IEEE round-to-nearest-even).  The candidates below sit just inside the ends of that
# interval - `eps` (relative) away from the midpoint; eps = 0 means the adjacent float64 - or exactly on
# an end point that ties to p.  They are built from the neighbouring *values* only (decoded by
# numpy/ml_dtypes, which is exact), never by asking anyone to round.
ROUNDING_EPS = [0.0, 2.0 ** -40, 2.0 ** -30, 2.0 ** -20, 2.0 ** -13]


def component_spec(spec: Spec) -> Spec:
    if spec.kind == "complex":
        return SPECS["FLOAT" if spec.bits == 64 else "DOUBLE"]
    return spec


def component_patterns(patterns: list[int], spec: Spec) -> list[int]:
    if spec.kind != "complex":
        return list(patterns)
    half = spec.bits // 2
    mask = (1 << half) - 1
    out = []
    for p in patterns:
        out += [p & mask, p >> half]
    return out


def unrounded_candidates(spec: Spec, patterns: list[int]) -> tuple[list[np.ndarray], np.ndarray]:
    """For a real float type of <= 32 bits: ([one float64 array of sources per ROUNDING_EPS level], exact
    values).  Element i of every level rounds (to nearest, ties to even) to patterns[i]."""
    assert spec.kind == "float" and spec.bits <= 32, spec
    bits = spec.bits
    signed = spec.name != "FLOAT8E8M0"
    magbits = bits - 1 if signed else bits
    top = (1 << magbits) - 1
    p = np.array(patterns, dtype=np.int64).reshape(-1)
    sign = ((p >> magbits) & 1).astype(bool) if signed else np.zeros(p.shape, dtype=bool)
    m = p & top

    def val(marr):
        raw = np.clip(marr, 0, top).astype(UINT_OF_BITS[max(bits, 8)])
        with np.errstate(all="ignore"):
            return raw.view(spec.np_dtype).astype(np.float64)

    v = val(m)
    lo = val(m - 1)
    hi = val(m + 1)
    has_lo = (m > 0) & np.isfinite(lo)
    has_hi = (m < top) & np.isfinite(hi)
    finite = np.isfinite(v)
    even = (m % 2) == 0
    with np.errstate(all="ignore"):
        mid_lo = (v + lo) / 2
        mid_hi = (v + hi) / 2
    side = np.arange(len(p)) % 3
    levels = []
    for eps in ROUNDING_EPS:
        with np.errstate(all="ignore"):
            up = np.nextafter(mid_hi, 0.0) if eps == 0.0 else mid_hi * (1.0 - eps)
            dn = np.nextafter(mid_lo, np.inf) if eps == 0.0 else mid_lo * (1.0 + eps)
        tie = np.where(even, mid_hi, up)
        x = np.where(side == 0, np.where(has_hi, up, dn), np.where(side == 1, np.where(has_lo, dn, up), np.where(has_hi, tie, dn)))
        none = ~has_lo & ~has_hi
        with np.errstate(all="ignore"):
            ok_lo = ~has_lo | (x > mid_lo) | ((x == mid_lo) & even)
            ok_hi = ~has_hi | (x < mid_hi) | ((x == mid_hi) & even)
        inside = ok_lo & ok_hi & ~none & (x >= 0)
        x = np.where(finite & inside, x, v)
        levels.append(np.where(sign, -x, x))
    return levels, np.where(sign, -v, v)
