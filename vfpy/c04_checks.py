"""C04 monitors: observe one representation of one logical array through the public tensor
interface and compare every observation with the harness oracle (c04_oracle) and with onnx's
own encoder/decoder.  ``evaluate`` returns {check_id: message}; an empty dict means every
observation agreed.  Only calls INTO the library are guarded; harness errors propagate."""

from __future__ import annotations

import contextlib
import errno
import io
import os
from collections import Counter

import numpy as np
import onnx
from onnx import numpy_helper

import onnx_ir as ir
from onnx_ir import serde as ir_serde

from vfpy import c04_oracle as O
from vfpy.c04_reps import REPS, Env

PRE = b"<<PREFIX.13>>"
POST = b"POST"
REG_DESTS = ["file0", "file_mid", "file_mid_pending", "append", "file_unbuffered"]
MEM_DESTS = ["bytesio", "bytesio_mid", "writer"]
DESTS = REG_DESTS + MEM_DESTS
REPORT_ONLY_DESTS = ["pipe"]


def exc_id(e: BaseException) -> str:
    n = type(e).__name__
    if isinstance(e, OSError) and e.errno:
        n += f"[{errno.errorcode.get(e.errno, e.errno)}]"
    if e.__cause__ is not None and n == "SerdeError":
        n += "<-" + type(e.__cause__).__name__
    return n


def _call(fn):
    try:
        return True, fn()
    except Exception as e:  # noqa: BLE001 - whatever the library raises is an observation
        return False, e


def _short(x, n=48):
    s = x.hex() if isinstance(x, (bytes, bytearray)) else repr(x)
    return s if len(s) <= n else s[:n] + f"...({len(x)})"


class Writer:
    """Destination with nothing but write()."""

    def __init__(self):
        self.chunks = []

    def write(self, b):
        self.chunks.append(bytes(b))
        return len(self.chunks[-1])


def check_array(arr, env: Env) -> str | None:
    sp = env.spec
    if not isinstance(arr, np.ndarray):
        return f"numpy() returned {type(arr).__name__}"
    if arr.dtype != sp.np_dtype and arr.dtype.newbyteorder("=") == sp.np_dtype:
        # same element type stored in the other byte order: the statement speaks about element values,
        # not about the memory order of the returned array -> compare the values
        arr = arr.astype(sp.np_dtype)
    if arr.dtype != sp.np_dtype:
        return f"array dtype {arr.dtype} != {sp.np_dtype}"
    if tuple(arr.shape) != env.shape:
        return f"array shape {tuple(arr.shape)} != {env.shape}"
    got = O.observed_bits(arr, sp)
    exp = O.expected_bits(env.patterns, sp)
    if got != exp:
        i = next(k for k in range(len(exp)) if got[k] != exp[k])
        return f"element {i}: got bits {got[i]:#x}, expected {exp[i]:#x} (of {len(exp)} elements)"
    return None


def _place(content: bytes, before: bytes, exp: bytes, after: bytes) -> tuple[str, str] | None:
    if content == before + exp + after:
        return None
    nb, n = len(before), len(exp)
    if content[:nb] != before:
        return "clobber-before", f"bytes before the written range changed: {_short(content[:nb])} != {_short(before)}"
    if content[nb:nb + n] != exp:
        return "bytes", f"written range {_short(content[nb:nb + n])} != expected {_short(exp)} (file length {len(content)}, expected {nb + n + len(after)})"
    return "clobber-after", f"bytes after the written range: {_short(content[nb + n:])} != {_short(after)}"


def run_dest(dest: str, env: Env, t, exp: bytes):
    """Returns (exception | None, content, before, after, pos, exp_pos)."""
    n = len(exp)
    fill = bytes((0xE0 + (i % 13)) for i in range(n + 9))
    if dest in ("file0", "file_mid", "file_mid_pending", "append", "file_unbuffered"):
        path = env.path("dst")
        if dest == "file0":
            before, after, f = b"", b"", open(path, "wb")
        elif dest == "append":
            with open(path, "wb") as g:
                g.write(PRE)
            before, after, f = PRE, b"", open(path, "ab")
        else:
            with open(path, "wb") as g:
                g.write(PRE + fill)
            before, after = PRE, fill[n:]
            f = open(path, "r+b", buffering=0) if dest == "file_unbuffered" else open(path, "r+b")
            if dest == "file_mid_pending":
                f.write(PRE)           # buffered, not flushed: ordering hazard for fd-level writers
            else:
                f.seek(len(PRE))
        err = pos = None
        try:
            ok, e = _call(lambda: t.tofile(f))
            if not ok:
                err = e
            else:
                pos = f.tell()
                if dest == "file_mid_pending":
                    f.write(POST)
                    after = POST + fill[n + len(POST):]
        finally:
            f.close()
        with open(path, "rb") as g:
            content = g.read()
        os.unlink(path)
        return err, content, before, after, pos, len(before) + n
    if dest == "bytesio":
        b = io.BytesIO()
        b.write(PRE)
        ok, e = _call(lambda: t.tofile(b))
        return (None if ok else e), b.getvalue(), PRE, b"", b.tell(), len(PRE) + n
    if dest == "bytesio_mid":
        b = io.BytesIO(PRE + fill)
        b.seek(len(PRE))
        ok, e = _call(lambda: t.tofile(b))
        return (None if ok else e), b.getvalue(), PRE, fill[n:], b.tell(), len(PRE) + n
    if dest == "writer":
        w = Writer()
        ok, e = _call(lambda: t.tofile(w))
        return (None if ok else e), b"".join(w.chunks), b"", b"", None, None
    if dest == "pipe":
        r, wfd = os.pipe()
        f = os.fdopen(wfd, "wb")
        try:
            ok, e = _call(lambda: (t.tofile(f), f.flush()))
        finally:
            with contextlib.suppress(Exception):
                f.close()
        chunks = []
        while True:
            c = os.read(r, 1 << 16)
            if not c:
                break
            chunks.append(c)
        os.close(r)
        return (None if ok else e), b"".join(chunks), b"", b"", None, None
    raise AssertionError(dest)


def _merge_dests(per_kind: dict[str, dict[str, str]], fails: dict[str, str]) -> None:
    for kind, by_dest in per_kind.items():
        ds = set(by_dest)
        groups = []
        if ds >= set(DESTS):
            groups.append(("any", DESTS))
            ds = set()
        if ds >= set(REG_DESTS):
            groups.append(("regular-file", REG_DESTS))
            ds -= set(REG_DESTS)
        if ds >= set(MEM_DESTS):
            groups.append(("in-memory", MEM_DESTS))
            ds -= set(MEM_DESTS)
        for d in sorted(ds):
            groups.append((d, [d]))
        for label, members in groups:
            fails[f"tofile-{kind}@{label}"] = f"dest={members[0]}: {by_dest[members[0]]}"


SEQUENCES = [
    ("numpy", "tofile:bytesio", "tofile:file0", "tobytes"),
    ("tobytes", "tofile:file_mid", "numpy", "tofile:bytesio_mid"),
    ("tofile:bytesio", "tofile:file0", "numpy", "tobytes", "tofile:file_mid"),
    ("array", "tofile:writer", "tobytes", "tofile:file_unbuffered"),
]


def _sequences(env: Env, make, exp: bytes, counts: Counter, fails: dict[str, str]) -> None:
    """Every accessor, judged exactly as in phases A-C, but called in several orders on one instance.
    Only run when each accessor was right on a fresh instance, so a failure here is an effect of the
    call history (state kept by an earlier accessor)."""
    # all orders for sub-byte element types (packed bytes != element array), one order (rotating) otherwise
    seqs = SEQUENCES if env.spec.bits < 8 else [SEQUENCES[counts["obs_construct"] % len(SEQUENCES)]]
    for seq in seqs:
        t = make()
        done: list[str] = []
        for step in seq:
            counts["obs_sequence_steps"] += 1
            prior = "+".join(sorted({d.split(":")[0] for d in done})) or "fresh"
            if step in ("numpy", "array"):
                ok, a = _call(t.numpy if step == "numpy" else (lambda: np.asarray(t)))
                msg = (f"raises {exc_id(a)}: {a}"[:300] if not ok else check_array(a, env))
                kind = step
            elif step == "tobytes":
                ok, b = _call(t.tobytes)
                msg = (f"raises {exc_id(b)}: {b}"[:300] if not ok else
                       None if bytes(b) == exp else f"tobytes() = {_short(bytes(b))} ({len(bytes(b))} bytes) != expected {_short(exp)} ({len(exp)} bytes)")
                kind = "tobytes"
            else:
                dest = step.split(":")[1]
                err, content, before, after, pos, exp_pos = run_dest(dest, env, t, exp)
                if err is not None:
                    msg = f"raises {exc_id(err)}: {err}"[:300]
                else:
                    bad = _place(content, before, exp, after)
                    msg = bad[1] if bad is not None else (
                        f"file position after tofile is {pos}, expected {exp_pos}" if exp_pos is not None and pos != exp_pos else None)
                kind = "tofile"
            if msg:
                fails.setdefault(f"sequence:{kind}-after-{prior}-mismatch", f"same instance, calls so far {done}: {step}: {msg}")
                break
            done.append(step)
        counts["obs_sequences"] += 1


def phase_of(check_id: str) -> str:
    """Which expensive phase a check belongs to (A/B - metadata, numpy, tobytes - always run)."""
    if check_id.startswith("tofile-"):
        return "C"
    if check_id.startswith("sequence:"):
        return "CE"
    if check_id.startswith(("serialize", "onnx-decode", "roundtrip")):
        return "D"
    return "AB"


def evaluate(env0: Env, rep_name: str, counts: Counter | None = None, dests=None, phases="ABCDE") -> dict[str, str]:
    rep = REPS[rep_name]
    env = env0.quiet() if rep.pyfloat else env0
    counts = counts if counts is not None else Counter()
    ctx = rep.context() if rep.context else contextlib.nullcontext()
    with ctx:
        return _evaluate(env, rep, counts, DESTS if dests is None else dests, phases)


def _evaluate(env: Env, rep, counts: Counter, dests, phases) -> dict[str, str]:
    sp = env.spec
    exp = env.exp_bytes
    fails: dict[str, str] = {}
    make = rep.build(env)                      # harness side: arrays, files, protos
    for k, v in env.stats.items():
        counts[k] += v
    env.stats.clear()
    ok, t = _call(make)
    counts["obs_construct"] += 1
    if rep.extra.get("may_refuse"):
        counts["nonnative_byte_order_constructions"] += 1
    if not ok and rep.extra.get("may_refuse"):
        # the input is one the constructor may legitimately refuse: nothing was built, nothing can disagree
        counts["refused_by_constructor"] += 1
        counts[f"refused_by_constructor:{rep.sig}:{exc_id(t)}"] += 1
        return fails
    if rep.extra.get("may_refuse"):
        counts[f"accepted_by_constructor:{rep.sig}"] += 1
    if not ok:
        fails[f"construct-raises:{exc_id(t)}"] = f"{t}"[:300]
        return fails
    if type(t).__name__ != rep.cls:
        fails["class-mismatch"] = f"built {type(t).__name__}, expected {rep.cls}"

    # ---- A: metadata, numpy(), __array__, then tobytes() on the same instance ---------------------
    counts["obs_meta"] += 1
    ok, m = _call(lambda: (t.dtype, tuple(int(d) for d in t.shape.numpy()), t.size, t.nbytes))
    if not ok:
        fails[f"meta-raises:{exc_id(m)}"] = f"{m}"[:300]
    else:
        dt, shp, size, nb = m
        if dt != env.dtype or int(dt) != sp.value:
            fails["dtype-mismatch"] = f"dtype {dt!r} != {sp.name}"
        if shp != env.shape or t.shape != ir.Shape(env.shape):
            fails["shape-mismatch"] = f"shape {shp} != {env.shape}"
        if size != env.size:
            fails["size-mismatch"] = f"size {size} != {env.size}"
        if nb != O.nbytes_of(env.size, sp.bits) or not isinstance(nb, int):
            fails["nbytes-mismatch"] = f"nbytes {nb!r} != ceil({env.size}*{sp.bits}/8) = {O.nbytes_of(env.size, sp.bits)}"
    counts["obs_numpy"] += 1
    ok, a = _call(t.numpy)
    numpy_ok = False
    if not ok:
        fails[f"numpy-raises:{exc_id(a)}"] = f"{a}"[:300]
    else:
        msg = check_array(a, env)
        if msg:
            fails["numpy-mismatch"] = msg
        else:
            numpy_ok = True
            ok, a2 = _call(lambda: np.asarray(t))
            counts["obs_array"] += 1
            if not ok:
                fails[f"array-raises:{exc_id(a2)}"] = f"{a2}"[:300]
            elif (msg := check_array(a2, env)):
                fails["array-mismatch"] = "np.asarray(tensor): " + msg
            ok, a3 = _call(t.numpy)
            if not ok or check_array(a3, env):
                fails["numpy-second-call-differs"] = f"{a3 if not ok else check_array(a3, env)}"[:300]
    ok_after, b_after = _call(t.tobytes)

    # ---- B: tobytes() first on a fresh instance ----------------------------------------------------
    counts["obs_tobytes"] += 1
    t2 = make()
    ok, b = _call(t2.tobytes)
    wrong_bytes = None
    tobytes_exc = None
    if not ok:
        tobytes_exc = exc_id(b)
        fails[f"tobytes-raises:{tobytes_exc}"] = f"{b}"[:300]
    else:
        bb = bytes(b)
        if bb != exp:
            wrong_bytes = bb
            kind = "tobytes-length-mismatch" if len(bb) != len(exp) else "tobytes-mismatch"
            fails[kind] = f"tobytes() = {_short(bb)} ({len(bb)} bytes) != expected {_short(exp)} ({len(exp)} bytes)"
        else:
            if not ok_after:
                fails[f"tobytes-after-numpy-raises:{exc_id(b_after)}"] = f"{b_after}"[:300]
            elif bytes(b_after) != exp:
                fails["tobytes-after-numpy-mismatch"] = f"{_short(bytes(b_after))} != {_short(exp)}"
        if numpy_ok:
            ok, a4 = _call(t2.numpy)
            if not ok:
                fails[f"numpy-after-tobytes-raises:{exc_id(a4)}"] = f"{a4}"[:300]
            elif (msg := check_array(a4, env)):
                fails["numpy-after-tobytes-mismatch"] = msg

    # ---- C: tofile() into every destination kind, fresh instance each ------------------------------
    per_kind: dict[str, dict[str, str]] = {}
    for dest in (dests if "C" in phases else ()):
        counts["obs_tofile"] += 1
        counts[f"obs_tofile@{dest}"] += 1
        err, content, before, after, pos, exp_pos = run_dest(dest, env, make(), exp)
        if err is not None:
            eid = exc_id(err)
            if eid == tobytes_exc:
                counts["tofile_failure_inherited_from_tobytes"] += 1
                continue
            per_kind.setdefault(f"raises:{eid}", {})[dest] = f"{err}"[:300]
            continue
        bad = _place(content, before, exp, after)
        if bad is not None:
            # tofile wrote exactly what tobytes() (wrongly) returned: one mechanism, reported once
            if wrong_bytes is not None and content[:len(before) + len(wrong_bytes)] == before + wrong_bytes:
                counts["tofile_failure_inherited_from_tobytes"] += 1
                continue
            per_kind.setdefault(bad[0], {})[dest] = bad[1]
            continue
        if exp_pos is not None and pos != exp_pos:
            per_kind.setdefault("position", {})[dest] = f"file position after tofile is {pos}, expected {exp_pos}"
    _merge_dests(per_kind, fails)
    for dest in REPORT_ONLY_DESTS:
        if "C" in phases and len(exp) < 32768 and counts["obs_tofile"] % 64 < 8:
            err, content, *_ = run_dest(dest, env, make(), exp)
            counts[f"report_only_{dest}_" + ("raises:" + exc_id(err) if err is not None else "ok" if content == exp else "wrong-bytes")] += 1

    # ---- E: accessor sequences on ONE instance (an accessor may cache and a later one reuse the cache) --
    if "E" in phases and wrong_bytes is None and tobytes_exc is None and numpy_ok and not per_kind:
        _sequences(env, make, exp, counts, fails)

    # ---- D: serialisation, onnx's decoder, and the round trip ---------------------------------------
    if "D" not in phases:
        return fails
    counts["obs_serialize"] += 1
    ok, p = _call(lambda: ir_serde.serialize_tensor(make()))
    if not ok:
        eid = exc_id(p)
        if tobytes_exc is None or not eid.endswith(tobytes_exc):
            fails[f"serialize-raises:{eid}"] = f"{p}"[:300]
        return fails
    if p.data_type != sp.value or tuple(p.dims) != env.shape:
        fails["serialize-meta-mismatch"] = f"data_type={p.data_type} dims={list(p.dims)}"
    if p.data_location == onnx.TensorProto.EXTERNAL:
        q = onnx.TensorProto()
        q.CopyFrom(p)
        keys = {e.key: e.value for e in q.external_data}
        if "length" not in keys:   # onnx's loader reads to end of file when no length is recorded
            e = q.external_data.add()
            e.key, e.value = "length", str(len(exp))
        ok, arr = _call(lambda: numpy_helper.to_array(q, env.tmp))
    else:
        if p.HasField("raw_data") and p.raw_data != exp and p.raw_data != wrong_bytes:
            fails["serialize-bytes-mismatch"] = f"raw_data {_short(p.raw_data)} != {_short(exp)}"
        ok, arr = _call(lambda: numpy_helper.to_array(p))
    counts["obs_onnx_decode"] += 1
    if not ok:
        if wrong_bytes is None:
            fails[f"onnx-decode-raises:{exc_id(arr)}"] = f"{arr}"[:300]
    elif wrong_bytes is None and (msg := check_array(arr, env)):
        fails["onnx-decode-mismatch"] = "onnx.numpy_helper.to_array(serialize_tensor(t)): " + msg
    if wrong_bytes is None and tobytes_exc is None:
        counts["obs_roundtrip"] += 1
        ok, r = _call(lambda: ir_serde.deserialize_tensor(p, env.tmp))
        if ok:
            ok, r = _call(lambda: (r.numpy(), bytes(r.tobytes()), r.dtype, tuple(r.shape.numpy())))
        if not ok:
            if numpy_ok:
                fails[f"roundtrip-raises:{exc_id(r)}"] = f"{r}"[:300]
        else:
            ra, rb, rd, rs = r
            if rb != exp or rd != env.dtype or rs != env.shape or (numpy_ok and check_array(ra, env)):
                fails["roundtrip-mismatch"] = f"deserialize(serialize(t)): bytes {_short(rb)} dtype {rd} shape {rs} {check_array(ra, env)}"
    return fails


# ==== strings =======================================================================================
STRING_VCLASSES = ["empty", "ascii", "utf8", "binary", "long", "trailing-nul"]


def gen_strings(size: int, vclass: str, rng) -> list[bytes]:
    out = []
    for i in range(size):
        if vclass == "empty":
            s = b""
        elif vclass == "ascii":
            s = bytes(rng.choice(b"abcXYZ 09_") for _ in range(rng.randrange(0, 6)))
        elif vclass == "utf8":
            s = "".join(rng.choice("aé漢🙂ß ") for _ in range(rng.randrange(0, 5))).encode("utf-8")
        elif vclass == "binary":
            s = bytes(rng.getrandbits(8) for _ in range(rng.randrange(0, 7))) + b"\x01"
        elif vclass == "long":
            s = (b"L" * 300) if i == size // 2 else bytes([65 + i % 26])
        elif vclass == "trailing-nul":
            s = b"a\x00" if i % 2 == 0 else b"\x00"
        else:
            raise AssertionError(vclass)
        out.append(s)
    return out


def _nested_obj(vals, shape):
    arr = np.empty(len(vals), dtype=object)
    arr[:] = vals
    return arr.reshape(shape)


STRING_REPS = ["StringTensor/list", "StringTensor/object-array", "StringTensor/S-array", "ir.tensor/str-list",
               "deserialize_tensor/string_data", "TensorProtoTensor/string_data", "LazyTensor over StringTensor"]


def _string_proto(vals, shape):
    p = onnx.TensorProto()
    p.name = "s"
    p.data_type = 8
    p.dims.extend(shape)
    p.string_data.extend(vals)
    return p


def build_string(rep: str, vals: list[bytes], shape):
    """Returns factory or a skip reason (str)."""
    size = len(vals)
    if rep == "StringTensor/list":
        return lambda: ir.StringTensor(list(vals), shape=ir.Shape(shape), name="s")
    if rep == "StringTensor/object-array":
        arr = _nested_obj(vals, shape)
        return lambda: ir.StringTensor(arr)
    if rep == "StringTensor/S-array":
        if any(v.endswith(b"\x00") for v in vals):
            return "n/a:numpy-S-dtype-cannot-hold-trailing-NUL"
        arr = np.array(vals, dtype="S").reshape(shape) if size else np.empty(shape, dtype="S1")
        return lambda: ir.StringTensor(arr)
    if rep == "ir.tensor/str-list":
        if size == 0 or 0 in shape or len(shape) == 0:
            return "n/a:nested-list-cannot-express-shape"
        try:
            strs = [v.decode("utf-8") for v in vals]
        except UnicodeDecodeError:
            return "n/a:not-utf8"
        if any(s.endswith("\x00") for s in strs):
            return "n/a:numpy-str-dtype-cannot-hold-trailing-NUL"
        nested = _nested_obj(strs, shape).tolist()
        return lambda: ir.tensor(nested)
    if rep == "deserialize_tensor/string_data":
        return lambda: ir_serde.deserialize_tensor(_string_proto(vals, shape))
    if rep == "TensorProtoTensor/string_data":
        return lambda: ir_serde.TensorProtoTensor(_string_proto(vals, shape))
    if rep == "LazyTensor over StringTensor":
        inner = lambda: ir.StringTensor(list(vals), shape=ir.Shape(shape))  # noqa: E731
        return lambda: ir.LazyTensor(inner, dtype=ir.DataType.STRING, shape=ir.Shape(shape), cache=False)
    raise AssertionError(rep)


def _check_string_array(arr, vals, shape, counts=None) -> str | None:
    if not isinstance(arr, np.ndarray):
        return f"numpy() returned {type(arr).__name__}"
    if tuple(arr.shape) != tuple(shape):
        return f"array shape {tuple(arr.shape)} != {tuple(shape)}"
    got = arr.reshape(-1).tolist()
    if len(got) != len(vals):
        return f"{len(got)} elements != {len(vals)}"
    for i, (g, e) in enumerate(zip(got, vals)):
        if isinstance(g, str):        # decoded text: the statement does not say bytes vs str
            if g.encode("utf-8", "surrogateescape") != e:
                return f"element {i}: {g!r} != {e!r}"
            if counts is not None:
                counts["report_only_string_numpy_returns_str"] += 1
        elif not isinstance(g, (bytes, np.bytes_)) or bytes(g) != e:
            return f"element {i}: {g!r} != {e!r}"
    return None


def evaluate_string(rep: str, vals: list[bytes], shape, vclass: str, counts: Counter) -> dict[str, str] | str:
    made = build_string(rep, vals, shape)
    if isinstance(made, str):
        return made
    fails: dict[str, str] = {}
    shape = tuple(shape)
    ok, t = _call(made)
    if not ok:
        fails[f"construct-raises:{exc_id(t)}"] = f"{t}"[:300]
        return fails
    report_only = vclass == "trailing-nul"   # numpy byte strings cannot carry a trailing NUL
    ok, m = _call(lambda: (t.dtype, tuple(int(d) for d in t.shape.numpy()), t.size))
    counts["obs_meta"] += 1
    if not ok:
        fails[f"meta-raises:{exc_id(m)}"] = f"{m}"[:300]
    else:
        if m[0] != ir.DataType.STRING or int(m[0]) != 8:
            fails["dtype-mismatch"] = f"{m[0]!r}"
        if m[1] != shape:
            fails["shape-mismatch"] = f"{m[1]} != {shape}"
        if m[2] != len(vals):
            fails["size-mismatch"] = f"{m[2]} != {len(vals)}"
    ok, nb = _call(lambda: t.nbytes)
    counts["report_only_string_nbytes_" + ("sum-of-lengths" if ok and nb == sum(map(len, vals)) else "other" if ok else "raises:" + exc_id(nb))] += 1
    counts["obs_numpy"] += 1
    ok, a = _call(t.numpy)
    if not ok:
        key = f"numpy-raises:{exc_id(a)}"
        if report_only:
            counts["report_only_string_trailing_nul_" + key] += 1
        else:
            fails[key] = f"{a}"[:300]
    else:
        msg = _check_string_array(a, vals, shape, counts)
        if msg and report_only:
            counts["report_only_string_trailing_nul_lost_in_numpy"] += 1
        elif msg:
            fails["numpy-mismatch"] = msg
        if a.dtype.kind not in ("O", "S"):
            counts[f"report_only_string_numpy_dtype_{a.dtype}"] += 1
    if hasattr(t, "string_data"):
        ok, sd = _call(lambda: [bytes(x) for x in t.string_data()])
        if not ok:
            fails[f"string_data-raises:{exc_id(sd)}"] = f"{sd}"[:300]
        elif sd != vals:
            if report_only:
                counts["report_only_string_trailing_nul_lost_in_string_data"] += 1
            else:
                fails["string_data-mismatch"] = f"{sd[:3]!r} != {vals[:3]!r}"
    ok, b = _call(t.tobytes)
    counts["string_tobytes_" + ("raises(documented):" + exc_id(b) if not ok else "report_only_returned")] += 1
    if rep.startswith("LazyTensor"):
        return fails   # serialisation of a lazy string tensor goes through tobytes(): documented unsupported
    counts["obs_serialize"] += 1
    ok, p = _call(lambda: ir_serde.serialize_tensor(made()))
    if not ok:
        fails[f"serialize-raises:{exc_id(p)}"] = f"{p}"[:300]
        return fails
    if p.data_type != 8 or tuple(p.dims) != shape or list(p.string_data) != vals:
        if report_only and p.data_type == 8 and tuple(p.dims) == shape:
            counts["report_only_string_trailing_nul_lost_in_serialize"] += 1
        else:
            fails["serialize-mismatch"] = f"data_type={p.data_type} dims={list(p.dims)} string_data={list(p.string_data)[:3]!r}"
    else:
        utf8_ok = True
        try:
            [v.decode("utf-8") for v in vals]
        except UnicodeDecodeError:
            utf8_ok = False
        if utf8_ok and not report_only:   # onnx's decoder returns text
            ok, arr = _call(lambda: numpy_helper.to_array(p))
            counts["obs_onnx_decode"] += 1
            if ok and _check_string_array(arr, vals, shape):
                fails["onnx-decode-mismatch"] = _check_string_array(arr, vals, shape)
        ok, r = _call(lambda: ir_serde.deserialize_tensor(p))
        if ok:
            ok, r = _call(lambda: (r.dtype, tuple(r.shape.numpy()), [bytes(x) for x in r.string_data()]))
        if not ok:
            fails[f"roundtrip-raises:{exc_id(r)}"] = f"{r}"[:300]
        elif r != (ir.DataType.STRING, shape, vals):
            fails["roundtrip-mismatch"] = f"{r!r}"[:300]
    return fails
