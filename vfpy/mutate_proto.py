"""Hostile mutations of ONNX protos (C17): field-level mutations by protobuf reflection plus
byte-level mutations of the serialised form that protobuf still parses.

Nothing here imports ``onnx_ir``.

A mutation is the pair ``[kind, seed]``.  ``apply(root, kind, seed)`` mutates the message ``root``
in place and returns a short description, or ``None`` when the mutation has no site in this
message (then ``root`` is unchanged).  All choices of a mutation come from
``random.Random(f"{kind}:{seed}")`` over the sites *enumerated at application time*, so every
sub-list of a mutation list can be re-applied to the same base proto (which is what makes
delta-debugging over the list and deterministic replay possible).

``mutate(root, rng, n)`` draws and applies ``n`` mutations and returns the list of those that were
applied.  ``canary_locations(root)`` rewrites every external-data location so that it contains a
unique canary token (``CANARY``); every location invented by a mutation contains one too, so any
path seen by a file-access observer that contains the token is a witness on its own.

Mutation kinds (``KINDS``):

  names       dangling_input dangling_output dup_name empty_name io_alias init_like shadow_outer
              redeclare_output shadow_scope (consistent: definition and all references, often with a
              sharding annotation on the shadowed operand) autoname (values/nodes consistently renamed to the
              library's own val_<n> / node_<op>_<n> scheme) unname (a definition loses its name)
              empty_run (a whole run of one repeated name field emptied: all / trailing / leading / all but one,
              the list first lengthened to 2-4 entries half of the time; every repeated string field and every
              repeated message field with a name, by reflection)
  structure   shuffle_nodes cyclic_nodes self_loop deep_nesting recursive_function dup_function
              dup_attr dup_keyed copy_across outer_output drop_producer late_reject
  types/enums missing_type unknown_enum attr_type_mismatch unsupported
  payload     invalid_utf8 dims_mismatch multi_storage external_absurd
  references  ref_attr_outside device_unknown exp_value_info ir_version
  generic     drop_field dup_element swap_elements scalar_extreme
  bytes       byte_flip byte_insert byte_delete byte_dup byte_append_field
"""

from __future__ import annotations

import random
from typing import Callable, Iterator

import onnx
from google.protobuf.descriptor import FieldDescriptor as _FD
from google.protobuf.message import DecodeError, EncodeError, Message

__all__ = ["CANARY", "KINDS", "BYTE_KINDS", "apply", "mutate", "canary_locations", "external_locations",
           "default_weights"]

CANARY = "vfC17canary"
AP = onnx.AttributeProto
TP = onnx.TensorProto

_MAX_WALK = 30000


# ---- reflection helpers -----------------------------------------------------------------------------


def _rep(fd) -> bool:
    rep = getattr(fd, "is_repeated", None)
    if rep is None:
        return fd.label == _FD.LABEL_REPEATED
    return rep() if callable(rep) else bool(rep)


def walk(root: Message) -> Iterator[Message]:
    """Every message of the tree (document order, iterative, bounded)."""
    stack = [root]
    seen = 0
    while stack:
        msg = stack.pop()
        yield msg
        seen += 1
        if seen > _MAX_WALK:
            return
        children = []
        for fd, value in msg.ListFields():
            if fd.message_type is None:
                continue
            if _rep(fd):
                children.extend(value)
            else:
                children.append(value)
        stack.extend(reversed(children))


def nesting_depth(root: Message) -> int:
    """Largest number of message levels below ``root`` (iterative, bounded like ``walk``)."""
    best = 0
    stack = [(root, 0)]
    seen = 0
    while stack:
        msg, d = stack.pop()
        seen += 1
        if d > best:
            best = d
        if seen > _MAX_WALK:
            break
        for fd, value in msg.ListFields():
            if fd.message_type is None:
                continue
            if _rep(fd):
                stack.extend((v, d + 1) for v in value)
            else:
                stack.append((value, d + 1))
    return best


def of_type(root: Message, name: str) -> list:
    return [m for m in walk(root) if m.DESCRIPTOR.name == name]


def containers(root: Message) -> list:
    """GraphProto and FunctionProto messages (things that own a node list)."""
    return [m for m in walk(root) if m.DESCRIPTOR.name in ("GraphProto", "FunctionProto")]


def _is_graph(c) -> bool:
    return c.DESCRIPTOR.name == "GraphProto"


def _names_defined(c) -> list[str]:
    """Names a container defines: inputs, initializers, node outputs."""
    out = []
    if _is_graph(c):
        out += [v.name for v in c.input]
        out += [t.name for t in c.initializer]
    else:
        out += list(c.input)
    for n in c.node:
        out += [o for o in n.output if o]
    return [x for x in out if isinstance(x, str) and x]


def scoped_graphs(root: Message) -> list[tuple[Message, list]]:
    """(subgraph, [enclosing containers, outermost first]) for every GraphProto nested in a node attribute."""
    out: list[tuple[Message, list]] = []
    tops = []
    name = root.DESCRIPTOR.name
    if name == "ModelProto":
        tops = [root.graph, *root.functions]
    elif name in ("GraphProto", "FunctionProto"):
        tops = [root]
    elif name == "NodeProto":
        for a in root.attribute:
            subs = ([a.g] if a.HasField("g") else []) + list(a.graphs)
            tops.extend(subs)
    elif name == "AttributeProto":
        tops = ([root.g] if root.HasField("g") else []) + list(root.graphs)
    stack = [(t, []) for t in tops]
    count = 0
    while stack and count < 5000:
        c, chain = stack.pop()
        count += 1
        for n in c.node:
            for a in n.attribute:
                subs = ([a.g] if a.HasField("g") else []) + list(a.graphs)
                for g in subs:
                    out.append((g, chain + [c]))
                    stack.append((g, chain + [c]))
    return out


def _fresh(rng, prefix="zz") -> str:
    return f"{prefix}_{rng.randrange(10**6)}"


def _reorder(field, order: list[int]) -> None:
    cls = type(field[0])
    copies = []
    for i in order:
        c = cls()
        c.CopyFrom(field[i])
        copies.append(c)
    del field[:]
    field.extend(copies)


def _nodes_with_output(c) -> list[int]:
    return [i for i, n in enumerate(c.node) if any(o for o in n.output)]


def _an_output(n, rng) -> str:
    return rng.choice([o for o in n.output if o])


def _tiny_tensor(t, name: str, rng) -> None:
    t.name = name
    t.data_type = rng.choice((1, 6, 7))
    t.dims.append(2)
    if t.data_type == 1:
        t.float_data.extend([1.0, 2.0])
    elif t.data_type == 6:
        t.int32_data.extend([1, 2])
    else:
        t.raw_data = bytes(16)


# ---- names ------------------------------------------------------------------------------------------


def m_dangling_input(root, rng):
    nodes = of_type(root, "NodeProto")
    if not nodes:
        return None
    n = rng.choice(nodes)
    name = _fresh(rng, "nowhere")
    if n.input and rng.random() < 0.7:
        n.input[rng.randrange(len(n.input))] = name
    else:
        n.input.append(name)
    return f"node {n.op_type!r} reads undefined {name!r}"


def m_dangling_output(root, rng):
    cs = containers(root)
    if not cs:
        return None
    c = rng.choice(cs)
    name = _fresh(rng, "noproducer")
    if _is_graph(c):
        if c.output and rng.random() < 0.5:
            c.output[rng.randrange(len(c.output))].name = name
        else:
            vi = c.output.add()
            vi.name = name
            if rng.random() < 0.5:
                vi.type.tensor_type.elem_type = 1
    else:
        if c.output and rng.random() < 0.5:
            c.output[rng.randrange(len(c.output))] = name
        else:
            c.output.append(name)
    return f"{c.DESCRIPTOR.name} output {name!r} has no producer"


def m_dup_name(root, rng):
    cs = containers(root)
    rng.shuffle(cs)
    for c in cs:
        fields = ["input", "output"] + (["initializer", "value_info"] if _is_graph(c) else ["value_info"])
        fields = [f for f in fields if len(getattr(c, f))]
        if not fields:
            continue
        f = rng.choice(fields)
        lst = getattr(c, f)
        i = rng.randrange(len(lst))
        scalar = not _is_graph(c) and f in ("input", "output")
        if len(lst) >= 2 and rng.random() < 0.5:
            j = rng.choice([k for k in range(len(lst)) if k != i])
            if scalar:
                lst[j] = lst[i]
            else:
                lst[j].name = lst[i].name
            return f"{c.DESCRIPTOR.name}.{f}[{j}] renamed to the name of [{i}]"
        if scalar:
            lst.append(lst[i])
        else:
            e = lst.add()
            e.CopyFrom(lst[i])
            if f == "initializer" and rng.random() < 0.5:
                e.dims.append(1)  # same name, different tensor
        return f"{c.DESCRIPTOR.name}.{f}[{i}] duplicated"
    return None


def m_empty_name(root, rng):
    sites: list[tuple] = []
    for m in walk(root):
        t = m.DESCRIPTOR.name
        if t == "GraphProto":
            for f in ("input", "output", "value_info", "initializer"):
                sites += [("name", e) for e in getattr(m, f)]
            sites += [("tensor_name", q) for q in m.quantization_annotation]
        elif t == "FunctionProto":
            sites += [("idx", m.input, i) for i in range(len(m.input))]
            sites += [("idx", m.output, i) for i in range(len(m.output))]
            sites.append(("name", m))
        elif t == "NodeProto":
            sites += [("idx", m.input, i) for i in range(len(m.input))]
            sites += [("idx", m.output, i) for i in range(len(m.output))]
            sites += [("name", a) for a in m.attribute]
            sites.append(("op_type", m))
        elif t == "TensorProto" or t == "ValueInfoProto":
            sites.append(("name", m))
    if not sites:
        return None
    s = rng.choice(sites)
    if s[0] == "idx":
        s[1][s[2]] = ""
        return "an input/output name emptied"
    setattr(s[1], s[0], "")
    return f"{s[1].DESCRIPTOR.name}.{s[0]} emptied"


_NAME_SUBFIELDS = ("name", "tensor_name", "key", "domain", "configuration_id")
_RUN_MODES = ("all", "all", "all", "trailing", "trailing", "leading", "all_but_one")


def _name_list_sites(root) -> dict[tuple[str, str], list[tuple]]:
    """Every repeated field that carries names, found by reflection and grouped by (message type, field):
    repeated string fields (NodeProto.input/output, FunctionProto.input/output/attribute, device lists ...) and
    repeated message fields whose elements have a string ``name`` / ``tensor_name`` / ``key`` / ``domain``
    (graph inputs/outputs/initializers/value infos, nodes, attributes, functions, opset imports, metadata ...)."""
    groups: dict[tuple[str, str], list[tuple]] = {}
    for m in walk(root):
        for fd in m.DESCRIPTOR.fields:
            if not _rep(fd):
                continue
            sub = None
            if fd.message_type is not None:
                sub = next((s for s in _NAME_SUBFIELDS if s in fd.message_type.fields_by_name
                            and fd.message_type.fields_by_name[s].type == _FD.TYPE_STRING
                            and not _rep(fd.message_type.fields_by_name[s])), None)
                if sub is None:
                    continue
            elif fd.type != _FD.TYPE_STRING:
                continue
            lst = getattr(m, fd.name)
            if len(lst):
                groups.setdefault((m.DESCRIPTOR.name, fd.name), []).append((m, fd, sub))
    return groups


def m_empty_run(root, rng):
    """Degenerate repeated name fields: a whole RUN of one list of names is emptied - all of them, a trailing or
    leading run, or all but one - after the list was (half of the time) lengthened to 2-4 entries.  A node none of
    whose outputs / inputs is named, a graph all of whose inputs / outputs / initializers / value infos are
    unnamed, a function with only empty parameter names, attributes all named ''."""
    groups = _name_list_sites(root)
    if not groups:
        return None
    r = rng.random()
    operands = [k for k in (("NodeProto", "input"), ("NodeProto", "output")) if k in groups]
    if r < 0.4 and operands:  # operand lists of nodes: where ONNX itself allows '' (optional operands) ...
        m, fd, sub = rng.choice(groups[rng.choice(operands)])
    elif r < 0.7:  # ... every kind of list gets its share ...
        m, fd, sub = rng.choice(groups[rng.choice(sorted(groups))])
    else:  # ... and so does every single list
        m, fd, sub = rng.choice([s for k in sorted(groups) for s in groups[k]])
    lst = getattr(m, fd.name)
    padded = 0
    if len(lst) < 4 and (len(lst) < 2 or rng.random() < 0.5) and rng.random() < 0.8:
        for _ in range(rng.randint(1, 4 - len(lst))):
            if sub is None:
                lst.append("")
            else:
                src = lst[rng.randrange(len(lst))]
                if src.ByteSize() > 4000:
                    lst.add()
                else:
                    lst.add().CopyFrom(src)
            padded += 1
    n = len(lst)
    mode = rng.choice(_RUN_MODES)
    if mode == "all" or n == 1:
        idx = list(range(n))
        mode = "all"
    elif mode == "trailing":
        idx = list(range(rng.randint(1, n - 1), n))
    elif mode == "leading":
        idx = list(range(0, rng.randint(1, n - 1)))
    else:
        keep = rng.randrange(n)
        idx = [i for i in range(n) if i != keep]
    for i in idx:
        if sub is None:
            lst[i] = ""
        else:
            setattr(lst[i], sub, "")
    return (f"{m.DESCRIPTOR.name}.{fd.name}{'' if sub is None else '[].' + sub}: {len(idx)} of {n} entries emptied ({mode})"
            + (f" after {padded} entries were appended" if padded else ""))


def all_empty_lists(root) -> list[str]:
    """'Type.field' of every repeated name field of the message tree that has >= 2 entries, all of them empty."""
    out = set()
    for key, sites in _name_list_sites(root).items():
        for m, fd, sub in sites:
            lst = getattr(m, fd.name)
            if len(lst) >= 2 and not any((e if sub is None else getattr(e, sub)) for e in lst):
                out.add(f"{key[0]}.{key[1]}")
                break
    return sorted(out)


def m_io_alias(root, rng):
    gs = [c for c in containers(root) if _is_graph(c)]
    if not gs:
        return None
    g = rng.choice(gs)
    outs = [o for n in g.node for o in n.output if o]
    r = rng.random()
    if r < 0.4 and outs:
        vi = g.input.add()
        vi.name = rng.choice(outs)
        return f"graph input named like node output {vi.name!r}"
    if r < 0.7 and g.input:
        vi = g.output.add()
        vi.CopyFrom(rng.choice(list(g.input)))
        return f"graph output aliases input {vi.name!r}"
    if g.input and outs:
        rng.choice(list(g.input)).name = rng.choice(outs)
        return "graph input renamed to a node output"
    return None


def m_init_like(root, rng):
    gs = [c for c in containers(root) if _is_graph(c)]
    rng.shuffle(gs)
    for g in gs:
        pools = {
            "input": [v.name for v in g.input if v.name],
            "node-output": [o for n in g.node for o in n.output if o],
            "output": [v.name for v in g.output if v.name],
            "initializer": [t.name for t in g.initializer if t.name],
        }
        pools = {k: v for k, v in pools.items() if v}
        if not pools:
            continue
        which = rng.choice(sorted(pools))
        name = rng.choice(pools[which])
        if g.initializer and rng.random() < 0.6:
            cands = [t for t in g.initializer if t.name != name] or list(g.initializer)
            rng.choice(cands).name = name
        else:
            _tiny_tensor(g.initializer.add(), name, rng)
        return f"initializer named like {which} {name!r}"
    return None


def m_shadow_outer(root, rng):
    sg = [(g, chain) for g, chain in scoped_graphs(root) if chain]
    rng.shuffle(sg)
    for g, chain in sg:
        outer = [x for c in chain for x in _names_defined(c)]
        if not outer:
            continue
        name = rng.choice(outer)
        r = rng.random()
        if r < 0.3 and g.input:
            rng.choice(list(g.input)).name = name
            return f"subgraph input shadows outer {name!r}"
        if r < 0.5 and g.initializer:
            rng.choice(list(g.initializer)).name = name
            return f"subgraph initializer shadows outer {name!r}"
        idx = _nodes_with_output(g)
        if r < 0.8 and idx:
            n = g.node[rng.choice(idx)]
            k = rng.choice([i for i, o in enumerate(n.output) if o])
            n.output[k] = name
            return f"subgraph node output shadows outer {name!r}"
        if r < 0.9:
            g.input.add().name = name
            return f"subgraph input added shadowing outer {name!r}"
        vi = g.output.add()
        vi.name = name
        return f"subgraph output names outer {name!r}"
    return None


_HAS_NODE_DEVICE_CONFIG = hasattr(onnx.NodeProto(), "device_configurations")


def _node_subgraphs(n) -> list:
    out = []
    for a in n.attribute:
        if a.HasField("g"):
            out.append(a.g)
        out.extend(a.graphs)
    return out


def _rename_in_scope(g, old: str, new: str) -> int:
    """Rename ``old`` to ``new`` everywhere the name resolves in the scope of graph ``g``: its definition
    (input, initializer, node output) and every by-name reference to it (node inputs, graph outputs,
    value_info, quantization annotations, sharding specs of node device configurations), including captures
    in nested subgraphs that do not define the name themselves.  Returns the number of renamed fields."""
    renamed = 0
    stack = [g]
    visited = 0
    while stack and visited < 2000:
        c = stack.pop()
        visited += 1
        own = c is g
        if not own and old in _names_defined(c):
            continue  # re-defined further in: references there bind to the inner definition
        if own:
            for v in c.input:
                if v.name == old:
                    v.name = new
                    renamed += 1
            for t in c.initializer:
                if t.name == old:
                    t.name = new
                    renamed += 1
        for v in list(c.output) + list(c.value_info):
            if v.name == old:
                v.name = new
                renamed += 1
        for q in c.quantization_annotation:
            if q.tensor_name == old:
                q.tensor_name = new
                renamed += 1
            for e in q.quant_parameter_tensor_names:
                if e.value == old:
                    e.value = new
                    renamed += 1
        for n in c.node:
            for i, x in enumerate(n.input):
                if x == old:
                    n.input[i] = new
                    renamed += 1
            if own:
                for i, x in enumerate(n.output):
                    if x == old:
                        n.output[i] = new
                        renamed += 1
            if _HAS_NODE_DEVICE_CONFIG:
                for dc in n.device_configurations:
                    for s in dc.sharding_spec:
                        if s.tensor_name == old:
                            s.tensor_name = new
                            renamed += 1
            stack.extend(_node_subgraphs(n))
    return renamed


def _annotate_operand(root, n, name: str, rng) -> str:
    """Give node ``n`` a well-formed device configuration whose sharding spec names its operand ``name``
    (the configuration id is one the model declares; a model without configurations gets one)."""
    ids = ["mesh2"]
    if root.DESCRIPTOR.name == "ModelProto":
        ids = [c.name for c in root.configuration if c.name]
        if not ids:
            c = root.configuration.add()
            c.name = "mesh2"
            c.num_devices = 2
            ids = [c.name]
        if root.ir_version < 11 and rng.random() < 0.8:
            root.ir_version = rng.choice((11, 11, 12, 13))
    dc = None
    existing = [d for d in n.device_configurations if not any(s.tensor_name == name for s in d.sharding_spec)]
    if existing and rng.random() < 0.5:
        dc = rng.choice(existing)
    if dc is None:
        used = {d.configuration_id for d in n.device_configurations}
        dc = n.device_configurations.add()
        dc.configuration_id = rng.choice([i for i in ids if i not in used] or ids)
        if rng.random() < 0.4:
            dc.pipeline_stage = rng.randint(0, 3)
    s = dc.sharding_spec.add()
    s.tensor_name = name
    s.device.extend(range(rng.randint(0, 2)))
    if rng.random() < 0.7:
        d = s.sharded_dim.add()
        d.axis = rng.choice((0, 0, 1, -1))
        ss = d.simple_sharding.add()
        if rng.random() < 0.6:
            ss.dim_value = rng.choice((2, 4, 1024))
        ss.num_shards = rng.choice((1, 2, 2, 4))
    return f"node {n.name or n.op_type!r} shards its operand under configuration {dc.configuration_id!r}"


def m_shadow_scope(root, rng):
    """A subgraph legitimately re-declares a name of an enclosing scope (a Loop/Scan-like body whose own
    input, initializer or node output is called like an outer value): one of the names the subgraph defines is
    renamed CONSISTENTLY (definition and every reference that resolves to it) to a name an enclosing
    container defines.  Often a node of the subgraph that reads or writes the name also carries a device
    configuration whose sharding spec refers to it, so that every kind of by-name reference meets the
    shadowed name."""
    sg = [(g, chain) for g, chain in scoped_graphs(root) if chain]
    rng.shuffle(sg)
    for g, chain in sg[:60]:
        own = list(dict.fromkeys(_names_defined(g)))
        if not own:
            continue
        outer = list(dict.fromkeys(x for c in chain for x in _names_defined(c) if x not in own))
        if not outer:
            continue
        annotated = []
        if _HAS_NODE_DEVICE_CONFIG:
            annotated = [s.tensor_name for n in g.node for dc in n.device_configurations for s in dc.sharding_spec
                         if s.tensor_name in own]
        used = [x for x in own if any(x in n.input for n in g.node)]
        r = rng.random()
        if annotated and r < 0.5:
            old = rng.choice(annotated)
        elif used and r < 0.85:
            old = rng.choice(used)
        else:
            old = rng.choice(own)
        # prefer the nearest enclosing scope's names and names the subgraph does not capture
        near = [x for x in dict.fromkeys(_names_defined(chain[-1])) if x not in own]
        new = rng.choice(near) if near and rng.random() < 0.5 else rng.choice(outer)
        role = ("input" if any(v.name == old for v in g.input) else
                "initializer" if any(t.name == old for t in g.initializer) else "node output")
        _rename_in_scope(g, old, new)
        what = f"subgraph (depth {len(chain)}) {role} {old!r} consistently renamed to the outer name {new!r}"
        if _HAS_NODE_DEVICE_CONFIG and rng.random() < 0.65:
            users = [n for n in g.node if new in n.input or new in n.output]
            if users:
                what += "; " + _annotate_operand(root, rng.choice(users), new, rng)
        return what
    return None


def shadowed_sharding_specs(root) -> int:
    """Number of sharding specs on nodes inside subgraphs that name an operand of their node which is
    defined in two or more of the scopes visible there (harness-side reach measure; no onnx_ir involved)."""
    if not _HAS_NODE_DEVICE_CONFIG:
        return 0
    total = 0
    for g, chain in scoped_graphs(root):
        if not chain or len(chain) > 40:
            continue
        specs = [(n, s.tensor_name) for n in g.node for dc in n.device_configurations for s in dc.sharding_spec
                 if s.tensor_name and (s.tensor_name in n.input or s.tensor_name in n.output)]
        if not specs:
            continue
        scopes = [set(_names_defined(c)) for c in (*chain, g)]
        for _n, name in specs:
            if sum(1 for sc in scopes if name in sc) >= 2:
                total += 1
    return total


# ---- names of the library's own naming scheme; definitions that lose their name ---------------------------


def _rename_in_container(c, old: str, new: str) -> int:
    """``_rename_in_scope`` for graphs AND functions: the definition of ``old`` in container ``c`` (input,
    initializer, node output) and every by-name reference that resolves to it, captures of nested subgraphs
    included, become ``new``."""
    renamed = 0
    stack = [c]
    visited = 0
    while stack and visited < 2000:
        s = stack.pop()
        visited += 1
        own = s is c
        if not own and old in _names_defined(s):
            continue
        graph = _is_graph(s)
        if own:
            if graph:
                for v in s.input:
                    if v.name == old:
                        v.name = new
                        renamed += 1
                for t in s.initializer:
                    if t.name == old:
                        t.name = new
                        renamed += 1
            else:
                for i, x in enumerate(s.input):
                    if x == old:
                        s.input[i] = new
                        renamed += 1
        if graph:
            for v in list(s.output) + list(s.value_info):
                if v.name == old:
                    v.name = new
                    renamed += 1
            for q in s.quantization_annotation:
                if q.tensor_name == old:
                    q.tensor_name = new
                    renamed += 1
                for e in q.quant_parameter_tensor_names:
                    if e.value == old:
                        e.value = new
                        renamed += 1
        else:
            for i, x in enumerate(s.output):
                if x == old:
                    s.output[i] = new
                    renamed += 1
            for v in getattr(s, "value_info", ()):
                if v.name == old:
                    v.name = new
                    renamed += 1
        for n in s.node:
            for i, x in enumerate(n.input):
                if x == old:
                    n.input[i] = new
                    renamed += 1
            if own:
                for i, x in enumerate(n.output):
                    if x == old:
                        n.output[i] = new
                        renamed += 1
            if _HAS_NODE_DEVICE_CONFIG:
                for dc in n.device_configurations:
                    for sp in dc.sharding_spec:
                        if sp.tensor_name == old:
                            sp.tensor_name = new
                            renamed += 1
            stack.extend(_node_subgraphs(n))
    return renamed


_AUTONAME_ROLES = (
    ("node-output",), ("node-output",), ("node-output",), ("node-output", "initializer"),
    ("input", "initializer", "node-output"), ("input", "node-output"), ("input",), ("initializer",),
)


def _autoname_container(c, rng) -> int:
    """Give definitions of container ``c`` names of the library's own scheme (``val_<n>`` for values, as the IR's
    name authority generates them; ``node_<op_type>_<n>`` for nodes), consistently.  Returns the number of values
    renamed."""
    graph = _is_graph(c)
    roles = {
        "input": [v.name for v in c.input] if graph else list(c.input),
        "initializer": [t.name for t in c.initializer] if graph else [],
        "node-output": [o for n in c.node for o in n.output],
    }
    pick = rng.choice(_AUTONAME_ROLES)
    olds = list(dict.fromkeys(x for r in pick for x in roles[r] if x))
    if len(olds) > 48:
        keep = set(rng.sample(range(len(olds)), 48))
        olds = [x for i, x in enumerate(olds) if i in keep]
    r = rng.random()
    if r < 0.55:
        numbers = list(range(len(olds)))  # the order in which a name authority starting at 0 hands them out
    elif r < 0.8:
        numbers = list(range(len(olds) + 2))
        rng.shuffle(numbers)
    else:
        start = rng.choice((1, 2, 10))
        numbers = list(range(start, start + len(olds)))
    taken = set(_names_defined(c)) - set(olds)
    pairs = [(o, f"val_{k}") for o, k in zip(olds, numbers) if f"val_{k}" not in taken]
    for i, (o, _new) in enumerate(pairs):
        _rename_in_container(c, o, f"__vf_tmp_{i}__")
    for i, (_o, new) in enumerate(pairs):
        _rename_in_container(c, f"__vf_tmp_{i}__", new)
    r = rng.random()
    if r < 0.5:
        for k, n in enumerate(c.node):
            n.name = f"node_{n.op_type}_{k}"
    elif r < 0.65:
        for n in c.node:
            n.ClearField("name")
    return len(pairs)


def m_autoname(root, rng):
    """The proto uses the names the library itself would generate (as every model it produced does): in one
    container, or in all of them, values are renamed consistently to ``val_<n>`` and nodes to
    ``node_<op_type>_<n>``.  The proto stays as valid as it was; what changes is that any name the library
    invents while deserializing now meets a declared one."""
    cs = containers(root)
    if not cs:
        return None
    rng.shuffle(cs)
    if rng.random() < 0.5:
        total = sum(_autoname_container(c, rng) for c in cs[:40])
        return f"{total} value(s) in {min(len(cs), 40)} container(s) renamed to library-style val_<n> names" if total else None
    for c in cs[:20]:
        n = _autoname_container(c, rng)
        if n:
            return f"{n} value(s) of one {c.DESCRIPTOR.name} renamed to library-style val_<n> names"
    return None


def m_unname(root, rng):
    """A definition loses its name (empty string or field cleared): a graph/function input, an initializer, a
    node output, a node, a graph.  References to it are left alone."""
    cats: dict[str, list] = {}
    for m in walk(root):
        t = m.DESCRIPTOR.name
        if t == "GraphProto":
            cats.setdefault("graph input", []).extend(("name", e) for e in m.input)
            cats.setdefault("initializer", []).extend(("name", e) for e in m.initializer)
            cats.setdefault("graph", []).append(("name", m))
        elif t == "FunctionProto":
            cats.setdefault("function input", []).extend(("idx", m.input, i) for i in range(len(m.input)))
        elif t == "NodeProto":
            cats.setdefault("node output", []).extend(("idx", m.output, i) for i in range(len(m.output)))
            cats.setdefault("node", []).append(("name", m))
    cats = {k: v for k, v in cats.items() if v}
    if not cats:
        if root.DESCRIPTOR.name in ("ValueInfoProto", "TensorProto") and root.name:
            root.ClearField("name")
            return f"{root.DESCRIPTOR.name} lost its name"
        return None
    names = sorted(cats)
    weights = [3.0 if k in ("graph input", "function input", "node output", "initializer") else 1.0 for k in names]
    cat = rng.choices(names, weights)[0]
    s = rng.choice(cats[cat])
    if s[0] == "idx":
        s[1][s[2]] = ""
    elif rng.random() < 0.5:
        s[1].name = ""
    else:
        s[1].ClearField("name")
    return f"a {cat} lost its name"


def m_redeclare_output(root, rng):
    cs = [c for c in containers(root) if _nodes_with_output(c)]
    if not cs:
        return None
    c = rng.choice(cs)
    idx = _nodes_with_output(c)
    a = c.node[rng.choice(idx)]
    name = _an_output(a, rng)
    if len(idx) >= 2 and rng.random() < 0.75:
        b = c.node[rng.choice(idx)]
        if rng.random() < 0.5 and b.output:
            b.output[rng.randrange(len(b.output))] = name
        else:
            b.output.append(name)
    else:
        a.output.append(name)
    return f"output {name!r} declared twice in one {c.DESCRIPTOR.name}"


# ---- structure --------------------------------------------------------------------------------------


def m_shuffle_nodes(root, rng):
    cs = [c for c in containers(root) if len(c.node) >= 2]
    if not cs:
        return None
    c = rng.choice(cs)
    order = list(range(len(c.node)))
    if rng.random() < 0.4:
        order.reverse()
    else:
        while order == list(range(len(c.node))):
            rng.shuffle(order)
    _reorder(c.node, order)
    return f"{len(order)} nodes reordered"


def m_cyclic_nodes(root, rng):
    cs = [c for c in containers(root) if len(_nodes_with_output(c)) >= 2]
    if not cs:
        return None
    c = rng.choice(cs)
    idx = _nodes_with_output(c)
    k = 3 if len(idx) >= 3 and rng.random() < 0.3 else 2
    ring = rng.sample(idx, k)
    for a, b in zip(ring, ring[1:] + ring[:1]):
        c.node[b].input.append(_an_output(c.node[a], rng))
    return f"{k}-cycle through node outputs"


def m_self_loop(root, rng):
    nodes = [n for n in of_type(root, "NodeProto") if any(o for o in n.output)]
    if not nodes:
        return None
    n = rng.choice(nodes)
    name = _an_output(n, rng)
    if n.input and rng.random() < 0.5:
        n.input[rng.randrange(len(n.input))] = name
    else:
        n.input.append(name)
    return f"node consumes its own output {name!r}"


def _host_node(root, rng):
    nodes = of_type(root, "NodeProto")
    if nodes:
        return rng.choice(nodes)
    cs = containers(root)
    if cs:
        n = rng.choice(cs).node.add()
        n.op_type = "If"
        n.output.append(_fresh(rng))
        return n
    if root.DESCRIPTOR.name == "ModelProto":
        n = root.graph.node.add()
        n.op_type = "If"
        n.output.append(_fresh(rng))
        return n
    return None


# nesting depths of a type: small ones stay below protobuf's parse recursion limit (a TypeProto level costs two
# message levels: 47 levels fit into a model that arrives as bytes), the large ones exist only in memory
_TYPE_DEPTHS = (3, 8, 16, 22, 26, 30, 36, 40, 47, 120, 340, 560)
_TYPE_PATTERNS = ("mixed", "mixed", "seq", "opt", "alt", "random")


def _wrap_type(tp, depth: int, pattern: str, rng) -> None:
    """Wrap the type ``tp`` (in place) into ``depth`` levels of sequence/optional (rarely one map level)."""
    inner = onnx.TypeProto()
    inner.CopyFrom(tp)
    tp.Clear()
    cur = tp
    map_at = rng.randrange(depth) if rng.random() < 0.06 else -1
    for i in range(depth):
        if i == map_at:
            cur.map_type.key_type = TP.INT64
            cur = cur.map_type.value_type
            continue
        if pattern == "seq":
            opt = False
        elif pattern == "opt":
            opt = True
        elif pattern == "alt":
            opt = i % 2 == 0
        elif pattern == "random":
            opt = rng.random() < 0.5
        else:
            opt = not (i + depth) % 3
        cur = (cur.optional_type if opt else cur.sequence_type).elem_type
    cur.CopyFrom(inner)


def m_deep_nesting(root, rng):
    r = rng.random()
    if r < 0.45:
        leaves = of_type(root, "TypeProto")
        where = ""
        if not leaves or rng.random() < 0.15:
            # no type anywhere (or, sometimes, anyway): a type-valued attribute on a node carries the deep type
            nodes = of_type(root, "NodeProto")
            if nodes:
                a = rng.choice(nodes).attribute.add()
                a.name = _fresh(rng, "ty")
                if rng.random() < 0.5:
                    a.type = AP.TYPE_PROTO
                    t = a.tp
                else:
                    a.type = AP.TYPE_PROTOS
                    t = a.type_protos.add()
                t.tensor_type.elem_type = TP.FLOAT
                leaves = [t]
                where = " (new type attribute)"
        if leaves:
            tp = rng.choice(leaves)
            depth = rng.choice(_TYPE_DEPTHS)
            pattern = rng.choice(_TYPE_PATTERNS)
            _wrap_type(tp, depth, pattern, rng)
            return f"type wrapped {depth} levels deep ({pattern}){where}"
    host = _host_node(root, rng)
    if host is None:
        if root.DESCRIPTOR.name == "AttributeProto":
            a = root
            for f in ("f", "i", "s", "t", "g", "tp", "floats", "ints", "strings", "tensors", "graphs", "type_protos"):
                a.ClearField(f)
        else:
            return None
    else:
        a = host.attribute.add()
        a.name = _fresh(rng, "body")
    # 24 graph levels are the most that still parse from bytes (a graph level costs four message levels)
    depth = rng.choice((3, 12, 23, 40, 90, 150, 300))
    many = rng.random() < 0.3
    outer_name = host.input[0] if host is not None and host.input else "outer_x"
    if many:
        a.type = AP.GRAPHS
        cur = a.graphs.add()
    else:
        a.type = AP.GRAPH
        cur = a.g
    typed = rng.random() < 0.3  # every level declares its output with a (small) nested type
    for level in range(depth):
        cur.name = f"deep{level}"
        n = cur.node.add()
        n.op_type = "If"
        n.input.append(outer_name)
        n.output.append(f"d{level}")
        vi = cur.output.add()
        vi.name = f"d{level}"
        if typed:
            vi.type.tensor_type.elem_type = TP.FLOAT
            _wrap_type(vi.type, 1 + level % 3, "alt", rng)
        b = n.attribute.add()
        b.name = "then_branch"
        b.type = AP.GRAPH
        cur = b.g
    cur.name = "innermost"
    n = cur.node.add()
    n.op_type = "Identity"
    n.input.append(outer_name)
    n.output.append("leaf")
    cur.output.add().name = "leaf"
    return f"graph attribute nested {depth} levels deep"


def m_recursive_function(root, rng):
    fs = of_type(root, "FunctionProto")
    if not fs:
        return None
    f = rng.choice(fs)
    g = rng.choice(fs) if len(fs) >= 2 and rng.random() < 0.4 else f

    def call(src, dst):
        n = src.node.add()
        n.op_type = dst.name
        n.domain = dst.domain
        if dst.overload:
            n.overload = dst.overload
        n.input.extend(list(src.input)[: len(dst.input)])
        n.output.extend(_fresh(rng, "rec") for _ in range(max(1, len(dst.output))))
        if rng.random() < 0.5 and len(src.node) > 1:
            _reorder(src.node, [len(src.node) - 1] + list(range(len(src.node) - 1)))

    call(f, g)
    if g is not f:
        call(g, f)
    return "function calls itself" if g is f else "two functions call each other"


def m_dup_function(root, rng):
    if root.DESCRIPTOR.name != "ModelProto" or not root.functions:
        return None
    src = rng.choice(list(root.functions))
    if len(root.functions) >= 2 and rng.random() < 0.4:
        other = rng.choice([f for f in root.functions if f is not src] or [src])
        other.name, other.domain, other.overload = src.name, src.domain, src.overload
        return "two functions share one identifier"
    f = root.functions.add()
    f.CopyFrom(src)
    if rng.random() < 0.5:
        f.doc_string = "second definition"
    return "function defined twice"


def m_dup_attr(root, rng):
    nodes = [n for n in of_type(root, "NodeProto") if n.attribute]
    if not nodes:
        return None
    carriers = [n for n in nodes if any(a.HasField("g") or len(a.graphs) for a in n.attribute)]
    if carriers and rng.random() < 0.5:
        # the repeated name is that of an attribute carrying subgraph(s): the earlier occurrence is shadowed
        n = rng.choice(carriers)
        src = rng.choice([a for a in n.attribute if a.HasField("g") or len(a.graphs)])
    else:
        n = rng.choice(nodes)
        src = rng.choice(list(n.attribute))
    a = n.attribute.add()
    if rng.random() < 0.5:
        a.CopyFrom(src)
    else:
        a.name = src.name
        a.type = AP.INT
        a.i = 7
    kind = " (GRAPH)" if src.HasField("g") else " (GRAPHS)" if len(src.graphs) else ""
    return f"attribute {src.name!r}{kind} given twice"


def m_dup_keyed(root, rng):
    sites = []
    for m in walk(root):
        for fd, value in m.ListFields():
            if fd.name in ("metadata_props", "opset_import", "quant_parameter_tensor_names", "quantization_annotation",
                           "configuration") and len(value):
                sites.append((fd.name, value))
    if not sites:
        return None
    name, lst = rng.choice(sites)
    e = lst.add()
    e.CopyFrom(rng.choice(list(lst)[:-1]))
    if name == "opset_import":
        e.version = e.version + rng.choice((1, -1, 100))
    elif hasattr(e, "value") and isinstance(e.value, str):
        e.value = e.value + "_second"
    return f"{name} key repeated"


def m_copy_across(root, rng):
    by_type: dict[str, list] = {}
    for m in walk(root):
        if m is root:
            continue
        by_type.setdefault(m.DESCRIPTOR.name, []).append(m)
    names = sorted(k for k, v in by_type.items() if len(v) >= 2 and k in
                   ("GraphProto", "NodeProto", "TensorProto", "ValueInfoProto", "TypeProto", "AttributeProto", "FunctionProto"))
    if root.DESCRIPTOR.name == "ModelProto" and by_type.get("GraphProto"):
        names.append("GraphProto")
    if not names:
        return None
    t = rng.choice(names)
    pool = by_type[t]
    src = rng.choice(pool)
    if src.ByteSize() > 30000:
        return None
    dst = rng.choice([m for m in pool if m is not src] or pool)
    tmp = type(src)()
    tmp.CopyFrom(src)
    dst.CopyFrom(tmp)
    return f"a {t} overwritten with a copy of another one"


def _outer_node_outputs(chain) -> list[str]:
    """Node-output names of the enclosing containers, those that are not graph outputs there first."""
    plain, listed = [], []
    for c in chain:
        outs = {(v.name if _is_graph(c) else v) for v in c.output}
        for n in c.node:
            for o in n.output:
                if isinstance(o, str) and o:
                    (listed if o in outs else plain).append(o)
    return plain or listed


def m_outer_output(root, rng):
    """A subgraph lists as its output a name it does not define but an enclosing graph's node produces."""
    sg = [(g, chain) for g, chain in scoped_graphs(root) if chain]
    rng.shuffle(sg)
    if sg and rng.random() < 0.7:
        for g, chain in sg:
            own = set(_names_defined(g))
            pool = [x for x in _outer_node_outputs(chain) if x not in own]
            if not pool:
                continue
            name = rng.choice(pool)
            if g.output and rng.random() < 0.6:
                rng.choice(list(g.output)).name = name
            else:
                vi = g.output.add()
                vi.name = name
                if rng.random() < 0.6:
                    vi.type.tensor_type.elem_type = rng.choice((1, 7, 10))
                    vi.type.tensor_type.shape.dim.add().dim_value = 5
            return f"subgraph (depth {len(chain)}) output names outer node output {name!r}"
    # no suitable subgraph: build one (depth 1 or 2, GRAPH or GRAPHS) under a node of a container that has node outputs
    cs = [c for c in containers(root) if _nodes_with_output(c)]
    if not cs:
        return None
    c = rng.choice(cs)
    idx = _nodes_with_output(c)
    src = rng.choice(idx)
    name = _an_output(c.node[src], rng)
    later = [i for i in range(len(c.node)) if i > src]
    host = c.node[rng.choice(later)] if later and rng.random() < 0.8 else c.node.add()
    if not host.op_type:
        host.op_type = "If"
        host.output.append(_fresh(rng, "cond"))
    depth = rng.choice((1, 1, 2))
    a = host.attribute.add()
    a.name = _fresh(rng, "branch")
    for level in range(depth):
        if rng.random() < 0.5:
            a.type = AP.GRAPH
            g = a.g
        else:
            a.type = AP.GRAPHS
            g = a.graphs.add()
        g.name = _fresh(rng, "sub")
        n = g.node.add()
        n.op_type = "Identity"
        n.input.append(name)
        local = _fresh(rng, "loc")
        n.output.append(local)
        if level == depth - 1:
            if rng.random() < 0.5:
                g.output.add().name = local
            vi = g.output.add()
            vi.name = name
            if rng.random() < 0.6:
                vi.type.tensor_type.elem_type = rng.choice((1, 7, 10))
        else:
            g.output.add().name = local
            a = n.attribute.add()
            a.name = _fresh(rng, "branch")
    return f"new subgraph (depth {depth}) returns outer node output {name!r}"


def m_drop_producer(root, rng):
    """Remove a node whose outputs are still consumed / returned: their names dangle."""
    cands = []
    for c in containers(root):
        used = {i for n in c.node for i in n.input if i}
        used |= {(v.name if _is_graph(c) else v) for v in c.output}
        for k, n in enumerate(c.node):
            if any(o and o in used for o in n.output):
                cands.append((c, k))
    if not cands:
        return None
    c, k = rng.choice(cands)
    outs = [o for o in c.node[k].output if o]
    del c.node[k]
    return f"producer of {outs[:3]} removed from a {c.DESCRIPTOR.name}"


def m_late_reject(root, rng):
    """Something the deserializer refuses, placed where it is reached only after the scope has been
    filled and the earlier nodes have been built: last node / last output of a top-level container."""
    name = root.DESCRIPTOR.name
    if name == "ModelProto":
        tops = [root.graph] + (list(root.functions) if rng.random() < 0.3 else [])
    elif name in ("GraphProto", "FunctionProto"):
        tops = [root]
    else:
        return None
    c = rng.choice(tops)
    r = rng.randrange(4)
    if r == 0 and _is_graph(c):
        vi = c.output.add()
        vi.name = c.node[-1].output[0] if len(c.node) and len(c.node[-1].output) else _fresh(rng)
        vi.type.map_type.key_type = 7
        vi.type.map_type.value_type.tensor_type.elem_type = 1
        return "map-typed graph output appended"
    if not len(c.node):
        return None
    n = c.node[-1]
    a = n.attribute.add()
    a.name = _fresh(rng, "late")
    if r == 1:
        a.type = AP.STRINGS
        a.strings.extend([b"ok", b"\xff\xfe"])
        return "last node gets a non-UTF-8 strings attribute"
    if r == 2:
        a.type = AP.TENSOR
        a.t.data_type = 1
        a.t.data_location = TP.EXTERNAL
        e = a.t.external_data.add()
        e.key = "location"
        e.value = f"{_canary(rng)}.bin"
        e = a.t.external_data.add()
        e.key = "offset"
        e.value = "not-a-number"
        return "last node gets an external tensor with a non-numeric offset"
    a.type = AP.SPARSE_TENSOR
    a.sparse_tensor.values.data_type = 1
    a.sparse_tensor.dims.append(2)
    return "last node gets a sparse tensor attribute"



# ---- types / enums -----------------------------------------------------------------------------------


def m_missing_type(root, rng):
    vis = of_type(root, "ValueInfoProto")
    tps = of_type(root, "TypeProto")
    r = rng.random()
    if vis and r < 0.4:
        rng.choice(vis).ClearField("type")
        return "value info without type"
    if not tps:
        return None
    tp = rng.choice(tps)
    which = tp.WhichOneof("value")
    if which is None:
        return None
    if r < 0.6:
        tp.ClearField(which)
        return "type proto without any value"
    inner = getattr(tp, which)
    if which in ("tensor_type", "sparse_tensor_type"):
        if rng.random() < 0.6:
            inner.ClearField("elem_type")
            return f"{which} without elem_type"
        inner.ClearField("shape")
        inner.ClearField("elem_type")
        inner.SetInParent()
        return f"empty {which}"
    if which in ("sequence_type", "optional_type"):
        inner.ClearField("elem_type")
        inner.SetInParent()
        return f"{which} without elem_type"
    return None


_ENUM_VALUES = (0, 27, 28, 99, 255, 2**31 - 1, -1, -(2**31), 8, 16, 25)


def m_unknown_enum(root, rng):
    sites = []
    for m in walk(root):
        t = m.DESCRIPTOR.name
        if t == "TensorProto":
            sites.append((m, "data_type"))
        elif t in ("Tensor", "SparseTensor"):
            sites.append((m, "elem_type"))
        elif t == "Map":
            sites.append((m, "key_type"))
    if not sites:
        return None
    m, f = rng.choice(sites)
    v = rng.choice([x for x in _ENUM_VALUES if x != getattr(m, f)])
    setattr(m, f, v)
    return f"{m.DESCRIPTOR.name}.{f} = {v}"


def m_attr_type_mismatch(root, rng):
    attrs = of_type(root, "AttributeProto")
    if not attrs:
        return None
    a = rng.choice(attrs)
    choices = [v.number for v in AP.AttributeType.DESCRIPTOR.values if v.number != a.type]
    new = rng.choice(choices)
    a.type = new
    return f"attribute type set to {new} without matching payload"


def m_unsupported(root, rng):
    r = rng.randrange(6)
    gs = [c for c in containers(root) if _is_graph(c)]
    if r == 0 and gs:
        s = rng.choice(gs).sparse_initializer.add()
        s.values.name = _fresh(rng, "sparse")
        s.values.data_type = 1
        s.values.dims.append(1)
        s.values.float_data.append(1.0)
        s.indices.data_type = 7
        s.indices.dims.append(1)
        s.indices.int64_data.append(0)
        s.dims.append(4)
        return "sparse initializer"
    if r == 1:
        host = _host_node(root, rng)
        if host is not None:
            a = host.attribute.add()
            a.name = _fresh(rng, "sp")
            many = rng.random() < 0.5
            a.type = AP.SPARSE_TENSORS if many else AP.SPARSE_TENSOR
            s = a.sparse_tensors.add() if many else a.sparse_tensor
            s.values.data_type = 1
            s.dims.append(2)
            return "sparse tensor attribute"
    tps = of_type(root, "TypeProto")
    if r in (2, 3) and tps:
        tp = rng.choice(tps)
        which = tp.WhichOneof("value")
        if which:
            tp.ClearField(which)
        if r == 2:
            tp.map_type.key_type = 7
            tp.map_type.value_type.tensor_type.elem_type = 1
            return "map type"
        tp.opaque_type.domain = "vendor"
        tp.opaque_type.name = "Blob"
        return "opaque type"
    if r == 4 and root.DESCRIPTOR.name == "ModelProto":
        ti = root.training_info.add()
        ti.algorithm.name = "train"
        n = ti.algorithm.node.add()
        n.op_type = "Identity"
        n.input.append("x")
        n.output.append("y")
        return "training info"
    ts = of_type(root, "TensorProto")
    if ts:
        t = rng.choice(ts)
        t.segment.begin = 0
        t.segment.end = 1
        return "tensor segment"
    return None


# ---- payload ----------------------------------------------------------------------------------------

_BAD_UTF8 = (b"\xff\xfe\xfd", b"\xc3\x28", b"\xed\xa0\x80", b"ab\x80cd", b"\xf8\x88\x80\x80\x80", b"\xc0\xaf", b"\xe2\x82")


def m_invalid_utf8(root, rng):
    bad = rng.choice(_BAD_UTF8)
    attrs = of_type(root, "AttributeProto")
    strs = [a for a in attrs if a.type == AP.STRING]
    strss = [a for a in attrs if a.type == AP.STRINGS]
    tens = [t for t in of_type(root, "TensorProto") if t.data_type == 8]
    r = rng.random()
    if strs and r < 0.3:
        rng.choice(strs).s = bad
        return "attribute s is not UTF-8"
    if strss and r < 0.55:
        a = rng.choice(strss)
        if a.strings and rng.random() < 0.6:
            a.strings[rng.randrange(len(a.strings))] = bad
        else:
            a.strings.append(bad)
        return "attribute strings entry is not UTF-8"
    if tens and r < 0.7:
        t = rng.choice(tens)
        if t.string_data:
            t.string_data[rng.randrange(len(t.string_data))] = bad
        else:
            t.string_data.append(bad)
        return "string tensor entry is not UTF-8"
    host = _host_node(root, rng)
    if host is None:
        if root.DESCRIPTOR.name == "AttributeProto":
            a = root
        else:
            return None
    else:
        a = host.attribute.add()
        a.name = _fresh(rng, "s")
    if rng.random() < 0.5:
        a.type = AP.STRING
        a.s = bad
        return "new attribute with non-UTF-8 s"
    a.type = AP.STRINGS
    a.strings.extend([b"ok", bad])
    return "new attribute with non-UTF-8 strings"


def m_dims_mismatch(root, rng):
    ts = of_type(root, "TensorProto")
    if not ts:
        return None
    t = rng.choice(ts)
    r = rng.randrange(8)
    if r == 0:
        t.dims.append(rng.choice((2, 3, 0)))
    elif r == 1 and t.dims:
        t.dims[0] = t.dims[0] * 3 + 1
    elif r == 2:
        del t.dims[:]
    elif r == 3 and t.dims:
        t.dims[rng.randrange(len(t.dims))] = rng.choice((-1, -(2**40)))
    elif r == 4:
        t.dims.append(2**40)
    elif r == 5:
        for f in ("raw_data", "float_data", "int32_data", "int64_data", "double_data", "uint64_data", "string_data"):
            t.ClearField(f)
        if not t.dims:
            t.dims.append(3)
    elif r == 6:
        if t.HasField("raw_data"):
            t.raw_data = t.raw_data + b"\x01\x02\x03"
        else:
            t.raw_data = b"\x01"
    else:
        t.dims.extend([2**31, 2**31, 2**31])
    return "tensor dims disagree with payload"


def m_multi_storage(root, rng):
    ts = of_type(root, "TensorProto")
    if not ts:
        return None
    t = rng.choice(ts)
    fields = rng.sample(("raw_data", "float_data", "int32_data", "int64_data", "double_data", "uint64_data", "string_data"),
                        rng.randint(2, 4))
    for f in fields:
        if f == "raw_data":
            t.raw_data = bytes(rng.randrange(256) for _ in range(rng.choice((1, 4, 8))))
        elif f == "string_data":
            t.string_data.append(b"str")
        elif f in ("float_data", "double_data"):
            getattr(t, f).extend([1.5, float("nan")])
        else:
            getattr(t, f).extend([1, 2, 3])
    return "tensor with several storage fields: " + ",".join(sorted(fields))


def _canary(rng) -> str:
    return f"{CANARY}{rng.randrange(10**7)}"


def m_external_absurd(root, rng):
    ts = of_type(root, "TensorProto")
    if not ts:
        return None
    ext = [t for t in ts if t.data_location == TP.EXTERNAL]
    t = rng.choice(ext) if ext and rng.random() < 0.6 else rng.choice(ts)
    t.data_location = TP.EXTERNAL
    if rng.random() < 0.7:
        for f in ("raw_data", "float_data", "int32_data", "int64_data", "double_data", "uint64_data"):
            t.ClearField(f)
    del t.external_data[:]
    tok = _canary(rng)
    loc_variants = [
        f"{tok}.bin",
        "../" * rng.randint(1, 6) + f"{tok}.bin",
        f"/{tok}/abs.bin",
        f"/tmp/../{tok}",
        f"./{tok}/",
        f"{tok}\x00hidden",
        f"{tok}/" + "a" * 5000,
        "",
        None,
        f"~/{tok}",
        f"file:///{tok}",
        f"..\\..\\{tok}",
        f"//{tok}//x",
    ]
    num_variants = ["0", "-1", "-4096", str(2**70), "abc", "1e3", "0x10", "", " 12 ", "１２", "1_000", "+5", "4.0",
                    "99999999999999999999999999999999999999", "NaN", "\x00"]
    entries: list[tuple[str, str]] = []
    loc = rng.choice(loc_variants)
    if loc is not None:
        entries.append(("location", loc))
    if rng.random() < 0.8:
        entries.append(("offset", rng.choice(num_variants)))
    if rng.random() < 0.8:
        entries.append(("length", rng.choice(num_variants)))
    r = rng.random()
    if r < 0.25 and entries:
        k, _v = rng.choice(entries)
        entries.append((k, f"../{_canary(rng)}" if k == "location" else rng.choice(num_variants)))
    elif r < 0.4:
        entries.append((rng.choice(("checksum", "", "Location", "OFFSET", "basepath")), f"{_canary(rng)}"))
    rng.shuffle(entries)
    for k, v in entries:
        e = t.external_data.add()
        e.key = k
        e.value = v
    return "absurd external_data: " + repr(entries)[:200]


# ---- references --------------------------------------------------------------------------------------


def m_ref_attr_outside(root, rng):
    name = root.DESCRIPTOR.name
    if name == "ModelProto":
        nodes = of_type(root.graph, "NodeProto")
    elif name in ("GraphProto", "NodeProto"):
        nodes = of_type(root, "NodeProto")
    else:
        nodes = []
    if not nodes:
        if name == "FunctionProto":
            nodes = of_type(root, "NodeProto")
        if not nodes:
            return None
    n = rng.choice(nodes)
    a = n.attribute.add()
    a.name = _fresh(rng, "ref")
    a.ref_attr_name = rng.choice(("alpha", "axis", "", "no_such_param")) or "x"
    a.type = rng.choice([v.number for v in AP.AttributeType.DESCRIPTOR.values])
    if rng.random() < 0.3:
        a.i = 3  # a reference that also carries a value
    return f"reference attribute {a.ref_attr_name!r} outside any function signature"


def m_device_unknown(root, rng):
    if not hasattr(onnx.NodeProto(), "device_configurations"):
        return None
    r = rng.random()
    if root.DESCRIPTOR.name == "ModelProto" and r < 0.25:
        c = root.configuration.add()
        if root.configuration and len(root.configuration) > 1 and rng.random() < 0.6:
            c.CopyFrom(root.configuration[0])
            c.num_devices = c.num_devices + 1
            return "model configuration name repeated"
        c.name = ""
        c.num_devices = -1
        return "model configuration without name"
    nodes = of_type(root, "NodeProto")
    if not nodes:
        return None
    n = rng.choice(nodes)
    dc = n.device_configurations.add()
    dc.configuration_id = rng.choice(("no_such_config", "", "mesh2", _fresh(rng, "cfg")))
    if rng.random() < 0.5:
        dc.pipeline_stage = rng.choice((0, -1, 2**31 - 1))
    for _ in range(rng.randint(0, 2)):
        s = dc.sharding_spec.add()
        pool = ["", _fresh(rng, "no_tensor")] + [o for o in n.output if o] + [i for i in n.input if i]
        s.tensor_name = rng.choice(pool)
        s.device.extend(rng.choice((0, -7, 2**40)) for _ in range(rng.randint(0, 2)))
        if rng.random() < 0.5:
            d = s.sharded_dim.add()
            d.axis = rng.choice((0, -100, 2**40))
            ss = d.simple_sharding.add()
            ss.num_shards = rng.choice((0, -1, 3))
    return f"node device configuration referencing {dc.configuration_id!r}"


def m_exp_value_info(root, rng):
    if root.DESCRIPTOR.name != "ModelProto" or not root.functions:
        return None
    f = rng.choice(list(root.functions))
    names = list(f.input) + [o for n in f.node for o in n.output if o] + ["ghost"]
    root.ir_version = rng.choice((8, 9))
    for _ in range(rng.randint(1, 3)):
        vi = root.graph.value_info.add()
        vi.name = f"{f.domain}::{f.name}/{rng.choice(names)}"
        if rng.random() < 0.8:
            vi.type.tensor_type.elem_type = rng.choice((1, 7, 99))
            vi.type.tensor_type.shape.dim.add().dim_value = 3
    return "experimental function value info in the main graph"


def m_ir_version(root, rng):
    if root.DESCRIPTOR.name != "ModelProto":
        return None
    v = rng.choice([x for x in (0, 1, 3, 7, 8, 9, 10, 11, 12, 13, 14, 1000, -1, 2**40) if x != root.ir_version])
    root.ir_version = v
    return f"ir_version = {v}"


# ---- generic reflection ------------------------------------------------------------------------------


def _all_messages(root) -> list:
    return list(walk(root))


def m_drop_field(root, rng):
    ms = [m for m in _all_messages(root) if m.ListFields()]
    if not ms:
        return None
    m = rng.choice(ms)
    fd, value = rng.choice(m.ListFields())
    if _rep(fd) and len(value) > 1 and rng.random() < 0.6:
        del value[rng.randrange(len(value))]
        return f"one element of {m.DESCRIPTOR.name}.{fd.name} removed"
    m.ClearField(fd.name)
    return f"{m.DESCRIPTOR.name}.{fd.name} cleared"


def m_dup_element(root, rng):
    sites = [(m, fd, v) for m in _all_messages(root) for fd, v in m.ListFields() if _rep(fd) and len(v)]
    if not sites:
        return None
    m, fd, v = rng.choice(sites)
    i = rng.randrange(len(v))
    if fd.message_type is not None:
        if v[i].ByteSize() > 30000:
            return None
        v.add().CopyFrom(v[i])
    else:
        v.append(v[i])
    return f"{m.DESCRIPTOR.name}.{fd.name}[{i}] appended again"


def m_swap_elements(root, rng):
    sites = [(m, fd, v) for m in _all_messages(root) for fd, v in m.ListFields() if _rep(fd) and len(v) >= 2]
    if not sites:
        return None
    m, fd, v = rng.choice(sites)
    i, j = rng.sample(range(len(v)), 2)
    if fd.message_type is not None:
        order = list(range(len(v)))
        order[i], order[j] = order[j], order[i]
        _reorder(v, order)
    else:
        v[i], v[j] = v[j], v[i]
    return f"{m.DESCRIPTOR.name}.{fd.name}[{i}] and [{j}] swapped"


_INT_EXTREMES = (0, 1, -1, 2**31 - 1, -(2**31), 2**63 - 1, -(2**63), 2**32, 255)
_STR_EXTREMES = ("", " ", "\n", "a" * 3000, "x/y", "::", "a::b/c", "\x00", "‮", "\U0001f600", "ai.onnx", "None", "%s%n", "0")


def m_scalar_extreme(root, rng):
    sites = []
    for m in _all_messages(root):
        for fd in m.DESCRIPTOR.fields:
            if fd.message_type is None and fd.enum_type is None:
                sites.append((m, fd))
    if not sites:
        return None
    for _ in range(8):
        m, fd = rng.choice(sites)
        rep = _rep(fd)
        cpp = fd.cpp_type
        if cpp in (_FD.CPPTYPE_INT32, _FD.CPPTYPE_INT64, _FD.CPPTYPE_UINT32, _FD.CPPTYPE_UINT64):
            val = rng.choice(_INT_EXTREMES)
            if cpp == _FD.CPPTYPE_INT32 and not -(2**31) <= val < 2**31:
                val = 2**31 - 1
            if cpp in (_FD.CPPTYPE_UINT32, _FD.CPPTYPE_UINT64) and val < 0:
                val = 2**32 - 1 if cpp == _FD.CPPTYPE_UINT32 else 2**64 - 1
            if cpp == _FD.CPPTYPE_UINT32 and val >= 2**32:
                val = 2**32 - 1
        elif cpp in (_FD.CPPTYPE_FLOAT, _FD.CPPTYPE_DOUBLE):
            val = rng.choice((float("nan"), float("inf"), float("-inf"), -0.0, 1e38, 5e-324))
        elif cpp == _FD.CPPTYPE_BOOL:
            val = True
        elif cpp == _FD.CPPTYPE_STRING:
            if fd.type == _FD.TYPE_BYTES:
                val = rng.choice((b"", b"\x00", b"\xff" * 7, bytes(range(256))))
            else:
                val = rng.choice(_STR_EXTREMES)
        else:
            continue
        if rep:
            lst = getattr(m, fd.name)
            if len(lst) and rng.random() < 0.7:
                lst[rng.randrange(len(lst))] = val
            else:
                lst.append(val)
        else:
            setattr(m, fd.name, val)
        return f"{m.DESCRIPTOR.name}.{fd.name} = {val!r}"[:160]
    return None


# ---- byte level --------------------------------------------------------------------------------------

_BYTE_ATTEMPTS = 24


def _bytes_of(root) -> bytes | None:
    try:
        return root.SerializeToString(deterministic=True)
    except (EncodeError, ValueError, RuntimeError):
        return None


def _reparse(root, data: bytes) -> bool:
    fresh = type(root)()
    try:
        fresh.ParseFromString(data)
    except (DecodeError, ValueError, RuntimeError):
        return False
    root.CopyFrom(fresh)
    return True


def _byte_level(root, rng, edit: Callable[[bytearray, random.Random], str]) -> str | None:
    data = _bytes_of(root)
    if not data:
        return None
    for _ in range(_BYTE_ATTEMPTS):
        buf = bytearray(data)
        what = edit(buf, rng)
        if bytes(buf) == data:
            continue
        if _reparse(root, bytes(buf)):
            return f"{what} ({len(data)} -> {len(buf)} bytes)"
    return None


def _flip(buf, rng):
    k = rng.randint(1, 3)
    for _ in range(k):
        i = rng.randrange(len(buf))
        if rng.random() < 0.5:
            buf[i] ^= 1 << rng.randrange(8)
        else:
            buf[i] = rng.randrange(256)
    return f"{k} byte(s) altered"


def _insert(buf, rng):
    i = rng.randrange(len(buf) + 1)
    k = rng.randint(1, 4)
    buf[i:i] = bytes(rng.randrange(256) for _ in range(k))
    return f"{k} byte(s) inserted"


def _delete(buf, rng):
    k = min(len(buf), rng.randint(1, 4))
    i = rng.randrange(len(buf) - k + 1)
    del buf[i:i + k]
    return f"{k} byte(s) deleted"


def _dup(buf, rng):
    k = min(len(buf), rng.randint(2, 40))
    i = rng.randrange(len(buf) - k + 1)
    j = rng.randrange(len(buf) + 1)
    buf[j:j] = buf[i:i + k]
    return f"{k}-byte chunk duplicated"


def _varint(v: int) -> bytes:
    out = bytearray()
    v &= (1 << 64) - 1
    while True:
        b = v & 0x7F
        v >>= 7
        if v:
            out.append(b | 0x80)
        else:
            out.append(b)
            return bytes(out)


def _append_field(buf, rng):
    num = rng.choice((1, 2, 3, 4, 5, 7, 8, 13, 14, 20, 25, 100, 536870911))
    wt = rng.choice((0, 1, 2, 5))
    tag = _varint((num << 3) | wt)
    if wt == 0:
        body = _varint(rng.choice((0, 1, 99, 2**63, 2**64 - 1)))
    elif wt == 1:
        body = bytes(rng.randrange(256) for _ in range(8))
    elif wt == 5:
        body = bytes(rng.randrange(256) for _ in range(4))
    else:
        payload = rng.choice((b"", b"\xff\xfe", b"name", b"\x0a\x01x", bytes(rng.randrange(256) for _ in range(rng.randint(1, 12)))))
        body = _varint(len(payload)) + payload
    buf += tag + body
    return f"field {num} (wire type {wt}) appended"


def m_byte_flip(root, rng):
    return _byte_level(root, rng, _flip)


def m_byte_insert(root, rng):
    return _byte_level(root, rng, _insert)


def m_byte_delete(root, rng):
    return _byte_level(root, rng, _delete)


def m_byte_dup(root, rng):
    return _byte_level(root, rng, _dup)


def m_byte_append_field(root, rng):
    return _byte_level(root, rng, _append_field)


# ---- registry ---------------------------------------------------------------------------------------

MUTATIONS: dict[str, Callable] = {
    "dangling_input": m_dangling_input, "dangling_output": m_dangling_output, "dup_name": m_dup_name,
    "empty_name": m_empty_name, "empty_run": m_empty_run, "io_alias": m_io_alias, "init_like": m_init_like, "shadow_outer": m_shadow_outer,
    "redeclare_output": m_redeclare_output, "shadow_scope": m_shadow_scope, "autoname": m_autoname, "unname": m_unname,
    "shuffle_nodes": m_shuffle_nodes, "cyclic_nodes": m_cyclic_nodes, "self_loop": m_self_loop,
    "deep_nesting": m_deep_nesting, "recursive_function": m_recursive_function, "dup_function": m_dup_function,
    "dup_attr": m_dup_attr, "dup_keyed": m_dup_keyed, "copy_across": m_copy_across,
    "outer_output": m_outer_output, "drop_producer": m_drop_producer, "late_reject": m_late_reject,
    "missing_type": m_missing_type, "unknown_enum": m_unknown_enum, "attr_type_mismatch": m_attr_type_mismatch,
    "unsupported": m_unsupported,
    "invalid_utf8": m_invalid_utf8, "dims_mismatch": m_dims_mismatch, "multi_storage": m_multi_storage,
    "external_absurd": m_external_absurd,
    "ref_attr_outside": m_ref_attr_outside, "device_unknown": m_device_unknown, "exp_value_info": m_exp_value_info,
    "ir_version": m_ir_version,
    "drop_field": m_drop_field, "dup_element": m_dup_element, "swap_elements": m_swap_elements,
    "scalar_extreme": m_scalar_extreme,
    "byte_flip": m_byte_flip, "byte_insert": m_byte_insert, "byte_delete": m_byte_delete, "byte_dup": m_byte_dup,
    "byte_append_field": m_byte_append_field,
}
KINDS = tuple(MUTATIONS)
BYTE_KINDS = ("byte_flip", "byte_insert", "byte_delete", "byte_dup", "byte_append_field")

# what protobuf itself raises when an assignment is refused (wrong range, closed enum, bad UTF-8 ...)
_REFUSED = (ValueError, TypeError, OverflowError, EncodeError, DecodeError)


def apply(root: Message, kind: str, seed: int) -> str | None:
    """Apply one mutation in place.  Returns its description, or ``None`` if it has no site here."""
    rng = random.Random(f"{kind}:{seed}")
    try:
        return MUTATIONS[kind](root, rng)
    except _REFUSED as e:
        # protobuf refused one assignment in the middle of the mutation; whatever was changed before
        # stays (the outcome is still a deterministic function of (root, kind, seed))
        return f"{kind} (partly refused by protobuf: {type(e).__name__})"


def default_weights(root: Message) -> dict[str, float]:
    """Relative weights of the mutation kinds for a message of this type."""
    w = {k: 1.0 for k in KINDS}
    for k in ("dangling_input", "dup_name", "empty_name", "redeclare_output", "init_like", "shadow_outer",
              "external_absurd", "cyclic_nodes", "self_loop", "io_alias", "drop_producer"):
        w[k] = 2.0
    w["outer_output"] = 2.5
    w["shadow_scope"] = 2.5
    w["dup_attr"] = 2.0
    w["late_reject"] = 0.7
    for k in ("drop_field", "dup_element", "swap_elements", "scalar_extreme"):
        w[k] = 1.5
    for k in BYTE_KINDS:
        w[k] = 0.8
    w["deep_nesting"] = 0.8
    w["unname"] = 2.0
    w["empty_run"] = 2.5
    w["ir_version"] = 0.4
    return w


def mutate(root: Message, rng: random.Random, n: int, weights: dict[str, float] | None = None) -> list[list]:
    """Draw and apply ``n`` mutations (kinds without a site in ``root`` are redrawn).  Returns the
    applied ``[kind, seed, description]`` triples in application order."""
    weights = weights or default_weights(root)
    kinds = [k for k in KINDS if weights.get(k, 0) > 0]
    ws = [weights[k] for k in kinds]
    applied: list[list] = []
    tries = 0
    while len(applied) < n and tries < 8 * n + 8:
        tries += 1
        kind = rng.choices(kinds, ws)[0]
        seed = rng.getrandbits(32)
        what = apply(root, kind, seed)
        if what is not None:
            applied.append([kind, seed, what])
    return applied


# ---- canaries ---------------------------------------------------------------------------------------


def canary_locations(root: Message, start: int = 0) -> int:
    """Put a unique canary token into every external-data ``location`` value.  Returns the number
    of locations rewritten."""
    n = 0
    for t in of_type(root, "TensorProto"):
        for e in t.external_data:
            if e.key == "location" and CANARY not in e.value:
                e.value = f"{CANARY}{start + n}_{e.value}"
                n += 1
    return n


def external_locations(root: Message) -> list[str]:
    out = []
    for t in of_type(root, "TensorProto"):
        for e in t.external_data:
            if e.key == "location":
                v = e.value
                out.append(v if isinstance(v, str) else repr(v))
    return out
