"""Runs one property check: fan out shard subprocesses, merge what their monitors observed,
classify violations against the committed known-findings file, write the evidence file and
print the verdict (held / VIOLATION / INCONCLUSIVE)."""

from __future__ import annotations

import importlib
import json
import math
import os
import shutil
import subprocess
import sys
import tempfile
import time
from collections import Counter
from pathlib import Path

from vfpy.ctx import Ctx, stable_hash

ROOT = Path(os.environ.get("VF_ROOT") or Path(__file__).resolve().parent.parent)
PY = sys.executable
NCPU = min(16, os.cpu_count() or 4)


def load_module(prop: str):
    return importlib.import_module(f"vfpy.props.{prop.lower()}")


def load_findings(prop: str) -> tuple[dict[str, dict], list[dict]]:
    """signature -> known entry, plus the list of fixed entries (which suppress nothing)."""
    paths = [ROOT / "known_findings.json"]
    if os.environ.get("VF_EXTRA_FINDINGS"):  # development aid only; never set by registered commands
        paths.append(Path(os.environ["VF_EXTRA_FINDINGS"]))
    known: dict[str, dict] = {}
    fixed: list[dict] = []
    for path in paths:
        if not path.exists():
            continue
        data = json.loads(path.read_text())
        for entry in data.get("findings", []):
            if entry.get("property") != prop:
                continue
            if entry.get("status") == "fixed":
                fixed.append(entry)
                continue
            for sig in entry.get("signatures", []) or [entry.get("signature")]:
                if sig:
                    known[sig] = entry
    return known, fixed


def _spawn(prop, tier, seed, shard, nshards, cases, budget, out, params):
    cmd = [
        PY, "-m", "vfpy.shard", prop, tier, str(seed), str(shard), str(nshards), str(cases),
        str(budget), out, json.dumps(params),
    ]
    # output goes to a file, never to a pipe: a shard that logs more than the pipe buffer holds
    # (e.g. warnings with tracebacks from the code under observation) would block forever
    log = open(out + ".log", "wb")
    try:
        # TMPDIR: libraries loaded by the shard (onnxruntime writes a mat-debug-<pid>.log per process) leave
        # their files in the shard's own scratch directory, which is removed with the run
        env = dict(os.environ)
        if env.get("VF_SHARD_TMP"):
            env["TMPDIR"] = env["VF_SHARD_TMP"]
        return subprocess.Popen(cmd, cwd=str(ROOT), stdout=log, stderr=subprocess.STDOUT, env=env)
    finally:
        log.close()


def run_check(prop: str, tier: str, seed: int, overrides: dict | None = None) -> int:
    t0 = time.monotonic()
    mod = load_module(prop)
    plan = dict(mod.plan(tier))
    plan.update(overrides or {})
    cases = int(plan.get("cases", 1))
    nshards = int(plan.get("shards", NCPU))
    nshards = max(1, min(nshards, cases))
    budget = float(plan.get("budget_s", 40 if tier == "quick" else 480))
    hard = float(plan.get("hard_timeout_s", budget * 3 + 90))
    params = plan.get("params", {})
    workdir = Path(tempfile.mkdtemp(prefix=f"vf-{prop}-"))
    results: list[dict] = []
    shard_errors: list[str] = []
    try:
        pending = list(range(nshards))
        running: dict[int, tuple[subprocess.Popen, float, str]] = {}
        while pending or running:
            while pending and len(running) < NCPU:
                s = pending.pop(0)
                out = str(workdir / f"shard{s}.json")
                env_tmp = workdir / f"tmp{s}"
                env_tmp.mkdir()
                os.environ["VF_SHARD_TMP"] = str(env_tmp)
                running[s] = (_spawn(prop, tier, seed, s, nshards, cases, budget, out, params),
                              time.monotonic(), out)
            time.sleep(0.05)
            for s, (proc, started, out) in list(running.items()):
                rc = proc.poll()
                if rc is None:
                    if time.monotonic() - started > hard:
                        proc.kill()
                        proc.wait()
                        shard_errors.append(f"shard {s}: hard timeout after {hard:.0f}s")
                        del running[s]
                    continue
                try:
                    with open(out + ".log", "rb") as lf:
                        lf.seek(0, 2)
                        size = lf.tell()
                        lf.seek(max(0, size - 3000))
                        output = lf.read().decode("utf-8", "replace")
                except OSError:
                    output = ""
                del running[s]
                if os.path.exists(out):
                    data = json.loads(Path(out).read_text())
                    results.append(data)
                    if data.get("error"):
                        shard_errors.append(f"shard {s}: {data['error'][-1500:]}")
                else:
                    shard_errors.append(f"shard {s}: died rc={rc} without output: {output[-1500:]}")
    finally:
        # never leave shard processes behind (the runner itself may be interrupted or killed by a caller's timeout)
        for proc, _, _ in running.values():
            if proc.poll() is None:
                proc.kill()
        shutil.rmtree(workdir, ignore_errors=True)

    return finish(prop, tier, seed, mod, plan, results, shard_errors, time.monotonic() - t0)


def finish(prop, tier, seed, mod, plan, results, shard_errors, wall) -> int:
    counters: Counter[str] = Counter()
    nontrivial: set[str] = set()
    samples: list = []
    notes: list[str] = []
    evaluations = 0
    truncated = 0
    merged: dict[str, dict] = {}
    exhaustive_flags = []
    for r in results:
        evaluations += r["evaluations"]
        nontrivial.update(r["nontrivial"])
        counters.update(r["counters"])
        truncated += 1 if r["truncated_by_time"] else 0
        exhaustive_flags.append(r.get("exhaustive"))
        for n in r["notes"]:
            if n not in notes:
                notes.append(n)
        for v in r["violations"]:
            m = merged.setdefault(v["signature"], dict(v, count=0))
            m["count"] += v["count"]
    # a few samples, spread over shards
    for i in range(6):
        for r in results:
            if i < len(r["samples"]) and len(samples) < 8:
                samples.append(r["samples"][i])

    known, fixed = load_findings(prop)
    known_hit: dict[int, dict] = {}
    unknown: list[dict] = []
    for sig, v in sorted(merged.items()):
        if sig in known:
            entry = known[sig]
            hit = known_hit.setdefault(id(entry), {"entry": entry, "count": 0, "signatures": []})
            hit["count"] += v["count"]
            hit["signatures"].append(sig)
        else:
            unknown.append(v)

    # ---- verdict ------------------------------------------------------------------------------
    inconclusive: list[str] = []
    floors = dict(plan.get("floors", {}))
    # Floors are sized for the planned number of cases.  When shards were cut by their soft time budget (a
    # slow or busy host - never a property of the code under test) the floors shrink in proportion to the
    # share of the planned cases that was done, but never below a tenth and never below 1: a monitor that
    # was not reached at all still makes the run inconclusive.
    cases_done_ = sum(r.get("cases_done", 0) for r in results)
    cases_planned_ = int(plan.get("cases", 0)) or cases_done_
    share = 1.0
    if truncated and cases_planned_ and cases_done_ < cases_planned_:
        share = max(0.1, cases_done_ / cases_planned_)

    def scaled(floor: int) -> int:
        return floor if share >= 1.0 else max(1, math.ceil(floor * share))

    for key, floor in floors.items():
        if counters.get(key, 0) < scaled(floor):
            inconclusive.append(f"monitor counter {key}={counters.get(key, 0)} below floor {scaled(floor)}"
                                + (f" (planned floor {floor} x {share:.2f} of the planned cases done)" if share < 1.0 else ""))
    if evaluations < int(plan.get("min_evaluations", 1)):
        inconclusive.append(f"evaluations={evaluations} below floor {plan.get('min_evaluations', 1)}")
    if len(nontrivial) < scaled(int(plan.get("min_nontrivial", 2))):
        inconclusive.append(f"distinct_nontrivial={len(nontrivial)} below floor {scaled(int(plan.get('min_nontrivial', 2)))}")
    if shard_errors:
        inconclusive.append(f"{len(shard_errors)} shard(s) failed: " + " | ".join(e[-300:] for e in shard_errors[:3]))

    replay_paths = []
    rdir = ROOT / "replays" / prop
    for v in unknown:
        rdir.mkdir(parents=True, exist_ok=True)
        p = rdir / f"{stable_hash(v['signature'])}.json"
        p.write_text(json.dumps({"property": prop, "tier": tier, "seed": seed, **v}, indent=1, default=repr))
        replay_paths.append(p)

    coverage = {
        "evaluations": evaluations,
        "distinct_nontrivial": len(nontrivial),
        "rule": getattr(mod, "RULE", ""),
        "samples": samples,
        "monitor_counters": dict(sorted(counters.items())),
        "shards": len(results),
        "shards_truncated_by_time_budget": truncated,
        "cases_planned": int(plan.get("cases", 1)),
        "cases_done": sum(r["cases_done"] for r in results),
        "floors_scaled_by_share_of_planned_cases_done": round(share, 3),
        "floors": floors,
        "notes": notes,
        "known_findings_matched": [
            {"what": h["entry"].get("what"), "count": h["count"], "signatures": h["signatures"]}
            for h in known_hit.values()
        ],
        "fixed_findings_watched": [e.get("line") or e.get("what") for e in fixed],
        "unknown_violation_signatures": [v["signature"] for v in unknown],
        "shard_errors": shard_errors[:5],
    }
    if exhaustive_flags and all(f is True for f in exhaustive_flags) and not truncated:
        coverage["exhaustive"] = True
    elif any(f is not None for f in exhaustive_flags):
        coverage["exhaustive"] = False
    verdict = "violated" if unknown else ("inconclusive" if inconclusive else "held_on_observed")
    coverage["verdict"] = verdict
    if inconclusive:
        coverage["inconclusive_reasons"] = inconclusive
    evidence = {
        "property_id": prop,
        "tier": tier,
        "seed": seed,
        "level": getattr(mod, "LEVEL", "exploration"),
        "coverage": coverage,
        "assumptions": list(getattr(mod, "ASSUMPTIONS", [])),
        "wall_s": round(wall, 2),
        "violations": len(unknown),
    }
    # evidence/ describes /repo itself; runs against a scratch copy (self-test, seeded changes:
    # VF_REPO=<worktree>) must not overwrite it
    observed = os.path.realpath(os.environ.get("VF_REPO", "/repo"))
    scratch = observed != os.path.realpath("/repo") or bool(os.environ.get("VF_COVERAGE_DIR"))  # reach measurement runs are slowed
    edir = ROOT / ".work" / "evidence-scratch" if scratch else ROOT / "evidence"
    edir.mkdir(parents=True, exist_ok=True)
    (edir / f"{prop}.json").write_text(json.dumps(evidence, indent=1, default=repr) + "\n")

    # ---- report -------------------------------------------------------------------------------
    print(f"[{prop}] tier={tier} seed={seed} evaluations={evaluations} distinct_nontrivial={len(nontrivial)} "
          f"shards={len(results)} wall={wall:.1f}s")
    interesting = {k: v for k, v in sorted(counters.items())}
    print(f"[{prop}] monitor counters: " + ", ".join(f"{k}={v}" for k, v in list(interesting.items())[:60]))
    for h in known_hit.values():
        print(f"KNOWN-FINDING: property={prop} {h['entry'].get('what')} (seen {h['count']}x)")
    for v, p in zip(unknown, replay_paths):
        print(f"[{prop}] violation signature: {v['signature']}\n    {v['message'][:1200]}")
        print(f"VIOLATION property={prop} replay={p}")
    if unknown:
        return 1
    if inconclusive:
        for reason in inconclusive:
            print(f"INCONCLUSIVE property={prop} reason={reason}")
        return 2
    print(f"[{prop}] held on everything observed")
    return 0


def run_replay(prop: str, path: str) -> int:
    mod = load_module(prop)
    data = json.loads(Path(path).read_text())
    ctx = Ctx(prop, data.get("tier", "quick"), int(data.get("seed", 0)), 0, 1, 1, 600.0)
    if not hasattr(mod, "replay"):
        print(f"[{prop}] no replay support")
        return 2
    mod.replay(data.get("replay"), ctx)
    if ctx.violations:
        for v in ctx.violations:
            print(f"[{prop}] reproduced: {v['signature']}\n    {v['message'][:2000]}")
            print(f"VIOLATION property={prop} replay={path}")
        return 1
    print(f"[{prop}] replay did not reproduce a violation")
    return 0
