import os
import sys

from vfpy.ctx import run_shard_main


def _main() -> int:
    cov_dir = os.environ.get("VF_COVERAGE_DIR")
    if not cov_dir:
        return run_shard_main(sys.argv[1:])
    # Reach measurement (tools/coverage_reach.sh): which lines of onnx_ir the workload of this shard
    # executes.  Never used for a verdict; forked children that leave through os._exit are not recorded.
    import coverage

    repo = os.environ.get("VF_REPO", "/repo")
    cov = coverage.Coverage(data_file=os.path.join(cov_dir, "cov"), data_suffix=True,
                            source=[os.path.join(repo, "src", "onnx_ir")], concurrency=["thread"])
    cov.start()
    if sys.argv[1:2] != ["C08"]:
        # checks that run cases in forked children leave them through os._exit: record those too
        # (not for C08, whose thousands of crash-point children would each write a data file)
        real_exit, parent = os._exit, os.getpid()

        def _exit(code):
            if os.getpid() != parent:
                try:
                    cov.stop()
                    cov.save()
                except Exception:  # noqa: BLE001
                    pass
            real_exit(code)
        os._exit = _exit
    try:
        return run_shard_main(sys.argv[1:])
    finally:
        cov.stop()
        cov.save()


if __name__ == "__main__":
    sys.exit(_main())
