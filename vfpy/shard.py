import sys

from vfpy.ctx import run_shard_main

if __name__ == "__main__":
    sys.exit(run_shard_main(sys.argv[1:]))
