"""C04: builders of every representation of one logical array on the REAL onnx_ir classes.

A representation is described by a RepDef; ``build(env)`` returns a zero-argument factory so
that each observation (numpy / tobytes / each tofile destination) gets a fresh instance and no
observation can be helped or hurt by a cache filled by a previous one.
"""

from __future__ import annotations

import contextlib
import os
from collections import Counter
from dataclasses import dataclass, field
from typing import Callable

import numpy as np
import onnx
from onnx import helper as onnx_helper
from onnx import numpy_helper

import onnx_ir as ir
from onnx_ir import _core as ir_core
from onnx_ir import serde as ir_serde
from onnx_ir import tensor_adapters

from vfpy import c04_oracle as O

_torch = None


def torch():
    global _torch
    if _torch is None:
        import torch as _t  # heavy; only when a torch representation is built

        _torch = _t
    return _torch


class Env:
    """One logical array D plus scratch space."""

    def __init__(self, spec: O.Spec, shape, patterns, tmp: str, rng):
        self.spec = spec
        self.shape = tuple(shape)
        self.size = O.prod(self.shape)
        self.patterns = list(patterns)
        self.exp_bytes = O.pack(self.patterns, spec.bits)
        self.tmp = tmp
        self.rng = rng
        self._uid = 0
        self._quiet: Env | None = None
        self.stats: Counter = Counter()      # what a builder did on the harness side (merged into the shard counters)
        self.has_nan = any(O.is_nan_pattern(p, spec) for p in self.patterns)

    def path(self, stem: str) -> str:
        self._uid += 1
        return os.path.join(self.tmp, f"{stem}{self._uid}.bin")

    def quiet(self) -> "Env":
        if self._quiet is None:
            q = O.quietize(self.patterns, self.spec)
            self._quiet = self if q == self.patterns else Env(self.spec, self.shape, q, self.tmp, self.rng)
        return self._quiet

    @property
    def dtype(self):
        return ir.DataType[self.spec.name]


@dataclass
class RepDef:
    name: str
    sig: str                       # mechanism-level name used in violation signatures
    sibling: str | None            # simpler representation tried when shrinking
    applicable: Callable[[Env], str | None]   # None = applicable, else a skip reason
    build: Callable[[Env], Callable[[], object]]
    pyfloat: bool = False          # data passes through Python floats -> signalling NaNs quieted
    context: Callable[[], contextlib.AbstractContextManager] | None = None
    cls: str = ""                  # expected class name of the built tensor
    external: bool = False
    base: str | None = None        # for LazyTensor: representation evaluated lazily
    extra: dict = field(default_factory=dict)


REPS: dict[str, RepDef] = {}


def _reg(rep: RepDef) -> None:
    REPS[rep.name] = rep


def _ok(env):  # noqa: ARG001
    return None


def _subbyte(env):
    return None if env.spec.bits < 8 else "n/a:not-sub-byte"


def _non_native(env):
    return None if env.spec.name in O.NON_NATIVE else "n/a:numpy-native"


def _exact_values(env):
    return "skip:nan-payload-not-expressible-as-python-value" if env.has_nan else None


# ---- array backed ------------------------------------------------------------------------------
def _b_tensor_ml(env):
    arr = O.typed_array(env.patterns, env.spec, env.shape)
    return lambda: ir.Tensor(arr)


def _b_tensor_ml_dtype(env):
    arr = O.typed_array(env.patterns, env.spec, env.shape)
    return lambda: ir.Tensor(arr, dtype=env.dtype, name="t")


def _b_tensor_bits(env):
    arr = O.bits_array(env.patterns, env.spec, env.shape)
    return lambda: ir.Tensor(arr, dtype=env.dtype)


def _b_tensor_int8(env):
    arr = np.array([O.sign_extend(p, env.spec.bits) for p in env.patterns], dtype=np.int8).reshape(env.shape)
    return lambda: ir.Tensor(arr, dtype=env.dtype)


def _a_int8(env):
    return None if env.spec.name in ("INT4", "INT2") else "n/a:not-signed-sub-byte"


def _a_noncontig(env):
    return None if (len(env.shape) >= 2 and env.size > 1) else "n/a:needs-rank>=2"


def _b_tensor_noncontig(env):
    arr = np.asfortranarray(O.typed_array(env.patterns, env.spec, env.shape))
    return lambda: ir.Tensor(arr)


class ArrayLike:
    """Array-compatible object that is not an ndarray (only ``__array__`` and ``shape``)."""

    def __init__(self, arr):
        self._a = arr
        self.shape = arr.shape

    def __array__(self, dtype=None, copy=None):  # noqa: ARG002
        return self._a if dtype is None else self._a.astype(dtype)


def _b_tensor_arraylike(env):
    arr = O.typed_array(env.patterns, env.spec, env.shape)
    return lambda: ir.Tensor(ArrayLike(arr), dtype=env.dtype)


class DLPackOnly:
    def __init__(self, arr):
        self._a = arr
        self.shape = arr.shape

    def __dlpack__(self, *, stream=None, **kw):  # noqa: ARG002
        return self._a.__dlpack__(stream=stream)

    def __dlpack_device__(self):
        return self._a.__dlpack_device__()


def _a_dlpack(env):
    if env.spec.name in O.NON_NATIVE:
        return "n/a:dlpack-has-no-such-dtype"
    if env.tmp is None:      # static probing of the grid
        return None
    arr = O.typed_array(env.patterns, env.spec, env.shape).copy()
    try:  # numpy itself must be able to exchange this array; otherwise nothing to compare
        np.from_dlpack(DLPackOnly(arr))
    except Exception:  # noqa: BLE001
        return "skip:numpy-dlpack-rejects-array"
    return None


def _b_tensor_dlpack(env):
    arr = O.typed_array(env.patterns, env.spec, env.shape).copy()
    return lambda: ir.Tensor(DLPackOnly(arr), dtype=env.dtype)


def _nested(env):
    vals = [O.value_of(p, env.spec) for p in env.patterns]
    arr = np.empty(len(vals), dtype=object)
    arr[:] = vals
    return arr.reshape(env.shape).tolist()


def _a_list(env):
    if env.has_nan:
        return _exact_values(env)
    if env.size == 0 and env.shape != (0,):
        return "n/a:nested-list-cannot-express-shape"
    return None


def _b_irtensor_list(env):
    value = _nested(env)
    return lambda: ir.tensor(value, dtype=env.dtype)


def _b_irtensor_array(env):
    arr = O.typed_array(env.patterns, env.spec, env.shape)
    return lambda: ir.tensor(arr, name="t")


_reg(RepDef("Tensor/ml", "Tensor", None, _ok, _b_tensor_ml, cls="Tensor"))
_reg(RepDef("Tensor/ml+dtype", "Tensor", "Tensor/ml", _ok, _b_tensor_ml_dtype, cls="Tensor"))
_reg(RepDef("Tensor/bits", "Tensor/bit-pattern-array", "Tensor/ml", _non_native, _b_tensor_bits, cls="Tensor"))
_reg(RepDef("Tensor/int8", "Tensor/int8-array", "Tensor/ml", _a_int8, _b_tensor_int8, cls="Tensor"))
_reg(RepDef("Tensor/noncontig", "Tensor/noncontiguous", "Tensor/ml", _a_noncontig, _b_tensor_noncontig, cls="Tensor"))
_reg(RepDef("Tensor/arraylike", "Tensor/array-compatible", "Tensor/ml", _ok, _b_tensor_arraylike, cls="Tensor"))
_reg(RepDef("Tensor/dlpack", "Tensor/dlpack", "Tensor/ml", _a_dlpack, _b_tensor_dlpack, cls="Tensor"))
_reg(RepDef("ir.tensor/array", "ir.tensor(array)", "Tensor/ml", _ok, _b_irtensor_array, cls="Tensor"))
_reg(RepDef("ir.tensor/list", "ir.tensor(list)", "Tensor/ml", _a_list, _b_irtensor_list, pyfloat=True, cls="Tensor"))


# ---- plain Python numbers that are NOT exactly representable in the declared type ------------------
def _a_unrounded(env):
    sp = env.spec
    if not ((sp.kind == "float" and sp.bits <= 32) or sp.name == "COMPLEX64"):
        return "n/a:python-floats-are-exact-in-this-type"
    return _a_list(env)


def _trusted_conversions_agree(env, comp, flat_sources: np.ndarray) -> np.ndarray:
    """Per component: do the conversions of the trusted base - numpy/ml_dtypes turning ONE Python float
    into the element type, and the ONNX reference encoder onnx.helper.make_tensor - give the pattern the
    source was constructed for?  Where they do not (ml_dtypes narrows some types through float32 itself;
    FLOAT8E8M0 rounds up by definition) the expected value is ambiguous and the source is not used."""
    sp = env.spec
    n = env.size
    cpats = O.component_patterns(env.patterns, sp)
    exp = np.array(O.expected_bits(cpats, comp), dtype=np.uint64)
    if sp.kind == "complex":
        values = [complex(a, b) for a, b in zip(flat_sources[0::2].tolist(), flat_sources[1::2].tolist())]
    else:
        values = flat_sources.tolist()

    def comp_bits(arr):
        if sp.kind == "complex":
            arr = np.ascontiguousarray(arr).view(comp.np_dtype)
        return np.array(O.observed_bits(arr, comp), dtype=np.uint64)

    with np.errstate(all="ignore"):
        direct = comp_bits(np.array(values, dtype=sp.np_dtype)) == exp
    try:
        ref = comp_bits(numpy_helper.to_array(onnx_helper.make_tensor("g", sp.value, [n], values))) == exp
    except Exception:  # noqa: BLE001 - the reference encoder cannot express these values
        ref = np.zeros(exp.shape, dtype=bool)
    env.stats["report_only_trusted_base_conversion_differs:numpy-from-python-float"] += int((~direct).sum())
    env.stats["report_only_trusted_base_conversion_differs:onnx.helper.make_tensor"] += int((direct & ~ref).sum())
    return direct & ref


def unrounded_sources(env) -> list:
    """One Python float (complex) per element that is NOT a value of the element type but lies in the
    rounding interval of the element: just inside one end of it, or on an end that ties to the element.
    A source is used only when the trusted conversions agree on what it rounds to (else the next coarser
    distance from the end point, finally the exact value)."""
    sp = env.spec
    comp = O.component_spec(sp)
    cpats = O.component_patterns(env.patterns, sp)
    levels, exact = O.unrounded_candidates(comp, cpats)
    n = len(cpats)
    chosen = exact.copy()
    # the hardest distance first for most elements; a few start further away from the end point
    start = np.array([(0, 0, 2, 0, 1, 3)[i % 6] for i in range(n)], dtype=np.int64)
    open_ = np.isfinite(exact)
    level_of = np.full(n, -1, dtype=np.int64)
    for lv, cand in enumerate(levels):
        want = open_ & (start <= lv) & (cand != exact)
        if not want.any():
            continue
        agree = _trusted_conversions_agree(env, comp, np.where(want, cand, exact))
        take = want & agree
        chosen = np.where(take, cand, chosen)
        level_of[take] = lv
        open_ &= ~take
    for lv in range(len(levels)):
        k = int((level_of == lv).sum())
        if k:
            env.stats[f"unrounded_elements@eps={O.ROUNDING_EPS[lv]:g}"] += k
    env.stats["unrounded_elements"] += int((level_of >= 0).sum())
    env.stats["unrounded_elements_hard(eps<=2^-30)"] += int(((level_of >= 0) & (level_of <= 2)).sum())
    env.stats["unrounded_elements_fallback_exact"] += int((level_of < 0).sum())
    if sp.kind == "complex":
        return [complex(a, b) for a, b in zip(chosen[0::2].tolist(), chosen[1::2].tolist())]
    return chosen.tolist()


def _b_irtensor_list_unrounded(env):
    vals = unrounded_sources(env)
    arr = np.empty(len(vals), dtype=object)
    arr[:] = vals
    value = arr.reshape(env.shape).tolist()
    return lambda: ir.tensor(value, dtype=env.dtype)


_reg(RepDef("ir.tensor/list:unrounded", "ir.tensor(list of floats that need rounding)", "ir.tensor/list", _a_unrounded,
            _b_irtensor_list_unrounded, pyfloat=True, cls="Tensor"))


# ---- arrays whose storage differs from the native layout of the element type ------------------------
def _a_multibyte_native(env):
    if env.spec.name in O.NON_NATIVE or env.spec.bits < 16:
        return "n/a:no-byte-order-or-alignment"
    return None


def _swapped(env) -> np.ndarray:
    typed = O.typed_array(env.patterns, env.spec, env.shape)
    order = ">" if np.little_endian else "<"
    arr = typed.byteswap().view(typed.dtype.newbyteorder(order))    # same values, opposite byte order in memory
    assert arr.dtype.byteorder == order and arr.astype(typed.dtype).tobytes() == typed.tobytes()   # harness self-check
    return arr


def _b_tensor_swapped(env):
    arr = _swapped(env)
    return lambda: ir.Tensor(arr)


def _b_tensor_swapped_dtype(env):
    arr = _swapped(env)
    return lambda: ir.Tensor(arr, dtype=env.dtype)


def _b_irtensor_swapped(env):
    arr = _swapped(env)
    return lambda: ir.tensor(arr)


def _b_tensor_unaligned(env):
    raw = bytearray(b"\xa5" + env.exp_bytes + b"\x5a")
    arr = np.frombuffer(raw, dtype=env.spec.np_dtype, offset=1, count=env.size).reshape(env.shape)
    return lambda: ir.Tensor(arr)


# A constructor may refuse an array in non-native byte order (extra["may_refuse"]); a tensor that IS built
# must agree with every other representation.
_reg(RepDef("Tensor/byteswapped", "Tensor/non-native-byte-order-array", "Tensor/ml", _a_multibyte_native, _b_tensor_swapped,
            cls="Tensor", extra={"may_refuse": True}))
_reg(RepDef("Tensor/byteswapped+dtype", "Tensor/non-native-byte-order-array", "Tensor/byteswapped", _a_multibyte_native,
            _b_tensor_swapped_dtype, cls="Tensor", extra={"may_refuse": True}))
_reg(RepDef("ir.tensor/byteswapped-array", "ir.tensor(non-native-byte-order-array)", "Tensor/byteswapped", _a_multibyte_native,
            _b_irtensor_swapped, cls="Tensor", extra={"may_refuse": True}))
_reg(RepDef("Tensor/unaligned", "Tensor/unaligned-array", "Tensor/ml", _a_multibyte_native, _b_tensor_unaligned, cls="Tensor"))


# ---- packed ------------------------------------------------------------------------------------
def _b_packed(env):
    arr = np.frombuffer(env.exp_bytes, dtype=np.uint8).copy()
    return lambda: ir.PackedTensor(arr, env.dtype, shape=ir.Shape(env.shape))


def _b_packed_int8(env):
    arr = np.frombuffer(env.exp_bytes, dtype=np.int8).copy()
    return lambda: ir.PackedTensor(arr, env.dtype, shape=list(env.shape))


def _b_packed_torch(env):
    t = torch()
    if env.exp_bytes:
        x = t.frombuffer(bytearray(env.exp_bytes), dtype=t.uint8)
    else:
        x = t.empty((0,), dtype=t.uint8)
    return lambda: ir.PackedTensor(x, env.dtype, shape=ir.Shape(env.shape))


_reg(RepDef("PackedTensor/ndarray", "PackedTensor", None, _subbyte, _b_packed, cls="PackedTensor"))
_reg(RepDef("PackedTensor/int8view", "PackedTensor/int8-array", "PackedTensor/ndarray", _subbyte, _b_packed_int8, cls="PackedTensor"))
_reg(RepDef("PackedTensor/torch", "PackedTensor/torch-uint8", "PackedTensor/ndarray", _subbyte, _b_packed_torch, cls="PackedTensor"))


# ---- proto backed ------------------------------------------------------------------------------
def proto_base(env, name="t"):
    p = onnx.TensorProto()
    p.name = name
    p.data_type = env.spec.value
    p.dims.extend(env.shape)
    return p


def typed_field_values(env) -> list:
    sp = env.spec
    if sp.field == "int32_data":
        if sp.bits < 8:
            return list(env.exp_bytes)          # already packed, one byte per int32
        if sp.kind == "int":
            return [O.sign_extend(p, sp.bits) for p in env.patterns]
        return list(env.patterns)
    if sp.field == "int64_data":
        return [O.sign_extend(p, 64) for p in env.patterns]
    if sp.field == "uint64_data":
        return list(env.patterns)
    if sp.field in ("float_data", "double_data"):
        out = []
        for p in env.patterns:
            v = O.value_of(p, sp)
            if sp.kind == "complex":
                out += [v.real, v.imag]
            else:
                out.append(v)
        return out
    raise AssertionError(sp)


def _b_proto_raw(env):
    def make():
        p = proto_base(env)
        p.raw_data = env.exp_bytes
        return ir_serde.TensorProtoTensor(p)
    return make


def _b_proto_raw_deser(env):
    def make():
        p = proto_base(env)
        p.raw_data = env.exp_bytes
        return ir_serde.deserialize_tensor(p)
    return make


def _b_proto_raw_from_array(env):
    arr = O.typed_array(env.patterns, env.spec, env.shape)
    return lambda: ir_serde.TensorProtoTensor(numpy_helper.from_array(arr, "t"))


def _b_proto_raw_make_tensor(env):
    return lambda: ir_serde.TensorProtoTensor(
        onnx_helper.make_tensor("t", env.spec.value, list(env.shape), env.exp_bytes, raw=True))


def _b_irtensor_proto(env):
    def make():
        p = proto_base(env)
        p.raw_data = env.exp_bytes
        return ir.tensor(p, name="renamed")
    return make


def _b_proto_typed(env):
    vals = typed_field_values(env)

    def make():
        p = proto_base(env)
        getattr(p, env.spec.field).extend(vals)
        return ir_serde.TensorProtoTensor(p)
    return make


def _a_typed_make_tensor(env):
    if env.has_nan:
        return _exact_values(env)
    if env.tmp is None:
        return None
    try:
        p = _make_tensor_typed(env)
        back = numpy_helper.to_array(p)
    except Exception:  # noqa: BLE001 - onnx's own encoder cannot express this array
        return "skip:onnx.helper.make_tensor-rejects"
    if p.HasField("raw_data") or O.observed_bits(back, env.spec) != O.expected_bits(env.patterns, env.spec):
        return "skip:onnx.helper.make_tensor-inexact"
    return None


def _make_tensor_typed(env):
    vals = [O.value_of(p, env.spec) for p in env.patterns]
    return onnx_helper.make_tensor("t", env.spec.value, list(env.shape), vals, raw=False)


def _b_proto_typed_make_tensor(env):
    return lambda: ir_serde.TensorProtoTensor(_make_tensor_typed(env))


_reg(RepDef("TensorProtoTensor/raw_data", "TensorProtoTensor/raw_data", None, _ok, _b_proto_raw, cls="TensorProtoTensor"))
_reg(RepDef("TensorProtoTensor/raw_data:deserialize", "deserialize_tensor/raw_data", "TensorProtoTensor/raw_data", _ok, _b_proto_raw_deser, cls="TensorProtoTensor"))
_reg(RepDef("TensorProtoTensor/raw_data:from_array", "TensorProtoTensor/raw_data", "TensorProtoTensor/raw_data", _ok, _b_proto_raw_from_array, cls="TensorProtoTensor"))
_reg(RepDef("TensorProtoTensor/raw_data:make_tensor", "TensorProtoTensor/raw_data", "TensorProtoTensor/raw_data", _ok, _b_proto_raw_make_tensor, cls="TensorProtoTensor"))
_reg(RepDef("ir.tensor/proto", "ir.tensor(TensorProto)", "TensorProtoTensor/raw_data", _ok, _b_irtensor_proto, cls="TensorProtoTensor"))
_reg(RepDef("TensorProtoTensor/typed", "TensorProtoTensor/typed-field", None, _ok, _b_proto_typed, pyfloat=True, cls="TensorProtoTensor"))
_reg(RepDef("TensorProtoTensor/typed:make_tensor", "TensorProtoTensor/typed-field", "TensorProtoTensor/typed", _a_typed_make_tensor, _b_proto_typed_make_tensor, pyfloat=True, cls="TensorProtoTensor"))


# ---- external ------------------------------------------------------------------------------------
def _ext_file(env, prefix_len: int, tail_len: int) -> tuple[str, int]:
    path = env.path("ext")
    prefix = bytes(env.rng.getrandbits(8) | 0x80 for _ in range(prefix_len))
    tail = bytes(env.rng.getrandbits(8) | 0x80 for _ in range(tail_len))
    with open(path, "wb") as f:
        f.write(prefix + env.exp_bytes + tail)
    return os.path.basename(path), prefix_len


def _mk_ext(layout: str):
    def build(env):
        n = len(env.exp_bytes)
        odd = 2 * env.rng.randrange(0, 20) + 1
        if layout == "off0+tail":
            loc, off = _ext_file(env, 0, 5)
            args = (0, n)
        elif layout == "odd+tail":
            loc, off = _ext_file(env, odd, 5)
            args = (off, n)
        elif layout == "odd+eof":
            loc, off = _ext_file(env, odd, 0)
            args = (off, n)
        elif layout == "off0+eof,nolen":
            loc, off = _ext_file(env, 0, 0)
            args = (None, None)
        elif layout == "page+tail":
            loc, off = _ext_file(env, 4096 + odd, 5)
            args = (off, n)
        elif layout == "chunk5":
            loc, off = _ext_file(env, odd, 5)
            args = (off, n)
        else:
            raise AssertionError(layout)
        return lambda: ir.ExternalTensor(loc, args[0], args[1], env.dtype, shape=ir.Shape(env.shape),
                                         name="t", base_dir=env.tmp)
    return build


def _b_ext_nolen_tail(env):
    # length omitted although data follows: the byte count must come from dtype and shape
    loc, off = _ext_file(env, 2 * env.rng.randrange(0, 20) + 1, 5)
    return lambda: ir.ExternalTensor(loc, off, None, env.dtype, shape=ir.Shape(env.shape), name="t",
                                     base_dir=env.tmp)


def external_proto(env, loc: str, off: int | None, length: int | None):
    p = proto_base(env)
    p.data_location = onnx.TensorProto.EXTERNAL
    for k, v in (("location", loc), ("offset", off), ("length", length)):
        if v is not None:
            e = p.external_data.add()
            e.key, e.value = k, str(v)
    return p


def _b_ext_serde(env):
    loc, off = _ext_file(env, 2 * env.rng.randrange(0, 20) + 1, 5)
    n = len(env.exp_bytes)
    return lambda: ir_serde.deserialize_tensor(external_proto(env, loc, off, n), env.tmp)


@contextlib.contextmanager
def _chunk5():
    old = ir_core._EXTERNAL_TENSOR_COPY_CHUNK_SIZE
    ir_core._EXTERNAL_TENSOR_COPY_CHUNK_SIZE = 5   # module global looked up at call time
    try:
        yield
    finally:
        ir_core._EXTERNAL_TENSOR_COPY_CHUNK_SIZE = old


_reg(RepDef("ExternalTensor/off0+tail", "ExternalTensor", None, _ok, _mk_ext("off0+tail"), cls="ExternalTensor", external=True))
_reg(RepDef("ExternalTensor/odd+tail", "ExternalTensor/offset>0", "ExternalTensor/off0+tail", _ok, _mk_ext("odd+tail"), cls="ExternalTensor", external=True))
_reg(RepDef("ExternalTensor/odd+eof", "ExternalTensor/at-end-of-file", "ExternalTensor/odd+tail", _ok, _mk_ext("odd+eof"), cls="ExternalTensor", external=True))
_reg(RepDef("ExternalTensor/off0+eof,nolen", "ExternalTensor/whole-file,offset=None,length=None", "ExternalTensor/odd+eof", _ok, _mk_ext("off0+eof,nolen"), cls="ExternalTensor", external=True))
_reg(RepDef("ExternalTensor/odd+tail,nolen", "ExternalTensor/length=None", "ExternalTensor/odd+tail", _ok, _b_ext_nolen_tail, cls="ExternalTensor", external=True))
_reg(RepDef("ExternalTensor/page+tail", "ExternalTensor/offset>pagesize", "ExternalTensor/odd+tail", _ok, _mk_ext("page+tail"), cls="ExternalTensor", external=True))
_reg(RepDef("ExternalTensor/chunk5", "ExternalTensor/multi-chunk-copy", "ExternalTensor/odd+tail", _ok, _mk_ext("chunk5"), cls="ExternalTensor", external=True, context=_chunk5))
_reg(RepDef("ExternalTensor/serde", "deserialize_tensor/external", "ExternalTensor/odd+tail", _ok, _b_ext_serde, cls="ExternalTensor", external=True))


# ---- torch adapter ---------------------------------------------------------------------------------
def _a_torch(env):
    if env.spec.torch is None:
        return "n/a:adapter-documents-no-torch-dtype"
    if env.tmp is not None and not hasattr(torch(), env.spec.torch):
        return "skip:torch-build-lacks-dtype"
    return None


def _elem_bytes(env) -> tuple[bytes, int]:
    """Per-element storage as torch keeps it: sub-byte shell dtypes use one byte per element."""
    if env.spec.bits < 8:
        return bytes(env.patterns), 1
    return env.exp_bytes, env.spec.bits // 8


def _torch_tensor(env):
    t = torch()
    dt = getattr(t, env.spec.torch)
    data, _ = _elem_bytes(env)
    if env.size == 0:
        return t.empty(env.shape, dtype=dt)
    return t.frombuffer(bytearray(data), dtype=dt).reshape(env.shape)


def _b_torch(env):
    x = _torch_tensor(env)
    return lambda: tensor_adapters.TorchTensor(x, name="t")


def _b_irtensor_torch(env):
    x = _torch_tensor(env)
    return lambda: ir.tensor(x)


def _a_torch_noncontig(env):
    r = _a_torch(env) or _a_noncontig(env)
    if r is None and env.spec.bits < 8:
        return "skip:torch-cannot-copy-shell-dtypes"   # torch: "copy_kernel" not implemented for 'UInt2'
    return r


def _b_torch_noncontig(env):
    t = torch()
    dt = getattr(t, env.spec.torch)
    data, isz = _elem_bytes(env)
    rank = len(env.shape)
    eb = np.frombuffer(data, dtype=np.uint8).reshape(env.shape + (isz,))
    perm = tuple(reversed(range(rank)))
    ebt = np.ascontiguousarray(eb.transpose(*perm, rank))
    xt = t.frombuffer(bytearray(ebt.tobytes()), dtype=dt).reshape(tuple(reversed(env.shape)))
    x = xt.permute(*perm)
    assert tuple(x.shape) == env.shape
    return lambda: tensor_adapters.TorchTensor(x)


_reg(RepDef("TorchTensor/contig", "TorchTensor", None, _a_torch, _b_torch, cls="TorchTensor"))
_reg(RepDef("TorchTensor/noncontig", "TorchTensor/noncontiguous", "TorchTensor/contig", _a_torch_noncontig, _b_torch_noncontig, cls="TorchTensor"))
_reg(RepDef("ir.tensor/torch", "ir.tensor(torch)", "TorchTensor/contig", _a_torch, _b_irtensor_torch, cls="TorchTensor"))


# ---- views: same logical array, unusual memory layout --------------------------------------------------
def _garbage_like(env, n: int, dtype) -> np.ndarray:
    """n elements of deterministic non-zero junk with the given numpy dtype."""
    isz = np.dtype(dtype).itemsize
    raw = bytes(((7 * i + 0xA5) & 0x7F) | 0x01 for i in range(n * isz))
    if np.dtype(dtype) == np.bool_:
        return np.ones(n, dtype=np.bool_)
    return np.frombuffer(raw, dtype=dtype).copy()


def _flat_typed(env) -> np.ndarray:
    return O.typed_array(env.patterns, env.spec, (env.size,))


def _b_tensor_offset(env):
    k = 1 + env.rng.randrange(0, 5)
    flat = _flat_typed(env)
    big = np.concatenate([_garbage_like(env, k, flat.dtype), flat, _garbage_like(env, 3, flat.dtype)])
    arr = big[k:k + env.size].reshape(env.shape)
    assert env.size == 0 or arr.base is not None
    return lambda: ir.Tensor(arr)


def _a_rank1(env):
    return None if (len(env.shape) >= 1 and env.size > 1) else "n/a:needs-rank>=1-and-size>1"


def _b_tensor_negstride(env):
    typed = O.typed_array(env.patterns, env.spec, env.shape)
    idx = tuple(slice(None, None, -1) for _ in env.shape)
    arr = np.ascontiguousarray(typed[idx])[idx]          # same logical content, all strides negative
    return lambda: ir.Tensor(arr)


def _b_tensor_strided(env):
    typed = O.typed_array(env.patterns, env.spec, env.shape)
    big = _garbage_like(env, env.size * 2, typed.dtype).reshape(env.shape[:-1] + (env.shape[-1] * 2,))
    big[..., ::2] = typed
    arr = big[..., ::2]
    return lambda: ir.Tensor(arr)


def _b_tensor_readonly(env):
    arr = O.typed_array(env.patterns, env.spec, env.shape).copy()
    arr.flags.writeable = False
    return lambda: ir.Tensor(arr)


def _a_constant(env):
    if len(env.shape) < 1 or env.size < 2:
        return "n/a:needs-rank>=1-and-size>1"
    return None if len(set(env.patterns)) == 1 else "n/a:broadcast-needs-constant-data"


def _b_tensor_broadcast(env):
    one = O.typed_array(env.patterns[:1], env.spec, ())
    arr = np.broadcast_to(one, env.shape)                # every stride is zero
    return lambda: ir.Tensor(arr)


_reg(RepDef("Tensor/offset-slice", "Tensor/view-with-offset", "Tensor/ml", _ok, _b_tensor_offset, cls="Tensor"))
_reg(RepDef("Tensor/neg-stride", "Tensor/negative-strides", "Tensor/noncontig", _a_rank1, _b_tensor_negstride, cls="Tensor"))
_reg(RepDef("Tensor/strided-slice", "Tensor/strided-slice", "Tensor/noncontig", _a_rank1, _b_tensor_strided, cls="Tensor"))
_reg(RepDef("Tensor/readonly", "Tensor/read-only-array", "Tensor/ml", _ok, _b_tensor_readonly, cls="Tensor"))
_reg(RepDef("Tensor/broadcast", "Tensor/zero-strides", "Tensor/ml", _a_constant, _b_tensor_broadcast, cls="Tensor"))


def _packed_u8(env) -> np.ndarray:
    return np.frombuffer(env.exp_bytes, dtype=np.uint8)


def _b_packed_offset(env):
    k = 1 + env.rng.randrange(0, 5)
    big = np.concatenate([_garbage_like(env, k, np.uint8), _packed_u8(env), _garbage_like(env, 2, np.uint8)])
    arr = big[k:k + len(env.exp_bytes)]
    return lambda: ir.PackedTensor(arr, env.dtype, shape=ir.Shape(env.shape))


def _a_packed_multi(env):
    return _subbyte(env) or (None if len(env.exp_bytes) > 1 else "n/a:needs->1-packed-bytes")


def _b_packed_strided(env):
    n = len(env.exp_bytes)
    big = _garbage_like(env, 2 * n, np.uint8)
    big[::2] = _packed_u8(env)
    arr = big[::2]
    return lambda: ir.PackedTensor(arr, env.dtype, shape=ir.Shape(env.shape))


def _b_packed_negstride(env):
    arr = np.ascontiguousarray(_packed_u8(env)[::-1])[::-1]
    return lambda: ir.PackedTensor(arr, env.dtype, shape=ir.Shape(env.shape))


def _b_packed_readonly(env):
    arr = _packed_u8(env)                                  # frombuffer over bytes: read-only
    assert not arr.flags.writeable
    return lambda: ir.PackedTensor(arr, env.dtype, shape=ir.Shape(env.shape))


def _b_packed_torch_offset(env):
    t = torch()
    k = 1 + env.rng.randrange(0, 5)
    w = t.frombuffer(bytearray(bytes(_garbage_like(env, k, np.uint8)) + env.exp_bytes + b"\x55"), dtype=t.uint8)
    x = w[k:k + len(env.exp_bytes)]
    return lambda: ir.PackedTensor(x, env.dtype, shape=ir.Shape(env.shape))


_reg(RepDef("PackedTensor/offset-slice", "PackedTensor/view-with-offset", "PackedTensor/ndarray", _subbyte, _b_packed_offset, cls="PackedTensor"))
_reg(RepDef("PackedTensor/strided-slice", "PackedTensor/strided-slice", "PackedTensor/ndarray", _a_packed_multi, _b_packed_strided, cls="PackedTensor"))
_reg(RepDef("PackedTensor/neg-stride", "PackedTensor/negative-strides", "PackedTensor/ndarray", _a_packed_multi, _b_packed_negstride, cls="PackedTensor"))
_reg(RepDef("PackedTensor/readonly", "PackedTensor/read-only-array", "PackedTensor/ndarray", _subbyte, _b_packed_readonly, cls="PackedTensor"))
_reg(RepDef("PackedTensor/torch-offset", "PackedTensor/torch-uint8-view-with-offset", "PackedTensor/torch", _subbyte, _b_packed_torch_offset, cls="PackedTensor"))


def _torch_flat_with_prefix(env, k: int, tail: int):
    """1-D torch tensor: k junk elements, the data, `tail` junk elements (one storage)."""
    t = torch()
    dt = getattr(t, env.spec.torch)
    data, isz = _elem_bytes(env)
    junk = bytes(_garbage_like(env, (k + tail) * isz, np.uint8))
    if env.spec.kind == "bool":
        junk = bytes(b & 1 for b in junk)
    if env.spec.bits < 8:
        junk = bytes(b & ((1 << env.spec.bits) - 1) for b in junk)
    buf = bytearray(junk[:k * isz] + data + junk[k * isz:])
    return t.frombuffer(buf, dtype=dt)


def _b_torch_offset(env):
    k = 1 + env.rng.randrange(0, 5)
    w = _torch_flat_with_prefix(env, k, 2)
    x = w.narrow(0, k, env.size).reshape(env.shape)      # C-contiguous view, storage_offset() == k
    assert env.size == 0 or (x.storage_offset() == k and x.is_contiguous())
    return lambda: tensor_adapters.TorchTensor(x)


def _a_torch_chunk(env):
    r = _a_torch(env)
    if r is None and (len(env.shape) < 1 or env.size == 0):
        return "n/a:needs-rank>=1-and-size>0"
    return r


def _b_torch_chunk(env):
    """Second result of torch.chunk on a fused tensor whose second half is D."""
    t = torch()
    w = _torch_flat_with_prefix(env, env.size, 0).reshape((2 * env.shape[0],) + env.shape[1:])
    x = t.chunk(w, 2, dim=0)[1]
    assert tuple(x.shape) == env.shape and x.storage_offset() == env.size
    return lambda: ir.tensor(x)


def _a_torch_strided(env):
    r = _a_torch(env) or _a_rank1(env)
    if r is None and env.spec.bits < 8:
        return "skip:torch-cannot-copy-shell-dtypes"
    return r


def _b_torch_strided(env):
    t = torch()
    dt = getattr(t, env.spec.torch)
    data, isz = _elem_bytes(env)
    eb = np.frombuffer(data, dtype=np.uint8).reshape(env.shape + (isz,))
    big = _garbage_like(env, env.size * 2 * isz, np.uint8).reshape(env.shape[:-1] + (env.shape[-1] * 2, isz))
    if env.spec.kind == "bool":
        big &= 1
    big[..., ::2, :] = eb
    w = t.frombuffer(bytearray(big.tobytes()), dtype=dt).reshape(env.shape[:-1] + (env.shape[-1] * 2,))
    x = w[..., ::2]
    assert tuple(x.shape) == env.shape
    return lambda: tensor_adapters.TorchTensor(x)


def _a_torch_expand(env):
    r = _a_torch(env) or _a_constant(env)
    if r is None and env.spec.bits < 8:
        return "skip:torch-cannot-copy-shell-dtypes"
    return r


def _b_torch_expand(env):
    t = torch()
    dt = getattr(t, env.spec.torch)
    data, isz = _elem_bytes(env)
    one = t.frombuffer(bytearray(data[:isz]), dtype=dt).reshape(())
    x = one.expand(env.shape)                             # zero strides
    return lambda: tensor_adapters.TorchTensor(x)


_reg(RepDef("TorchTensor/storage-offset", "TorchTensor/view-with-storage-offset", "TorchTensor/contig", _a_torch, _b_torch_offset, cls="TorchTensor"))
_reg(RepDef("TorchTensor/chunk", "TorchTensor/view-with-storage-offset", "TorchTensor/storage-offset", _a_torch_chunk, _b_torch_chunk, cls="TorchTensor"))
_reg(RepDef("TorchTensor/strided-slice", "TorchTensor/strided-slice", "TorchTensor/noncontig", _a_torch_strided, _b_torch_strided, cls="TorchTensor"))
_reg(RepDef("TorchTensor/expand", "TorchTensor/zero-strides", "TorchTensor/contig", _a_torch_expand, _b_torch_expand, cls="TorchTensor"))


# ---- lazy ---------------------------------------------------------------------------------------------
def _mk_lazy(base: str, cache: bool):
    def applicable(env):
        return REPS[base].applicable(env)

    def build(env):
        inner = REPS[base].build(env)
        return lambda: ir.LazyTensor(inner, dtype=env.dtype, shape=ir.Shape(env.shape), cache=cache, name="lazy")
    return applicable, build


for _base in ("Tensor/ml", "PackedTensor/ndarray", "TensorProtoTensor/raw_data", "TensorProtoTensor/typed",
              "ExternalTensor/odd+tail", "TorchTensor/contig", "TorchTensor/storage-offset"):
    for _cache in (False, True):
        _a, _b = _mk_lazy(_base, _cache)
        _reg(RepDef(f"LazyTensor[cache={_cache}]/{_base}", f"LazyTensor[cache={_cache}] over {REPS[_base].sig}",
                    _base, _a, _b, pyfloat=REPS[_base].pyfloat, cls="LazyTensor", base=_base,
                    external=REPS[_base].external))

REP_NAMES = list(REPS)
