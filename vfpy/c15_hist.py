"""C15 workload A: add/remove/re-add histories with explicit names shaped like generated ones.

The monitor is generic: it looks at the whole world before and after every call and derives, from
public accessors only, (i) which nodes entered which graph during the call and which graphs were
constructed, (ii) which of their names were explicit (non-None before the call) and which were
ASSIGNED by the graph (None before, non-None after).  Per graph it keeps the set R of names it
KNOWS the graph registered or assigned in EARLIER calls:

  * names of inputs / initializers that were already named when the graph was constructed,
  * names of nodes and of their outputs that were already named when the node entered the graph,
  * names the graph assigned.

R under-approximates what the graph registered (inputs/initializers added later and renames after
the add are not in R), hence an alarm is always a real repetition of a name the graph had
registered or assigned before.

Within ONE call "before" is the public order of the call's arguments: a graph adds the nodes of
extend / insert_* / Node.prepend / Node.append / Graph(nodes=...) in the order of the sequence it
was given, a node's outputs in the order of ``node.outputs``, and Graph(...) has its inputs and
initializers before any of its nodes is added.  An explicit name at an EARLIER position of the same
call is therefore registered before a name is assigned at a LATER position (clause A4); an explicit
name at a later position (or unordered: input vs initializer of one constructor call) was not
registered before, the statement is silent about it and the equality is counted report_only.

Clauses
  A1  an assigned name is in R (of the same graph and namespace: nodes / values)
  A2  two objects were assigned the same name by one graph in one call (one of them came second)
  A3  a call that adds nodes / constructs a graph altered a name that was not None before it
  A4  an assigned name equals an explicit name at an earlier position of the same call (an earlier output
      of the same node, a node earlier in the sequence argument, an input/initializer of the constructor)
"""

from __future__ import annotations

import re

import onnx_ir as ir

from vfpy.gen_ops import DEFAULT_WEIGHTS, Gen

OPS_A = ["Add", "Relu"]
VAL_NAMES = [None, None, None, None, "val_0", "val_1", "val_2", "val_3", "val_4", "val_5", "val_6", "val_8",
             "x", "w", "", "val_1"]
# convenience.replace_nodes_and_values is left out of the alphabet: it propagates names from the old to the
# new values by design (a documented rename, not "adding a node"), before the new nodes enter the graph
ADD_OPS = {"node", "graph", "append", "extend", "ins_before", "ins_after", "n_prepend", "n_append"}
# index, in the operation descriptor, of the node (sequence) argument whose order is the order of adding
_ARG_NODES = {"append": 2, "extend": 2, "ins_before": 3, "ins_after": 3, "n_prepend": 2, "n_append": 2, "graph": 3}
_CTOR_POS = (-1, 0)  # inputs / initializers of Graph(...): before every node, unordered among themselves

WEIGHTS_A = dict.fromkeys(DEFAULT_WEIGHTS, 0)
WEIGHTS_A.update({
    "val": 4, "node": 10, "graph": 3, "func": 0.6, "attr_graph": 0.4,
    "append": 6, "extend": 4, "ins_before": 3, "ins_after": 3, "remove": 7, "n_prepend": 1.5, "n_append": 1.5,
    "sort": 0.2, "rsz_out": 0.8, "rin": 0.5,
    "v_name": 3, "n_name": 2, "c_rename": 0.4, "io_append": 0.8, "io_pop": 0.4, "in_add": 0.8, "in_pop": 0.3,
})

_VAL_RE = re.compile(r"^val_(\d+)$")
_NODE_RE = re.compile(r"^node_(.*)_(\d+)$")


class GenA(Gen):
    """The shared generator with a name alphabet dense in generated-looking names."""

    def name(self):
        return self.rng.choice(VAL_NAMES)

    def node_name(self, op_type):
        r = self.rng.random()
        if r < 0.45:
            return None
        if r < 0.9:
            return f"node_{self.rng.choice(OPS_A)}_{self.rng.randrange(7)}" if r > 0.8 else f"node_{op_type}_{self.rng.randrange(7)}"
        return self.rng.choice(["n", "", "val_1"])

    # ---- mixed-output scenarios ------------------------------------------------------------------------
    # A short planned sequence of ordinary operations, resumed one operation per op() call so that every step
    # can look at the world the previous step left: (optionally) learn where the target graph's counters stand
    # by adding an unnamed probe node and reading the names it was given, create values whose names are a mix
    # of None / generated-shaped names at or just above the counter / plain names in a random order, make them
    # the outputs of one node (or of two nodes of one sequence argument) and add the node(s) to the graph through
    # one of the adding calls.  Nothing here is special to a call: the steps are entries of the shared alphabet.
    MIXED_PATHS = ["append", "extend", "ins_before", "ins_after", "n_prepend", "n_append", "node_graph", "graph_ctor"]
    mixed_rate = 0.045
    _scn = None

    def op(self):
        if self._scn is not None:
            try:
                return next(self._scn)
            except StopIteration:
                self._scn = None
        w = self.w
        if w.graphs and len(w.nodes) >= 2 and len(w.values) >= 3 and self.rng.random() < self.mixed_rate:
            self._scn = self._mixed_scenario()
            return next(self._scn)
        return super().op()

    def _estimate(self, g):
        """Lower bounds of the graph's value / node counters from what is publicly visible in it now."""
        vb = nb = 0
        try:
            vals = list(g.inputs) + list(g.initializers.values()) + [v for n in g for v in n.outputs]
            for v in vals:
                m = _VAL_RE.match(v.name or "")
                if m:
                    vb = max(vb, int(m.group(1)) + 1)
            for n in g:
                m = _NODE_RE.match(n.name or "")
                if m:
                    nb = max(nb, int(m.group(2)) + 1)
        except Exception:  # noqa: BLE001 - a graph whose accessors fail is not this generator's business
            pass
        return vb, nb

    def _mixed_scenario(self):
        rng, w = self.rng, self.w
        path = rng.choice(self.MIXED_PATHS)
        c = g = None
        vbase = nbase = 0
        if path != "graph_ctor":
            c = self.any_c()
            g = self.cont_graph(c)
            vbase, nbase = self._estimate(g)
            if rng.random() < 0.65 or (path in ("ins_before", "ins_after", "n_prepend", "n_append") and not len(g)):
                # probe: an unnamed single-output node constructed into the container; the names the graph gives it
                # tell where its counters stand
                n0 = len(w.nodes)
                yield ["node", rng.choice(OPS_A), [], 1, None, c, None, None]
                if len(w.nodes) > n0 and w.nodes[n0].graph is g and len(w.nodes[n0].outputs) == 1:
                    m = _VAL_RE.match(w.nodes[n0].outputs[0].name or "")
                    if m:
                        vbase = int(m.group(1)) + 1
                    m = _NODE_RE.match(w.nodes[n0].name or "")
                    if m:
                        nbase = int(m.group(2)) + 1
        # --- the output pattern: U unnamed, S generated-shaped at/above the counter, P plain --------------------
        k = rng.choice([2, 2, 3, 3, 4])
        pattern = ["U", "S"] + [rng.choice("USSP") for _ in range(k - 2)]
        rng.shuffle(pattern)
        n_u = pattern.count("U")
        ctor_inputs = []
        if path == "graph_ctor":
            ctor_inputs = [rng.choice("USP") for _ in range(rng.randint(0, 2))]
            vbase = ctor_inputs.count("U")  # unnamed inputs are named first
        offs = list(range(n_u + 1))
        rng.shuffle(offs)

        def name_of(kind):
            if kind == "U":
                return None
            if kind == "P":
                return rng.choice(["keep", "x", "w", "out"])
            return f"val_{vbase + (offs.pop() if offs else rng.randrange(n_u + 2))}"

        def make_values(kinds):
            """One 'val' call per kind; returns the pool indices of the new values (None if a call made none)."""
            idxs = []
            for kind in kinds:
                i = len(w.values)
                yield ["val", name_of(kind), None, rng.randrange(4)]
                if len(w.values) <= i:
                    return None
                idxs.append(i)
            return idxs

        in_idx = yield from make_values(ctor_inputs)
        if in_idx is None:
            return
        out_idx = yield from make_values(pattern)
        if out_idx is None:
            return
        # --- one node, or two nodes of one sequence argument ---------------------------------------------------
        two = path not in ("append", "node_graph") and rng.random() < 0.4
        cut = rng.randint(1, k - 1) if two else k
        chunks = [out_idx[:cut]] + ([out_idx[cut:]] if two else [])
        ops = [rng.choice(OPS_A) for _ in chunks]
        if two and rng.random() < 0.6:
            # node namespace: an explicit generated-shaped node name on the first node, none on the second
            names = [f"node_{ops[1]}_{nbase + rng.randrange(2)}", None]
        else:
            names = [self.node_name(o) if rng.random() < 0.5 else None for o in ops]
        node_idx = []
        for chunk, o, nm in zip(chunks, ops, names):
            ins = [] if (g is None or rng.random() < 0.5) else [self.v_for_graph(g, False)]
            j = len(w.nodes)
            yield ["node", o, ins, None, chunk, c if path == "node_graph" else None, nm, None]
            if len(w.nodes) <= j:
                return
            node_idx.append(j)
        if path == "node_graph":
            return
        seq = list(node_idx)
        if path != "append" and rng.random() < 0.3 and w.nodes:
            seq.insert(rng.randrange(len(seq) + 1), self.detached_n())  # a bystander in the same sequence argument
        single = len(seq) == 1 and rng.random() < 0.5
        if path == "append":
            yield ["append", c, seq[0]]
        elif path == "extend":
            yield ["extend", c, seq]
        elif path in ("ins_before", "ins_after"):
            yield [path, c, self.n_in(g), seq, single]
        elif path in ("n_prepend", "n_append"):
            yield [path, self.n_in(g), seq, single]
        else:
            yield ["graph", in_idx, [out_idx[-1]] if rng.random() < 0.5 else [], seq, [], rng.choice([None, "g", "main"])]

    def _node(self):
        op = super()._node()
        op[1] = self.rng.choice(OPS_A)
        op[6] = self.node_name(op[1])
        if op[5] is None and self.rng.random() < 0.2:
            op[5] = self.any_c()
        return op

    def _n_name(self):
        n = self.any_n()
        node = self.w.nodes[n % len(self.w.nodes)]
        return ["n_name", n, self.node_name(node.op_type)]

    def _remove(self):
        op = super()._remove()
        op[4] = False if self.rng.random() < 0.7 else op[4]
        return op


class NameMonitor:
    """before()/after() protocol of vfpy.histories.replay_ops."""

    def __init__(self, ctx=None):
        self.ctx = ctx
        self.R = {}       # id(graph) -> {"v": {name: provenance}, "n": {name: provenance}}
        self.traps = {}   # id(graph) -> {"v": set(int), "n": set((op, int))}  explicit generated-shaped names not yet passed
        self.maxidx = {}  # id(graph) -> {"v": int, "n": int} largest generated index seen assigned
        self.assigned_total = 0
        self.traps_passed = 0
        self.readds = 0

    def _count(self, key, n=1):
        if self.ctx is not None:
            self.ctx.count(key, n)

    def _r(self, g):
        return self.R.setdefault(id(g), {"v": {}, "n": {}})

    # ---- before ----------------------------------------------------------------------------------
    def before(self, w, op):
        nodes = {}
        for n in w.nodes:
            nodes[id(n)] = (n.graph, n.name)
        values = {id(v): v.name for v in w.values}
        # position of every node in the call's sequence argument (first occurrence), resolved as World.Ns does
        order = {}
        idxs = _ARG_NODES.get(op[0])
        if idxs is not None and w.nodes:
            arg = op[idxs]
            for pos, i in enumerate(arg if isinstance(arg, list) else [arg]):
                order.setdefault(id(w.nodes[i % len(w.nodes)]), pos)
        return {"nodes": nodes, "values": values, "ngraphs": len(w.graphs), "order": order,
                "had_graph": {id(n) for n in w.nodes if n.graph is not None}}

    # ---- after -----------------------------------------------------------------------------------
    def after(self, w, op, res, pre):
        if res.skipped:
            return None
        found = []
        kind = op[0]
        # (graph, namespace, name, label) assigned in this call; (graph, namespace, name, provenance) explicit
        assigned, explicit = [], []

        def value_before(v):
            # values that did not exist before the call were created unnamed by Node(num_outputs=k)
            return pre["values"].get(id(v), None)

        seen_objs = set()
        # position in the call of every assigned / explicit name: (index in the sequence argument, index in
        # node.outputs; -1 for the node's own name), _CTOR_POS for constructor inputs/initializers, None = unordered
        pos_assigned, pos_explicit = [], []

        def see_value(g, v, prov, pos):
            if (id(g), id(v)) in seen_objs:  # one value listed twice (graph inputs, node outputs) is one value
                return
            seen_objs.add((id(g), id(v)))
            vb = value_before(v)
            if vb is not None:
                explicit.append((g, "v", vb, prov))
                pos_explicit.append(pos)
            elif v.name is not None:
                assigned.append((g, "v", v.name, w.label(v)))
                pos_assigned.append(pos)
            else:
                self._count("A_report_only_left_unnamed")

        for n in w.nodes:
            st = pre["nodes"].get(id(n))
            if st is None:
                if kind != "node":
                    self._count("A_unattributed_new_node")
                    continue
                gb, nb = None, op[6]
            else:
                gb, nb = st
            ga = n.graph
            if ga is None or ga is gb:
                continue
            if st is not None:
                self.readds += 1
                self._count("A_nodes_added_existing")
            else:
                self._count("A_nodes_added_new")
            p = 0 if st is None else pre["order"].get(id(n))
            if nb is not None:
                explicit.append((ga, "n", nb, "explicit:node"))
                pos_explicit.append(None if p is None else (p, -1))
            elif n.name is not None:
                assigned.append((ga, "n", n.name, w.label(n)))
                pos_assigned.append(None if p is None else (p, -1))
            else:
                self._count("A_report_only_left_unnamed")
            outs = list(n.outputs)
            for j, v in enumerate(outs):
                see_value(ga, v, "explicit:node-output", None if p is None else (p, j))
            self._count_mixed(outs, pre)
        for g in w.graphs[pre["ngraphs"]:]:
            if kind != "graph":
                continue
            self._count("A_graphs_constructed")
            for v in g.inputs:
                see_value(g, v, "explicit:ctor-input", _CTOR_POS)
            for v in g.initializers.values():
                see_value(g, v, "explicit:ctor-initializer", _CTOR_POS)

        # A1 / A2
        seen_here = {}
        for g, ns, name, label in assigned:
            self.assigned_total += 1
            self._count("A_assigned_values" if ns == "v" else "A_assigned_nodes")
            r = self._r(g)[ns]
            if name in r:
                found.append((f"A1:assigned-name-reused|{'value' if ns == 'v' else 'node'}|prior={r[name]}",
                              f"{w.label(g)} assigned {name!r} to {label}, but it had {r[name]} {name!r} in an earlier call"))
            key = (id(g), ns, name)
            if key in seen_here:
                found.append((f"A2:assigned-twice-in-one-call|{'value' if ns == 'v' else 'node'}",
                              f"{w.label(g)} assigned {name!r} to both {seen_here[key]} and {label} in one call"))
            seen_here.setdefault(key, label)
            if len(r) and any(_VAL_RE.match(k) or _NODE_RE.match(k) for k, p in r.items() if p.startswith("explicit")):
                self._count("A_assigned_with_shaped_explicit_in_R")
        # A4: explicit names at an EARLIER position of the same call were registered before the assignment
        explicit_here = {}
        for (g, ns, name, prov), q in zip(explicit, pos_explicit):
            explicit_here.setdefault((id(g), ns, name), []).append((q, prov))
        for (g, ns, name, label), p in zip(assigned, pos_assigned):
            same = explicit_here.get((id(g), ns, name), ())
            earlier = [(q, prov) for q, prov in same if _earlier(q, p)]
            if earlier:
                q, prov = min(earlier)
                where = _relation(q, p)
                found.append((f"A4:assigned-name-equals-earlier-explicit-of-same-call|{'value' if ns == 'v' else 'node'}"
                              f"|prior={prov}:{where}",
                              f"{w.label(g)} assigned {name!r} to {label} (position {p} of the call) although {prov} "
                              f"{name!r} at the earlier position {q} of the same call was registered before it"))
            elif same:
                self._count("A_report_only_equals_explicit_of_same_call")
        self._account_same_call(assigned, pos_assigned, explicit, pos_explicit)
        # cross-namespace and live-but-unregistered equalities are not covered by the statement
        for g, ns, name, _ in assigned:
            if name in self._r(g)["n" if ns == "v" else "v"]:
                self._count("A_report_only_equals_name_in_other_namespace")

        # traps: an explicit generated-shaped name registered before the counter reached it, later passed
        for g, ns, name, label in assigned:
            self._pass_traps(g, ns, name)
        for g, ns, name, prov in explicit:
            self._set_trap(g, ns, name)

        # update R (after the checks: only EARLIER calls count)
        for g, ns, name, prov in explicit:
            self._r(g)[ns].setdefault(name, prov)
        for g, ns, name, _ in assigned:
            self._r(g)[ns].setdefault(name, "assigned")

        # A3: an adding call must not alter a name that was given
        if kind in ADD_OPS:
            self._count("A_add_calls")
            if kind in ("append", "extend", "ins_before", "ins_after") and assigned:
                conts = w.containers()
                if conts and isinstance(conts[op[1] % len(conts)], ir.Function):
                    self._count("A_assignments_through_function", len(assigned))
            for v in w.values:
                b = pre["values"].get(id(v))
                if b is not None and v.name != b:
                    found.append(("A3:explicit-name-altered|value", f"{w.label(v)} name {b!r} -> {v.name!r}"))
            for n in w.nodes:
                st = pre["nodes"].get(id(n))
                b = st[1] if st is not None else (op[6] if kind == "node" else None)
                if b is not None and n.name != b:
                    found.append(("A3:explicit-name-altered|node", f"{w.label(n)} name {b!r} -> {n.name!r}"))
            self._count("A_explicit_names_checked", sum(1 for b in pre["values"].values() if b is not None))
        if res.raised:
            self._count("A_exc:" + type(res.exc).__name__)
        return found or None

    # ---- same-call accounting (evidence only) --------------------------------------------------------
    def _count_mixed(self, outs, pre):
        """A node that entered a graph with >= 2 outputs of which some were named and some were not."""
        if len(outs) < 2:
            return
        named = [pre["values"].get(id(v)) is not None for v in outs]
        if any(named) and not all(named):
            self._count("A_mixed_output_nodes_added")
            first_named, first_unnamed = named.index(True), named.index(False)
            self._count("A_mixed_output_nodes:named-first" if first_named < first_unnamed else "A_mixed_output_nodes:unnamed-first")

    def _account_same_call(self, assigned, pos_assigned, explicit, pos_explicit):
        """How often the deciding situation of A4 was reached: a name was assigned after an explicit generated-shaped
        name at an earlier position of the same call (checked), and the counter of the graph had to step over that
        very name during the call (live: any implementation that had not registered it yet would have reused it)."""
        for (g, ns, name, _), p in zip(assigned, pos_assigned):
            k = self._idx(ns, name)
            if k is None or p is None:
                continue
            mx = self.maxidx.get(id(g), {"v": -1, "n": -1})[ns]
            r = self._r(g)[ns]
            checked = live = False
            for (g2, ns2, name2, _), q in zip(explicit, pos_explicit):
                if g2 is not g or ns2 != ns or not _earlier(q, p):
                    continue
                e = self._idx(ns, name2)
                if e is None or e[0] != k[0]:
                    continue
                checked = True
                if name2 not in r and mx < e[1] < k[1]:
                    live = True
                    self._count("A_same_call_live:" + _relation(q, p))
            if checked:
                self._count("A_same_call_earlier_shaped_explicit_checked")
            if live:
                self._count("A_same_call_traps_passed_" + ("value" if ns == "v" else "node"))

    # ---- trap accounting (evidence only) -----------------------------------------------------------
    def _idx(self, ns, name):
        m = (_VAL_RE if ns == "v" else _NODE_RE).match(name or "")
        if not m:
            return None
        return (None, int(m.group(1))) if ns == "v" else (m.group(1), int(m.group(2)))

    def _set_trap(self, g, ns, name):
        k = self._idx(ns, name)
        if k is None:
            return
        mx = self.maxidx.setdefault(id(g), {"v": -1, "n": -1})
        if k[1] > mx[ns]:
            self.traps.setdefault(id(g), {"v": set(), "n": set()})[ns].add(k)

    def _pass_traps(self, g, ns, name):
        k = self._idx(ns, name)
        if k is None:
            return
        mx = self.maxidx.setdefault(id(g), {"v": -1, "n": -1})
        mx[ns] = max(mx[ns], k[1])
        traps = self.traps.setdefault(id(g), {"v": set(), "n": set()})[ns]
        for t in list(traps):
            if t[1] < k[1]:
                traps.discard(t)
                # the counter went past an explicit name of the same shape: for values always a
                # forced skip; for nodes a forced skip only when the op type matched, counted apart
                self.traps_passed += 1
                self._count("A_traps_passed_value" if ns == "v" else "A_traps_passed_node")


def _earlier(q, p) -> bool:
    """Position q of a call precedes position p (None = unordered; constructor inputs/initializers precede nodes)."""
    if q is None or p is None or q == _CTOR_POS and p == _CTOR_POS:
        return False
    return q < p


def _relation(q, p) -> str:
    if q == _CTOR_POS:
        return "ctor-argument"
    return "same-node" if q[0] == p[0] else "earlier-node"


def make_gen(rng, w, hostile):
    return GenA(rng, w, hostile, weights=WEIGHTS_A, avoid={"owned_node_outputs"})

