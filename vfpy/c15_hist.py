"""C15 workload A: add/remove/re-add histories with explicit names shaped like generated ones.

The monitor is generic: it looks at the whole world before and after every call and derives, from
public accessors only, (i) which nodes entered which graph during the call and which graphs were
constructed, (ii) which of their names were explicit (non-None before the call) and which were
ASSIGNED by the graph (None before, non-None after).  Per graph it keeps the set R of names it
KNOWS the graph registered or assigned in EARLIER calls:

  * names of inputs / initializers that were already named when the graph was constructed,
  * names of nodes and of their outputs that were already named when the node entered the graph,
  * names the graph assigned.

R under-approximates what the graph registered (inputs/initializers added later and renames after
the add are not in R, and within one call the order of registration is an implementation
detail, so explicit names of the SAME call are not in R either), hence an alarm is always a real
repetition of a name the graph had registered or assigned before.

Clauses
  A1  an assigned name is in R (of the same graph and namespace: nodes / values)
  A2  two objects were assigned the same name by one graph in one call (one of them came second)
  A3  a call that adds nodes / constructs a graph altered a name that was not None before it
"""

from __future__ import annotations

import re

import onnx_ir as ir

from vfpy.gen_ops import DEFAULT_WEIGHTS, Gen

OPS_A = ["Add", "Relu"]
VAL_NAMES = [None, None, None, None, "val_0", "val_1", "val_2", "val_3", "val_4", "val_5", "val_6", "val_8",
             "x", "w", "", "val_1"]
# convenience.replace_nodes_and_values is left out of the alphabet: it propagates names from the old to the
# new values by design (a documented rename, not "adding a node"), before the new nodes enter the graph
ADD_OPS = {"node", "graph", "append", "extend", "ins_before", "ins_after", "n_prepend", "n_append"}

WEIGHTS_A = dict.fromkeys(DEFAULT_WEIGHTS, 0)
WEIGHTS_A.update({
    "val": 4, "node": 10, "graph": 3, "func": 0.6, "attr_graph": 0.4,
    "append": 6, "extend": 4, "ins_before": 3, "ins_after": 3, "remove": 7, "n_prepend": 1.5, "n_append": 1.5,
    "sort": 0.2, "rsz_out": 0.8, "rin": 0.5,
    "v_name": 3, "n_name": 2, "c_rename": 0.4, "io_append": 0.8, "io_pop": 0.4, "in_add": 0.8, "in_pop": 0.3,
})

_VAL_RE = re.compile(r"^val_(\d+)$")
_NODE_RE = re.compile(r"^node_(.*)_(\d+)$")


class GenA(Gen):
    """The shared generator with a name alphabet dense in generated-looking names."""

    def name(self):
        return self.rng.choice(VAL_NAMES)

    def node_name(self, op_type):
        r = self.rng.random()
        if r < 0.45:
            return None
        if r < 0.9:
            return f"node_{self.rng.choice(OPS_A)}_{self.rng.randrange(7)}" if r > 0.8 else f"node_{op_type}_{self.rng.randrange(7)}"
        return self.rng.choice(["n", "", "val_1"])

    def _node(self):
        op = super()._node()
        op[1] = self.rng.choice(OPS_A)
        op[6] = self.node_name(op[1])
        if op[5] is None and self.rng.random() < 0.2:
            op[5] = self.any_c()
        return op

    def _n_name(self):
        n = self.any_n()
        node = self.w.nodes[n % len(self.w.nodes)]
        return ["n_name", n, self.node_name(node.op_type)]

    def _remove(self):
        op = super()._remove()
        op[4] = False if self.rng.random() < 0.7 else op[4]
        return op


class NameMonitor:
    """before()/after() protocol of vfpy.histories.replay_ops."""

    def __init__(self, ctx=None):
        self.ctx = ctx
        self.R = {}       # id(graph) -> {"v": {name: provenance}, "n": {name: provenance}}
        self.traps = {}   # id(graph) -> {"v": set(int), "n": set((op, int))}  explicit generated-shaped names not yet passed
        self.maxidx = {}  # id(graph) -> {"v": int, "n": int} largest generated index seen assigned
        self.assigned_total = 0
        self.traps_passed = 0
        self.readds = 0

    def _count(self, key, n=1):
        if self.ctx is not None:
            self.ctx.count(key, n)

    def _r(self, g):
        return self.R.setdefault(id(g), {"v": {}, "n": {}})

    # ---- before ----------------------------------------------------------------------------------
    def before(self, w, op):
        nodes = {}
        for n in w.nodes:
            nodes[id(n)] = (n.graph, n.name)
        values = {id(v): v.name for v in w.values}
        return {"nodes": nodes, "values": values, "ngraphs": len(w.graphs), "had_graph": {id(n) for n in w.nodes if n.graph is not None}}

    # ---- after -----------------------------------------------------------------------------------
    def after(self, w, op, res, pre):
        if res.skipped:
            return None
        found = []
        kind = op[0]
        # (graph, namespace, name, label) assigned in this call; (graph, namespace, name, provenance) explicit
        assigned, explicit = [], []

        def value_before(v):
            # values that did not exist before the call were created unnamed by Node(num_outputs=k)
            return pre["values"].get(id(v), None)

        seen_objs = set()

        def see_value(g, v, prov):
            if (id(g), id(v)) in seen_objs:  # one value listed twice (graph inputs, node outputs) is one value
                return
            seen_objs.add((id(g), id(v)))
            vb = value_before(v)
            if vb is not None:
                explicit.append((g, "v", vb, prov))
            elif v.name is not None:
                assigned.append((g, "v", v.name, w.label(v)))
            else:
                self._count("A_report_only_left_unnamed")

        for n in w.nodes:
            st = pre["nodes"].get(id(n))
            if st is None:
                if kind != "node":
                    self._count("A_unattributed_new_node")
                    continue
                gb, nb = None, op[6]
            else:
                gb, nb = st
            ga = n.graph
            if ga is None or ga is gb:
                continue
            if st is not None:
                self.readds += 1
                self._count("A_nodes_added_existing")
            else:
                self._count("A_nodes_added_new")
            if nb is not None:
                explicit.append((ga, "n", nb, "explicit:node"))
            elif n.name is not None:
                assigned.append((ga, "n", n.name, w.label(n)))
            else:
                self._count("A_report_only_left_unnamed")
            for v in n.outputs:
                see_value(ga, v, "explicit:node-output")
        for g in w.graphs[pre["ngraphs"]:]:
            if kind != "graph":
                continue
            self._count("A_graphs_constructed")
            for v in g.inputs:
                see_value(g, v, "explicit:ctor-input")
            for v in g.initializers.values():
                see_value(g, v, "explicit:ctor-initializer")

        # A1 / A2
        seen_here = {}
        for g, ns, name, label in assigned:
            self.assigned_total += 1
            self._count("A_assigned_values" if ns == "v" else "A_assigned_nodes")
            r = self._r(g)[ns]
            if name in r:
                found.append((f"A1:assigned-name-reused|{'value' if ns == 'v' else 'node'}|prior={r[name]}",
                              f"{w.label(g)} assigned {name!r} to {label}, but it had {r[name]} {name!r} in an earlier call"))
            key = (id(g), ns, name)
            if key in seen_here:
                found.append((f"A2:assigned-twice-in-one-call|{'value' if ns == 'v' else 'node'}",
                              f"{w.label(g)} assigned {name!r} to both {seen_here[key]} and {label} in one call"))
            seen_here.setdefault(key, label)
            if len(r) and any(_VAL_RE.match(k) or _NODE_RE.match(k) for k, p in r.items() if p.startswith("explicit")):
                self._count("A_assigned_with_shaped_explicit_in_R")
        explicit_here = {(id(g), ns, name) for g, ns, name, _ in explicit}
        for g, ns, name, _ in assigned:
            if (id(g), ns, name) in explicit_here:
                self._count("A_report_only_equals_explicit_of_same_call")
        # cross-namespace and live-but-unregistered equalities are not covered by the statement
        for g, ns, name, _ in assigned:
            if name in self._r(g)["n" if ns == "v" else "v"]:
                self._count("A_report_only_equals_name_in_other_namespace")

        # traps: an explicit generated-shaped name registered before the counter reached it, later passed
        for g, ns, name, label in assigned:
            self._pass_traps(g, ns, name)
        for g, ns, name, prov in explicit:
            self._set_trap(g, ns, name)

        # update R (after the checks: only EARLIER calls count)
        for g, ns, name, prov in explicit:
            self._r(g)[ns].setdefault(name, prov)
        for g, ns, name, _ in assigned:
            self._r(g)[ns].setdefault(name, "assigned")

        # A3: an adding call must not alter a name that was given
        if kind in ADD_OPS:
            self._count("A_add_calls")
            if kind in ("append", "extend", "ins_before", "ins_after") and assigned:
                conts = w.containers()
                if conts and isinstance(conts[op[1] % len(conts)], ir.Function):
                    self._count("A_assignments_through_function", len(assigned))
            for v in w.values:
                b = pre["values"].get(id(v))
                if b is not None and v.name != b:
                    found.append(("A3:explicit-name-altered|value", f"{w.label(v)} name {b!r} -> {v.name!r}"))
            for n in w.nodes:
                st = pre["nodes"].get(id(n))
                b = st[1] if st is not None else (op[6] if kind == "node" else None)
                if b is not None and n.name != b:
                    found.append(("A3:explicit-name-altered|node", f"{w.label(n)} name {b!r} -> {n.name!r}"))
            self._count("A_explicit_names_checked", sum(1 for b in pre["values"].values() if b is not None))
        if res.raised:
            self._count("A_exc:" + type(res.exc).__name__)
        return found or None

    # ---- trap accounting (evidence only) -----------------------------------------------------------
    def _idx(self, ns, name):
        m = (_VAL_RE if ns == "v" else _NODE_RE).match(name or "")
        if not m:
            return None
        return (None, int(m.group(1))) if ns == "v" else (m.group(1), int(m.group(2)))

    def _set_trap(self, g, ns, name):
        k = self._idx(ns, name)
        if k is None:
            return
        mx = self.maxidx.setdefault(id(g), {"v": -1, "n": -1})
        if k[1] > mx[ns]:
            self.traps.setdefault(id(g), {"v": set(), "n": set()})[ns].add(k)

    def _pass_traps(self, g, ns, name):
        k = self._idx(ns, name)
        if k is None:
            return
        mx = self.maxidx.setdefault(id(g), {"v": -1, "n": -1})
        mx[ns] = max(mx[ns], k[1])
        traps = self.traps.setdefault(id(g), {"v": set(), "n": set()})[ns]
        for t in list(traps):
            if t[1] < k[1]:
                traps.discard(t)
                # the counter went past an explicit name of the same shape: for values always a
                # forced skip; for nodes a forced skip only when the op type matched, counted apart
                self.traps_passed += 1
                self._count("A_traps_passed_value" if ns == "v" else "A_traps_passed_node")


def make_gen(rng, w, hostile):
    return GenA(rng, w, hostile, weights=WEIGHTS_A, avoid={"owned_node_outputs"})

