"""C12 helpers that do not touch onnx_ir: JSON-able graph *specs*, their generators (random and
exhaustive), the spec-level constraint relation, and spec reduction for shrinking.

A spec describes a tree of graphs::

    {"graphs": [{"nin": 1, "order": [2, 0, 1]}, ...],          # index = graph id, 0 = root
     "nodes":  [{"g": 0, "nout": 1, "inputs": [ref, ...],       # index = node id
                 "attrs": [["body", "G", [1]], ["branches", "GS", [2, 3]]]}, ...]}

    ref ::= None | ["n", node_id, output_index] | ["i", graph_id, input_index] | ["d", detached_id, output_index]

Optionally ``"detached": [{"scope": gid, "how": "never"|"removed", "pos": k, "nout": m, "inputs": [ref, ...]}]``:
nodes that are in **no graph** when the sort runs but still use (and so appear in ``uses()`` of)
values visible from graph ``scope`` - either constructed and never added, or put into ``scope``
at position ``pos`` and then taken out with the default non-safe ``Graph.remove`` (which keeps
their inputs).  Being in no graph they are outside the statement's relation; the oracle ignores
them and nodes of the graphs may even use their outputs (producer located in no graph).

Optionally ``"history"``: the initial orders are reached through public move operations instead
of being constructed directly (see the section "histories" below).

Every graph other than 0 is owned by exactly one attribute of exactly one node.  Specs are
**lexically well scoped**: a node of graph H refers only to outputs of nodes (or inputs) of H or
of graphs enclosing H.
"""

from __future__ import annotations

import itertools
import math
from typing import Any, Iterator

Spec = dict


# ---------------------------------------------------------------------------------------------
# structure helpers
# ---------------------------------------------------------------------------------------------
def owners(spec: Spec) -> dict[int, int]:
    """graph id -> id of the node that owns it through an attribute."""
    out: dict[int, int] = {}
    for nid, n in enumerate(spec["nodes"]):
        for _name, _kind, gids in n["attrs"]:
            for gid in gids:
                assert gid not in out and gid != 0, "spec is not a tree"
                out[gid] = nid
    return out


def graph_depths(spec: Spec) -> list[int]:
    own = owners(spec)
    depth = []
    for gid in range(len(spec["graphs"])):
        d, g = 0, gid
        while g in own:
            g = spec["nodes"][own[g]]["g"]
            d += 1
        depth.append(d)
    return depth


def ancestor_in(spec: Spec, own: dict[int, int], nid: int, gid: int) -> int | None:
    """The node of graph ``gid`` that is ``nid`` or encloses it; None if ``gid`` does not enclose it."""
    while True:
        g = spec["nodes"][nid]["g"]
        if g == gid:
            return nid
        if g not in own:
            return None
        nid = own[g]


def subtree_graphs(spec: Spec, gid: int) -> list[int]:
    """``gid`` and every graph nested (at any depth) in one of its nodes."""
    own = owners(spec)
    out = []
    for g in range(len(spec["graphs"])):
        x = g
        while True:
            if x == gid:
                out.append(g)
                break
            if x not in own:
                break
            x = spec["nodes"][own[x]]["g"]
    return out


def spec_constraints(spec: Spec) -> list[set[tuple[int, int, str]]]:
    """Per graph: {(producer, consumer-or-enclosing-node, 'direct'|'nested')} - the relation of the
    property statement, computed bottom-up from the uses (the object-level oracle in c12_build
    walks top-down over the real objects; the two must agree or the harness is broken)."""
    own = owners(spec)
    cons: list[set[tuple[int, int, str]]] = [set() for _ in spec["graphs"]]
    for j, n in enumerate(spec["nodes"]):
        for ref in n["inputs"]:
            if ref is None or ref[0] != "n":
                continue
            i = ref[1]
            gid = spec["nodes"][i]["g"]
            a = ancestor_in(spec, own, j, gid)
            assert a is not None, "spec is not lexically well scoped"
            cons[gid].add((i, a, "direct" if a == j else "nested"))
    return cons


# ---------------------------------------------------------------------------------------------
# brute-force predicates over one graph's relation
# ---------------------------------------------------------------------------------------------
def has_cycle(nodes: list[int], pairs) -> bool:
    """True iff no linear order of ``nodes`` puts p before n for every (p, n, ..) - decided by
    repeatedly deleting nodes none of whose producers remain."""
    remaining = set(nodes)
    preds: dict[int, set[int]] = {n: set() for n in nodes}
    for p, n, *_ in pairs:
        preds[n].add(p)
    changed = True
    while changed and remaining:
        changed = False
        for n in list(remaining):
            if not (preds[n] & remaining):
                remaining.discard(n)
                changed = True
    return bool(remaining)


def broken_pairs(order: list[int], pairs) -> list[tuple]:
    pos = {n: k for k, n in enumerate(order)}
    return [pr for pr in sorted(pairs) if not (pos.get(pr[0], math.inf) < pos.get(pr[1], -1))]


def classify_cycle(pairs) -> str:
    kinds = sorted({pr[2] for pr in pairs if pr[0] == pr[1]})
    if kinds:
        return "self-" + "+".join(kinds)
    return "multi-node"


# ---------------------------------------------------------------------------------------------
# random specs
# ---------------------------------------------------------------------------------------------
ATTR_SHAPES = [
    [["body", "G", 1]],
    [["then_branch", "G", 1], ["else_branch", "G", 1]],
    [["branches", "GS", 1]],
    [["branches", "GS", 2]],
    [["branches", "GS", 3]],
    [["body", "G", 1], ["branches", "GS", 2]],
]


def gen_structure(rng, n_nodes: int, depth_max: int, cyclic: bool) -> tuple[Spec, dict]:
    """Random well-scoped nested structure.  Returns the spec (graph orders = a hidden valid order
    when acyclic) and ``meta`` with feature counts.  ``cyclic`` adds edges against the hidden
    order (which may or may not close a cycle; the oracle decides)."""
    graphs: list[dict] = [{"nin": rng.choice([0, 1, 2]), "order": []}]
    depth = [0]
    nodes: list[dict] = []
    p_cf = rng.choice([0.15, 0.3, 0.5]) if depth_max else 0.0
    p_root = rng.choice([0.25, 0.5])
    p_deep = rng.choice([0.0, 0.25, 0.4]) if depth_max >= 2 else 0.0
    for nid in range(n_nodes):
        x = rng.random()
        if x < p_root:
            g = 0
        elif x < p_root + p_deep:
            g = len(graphs) - 1  # keep filling the most recently opened body (builds deep chains)
        else:
            g = rng.randrange(len(graphs))
        node = {"g": g, "nout": rng.choice([1, 1, 1, 1, 2, 2, 3, 0]), "inputs": [], "attrs": []}
        if depth[g] < depth_max and rng.random() < p_cf:
            for name, kind, cnt in rng.choice(ATTR_SHAPES):
                gids = []
                for _ in range(cnt):
                    graphs.append({"nin": rng.choice([0, 0, 1, 2]), "order": []})
                    depth.append(depth[g] + 1)
                    gids.append(len(graphs) - 1)
                node["attrs"].append([name, kind, gids])
        nodes.append(node)
        graphs[g]["order"].append(nid)
    spec = {"graphs": graphs, "nodes": nodes}
    own = owners(spec)
    # hidden valid order of every graph
    for gr in graphs:
        rng.shuffle(gr["order"])
    hpos = {nid: k for gr in graphs for k, nid in enumerate(gr["order"])}

    meta = {"none_inputs": 0, "repeated_inputs": 0, "captures": 0, "back_edges": 0,
            "graph_input_uses": 0}

    def chain(nid: int) -> list[int]:
        """graph of the node and every enclosing graph."""
        out = [nodes[nid]["g"]]
        while out[-1] in own:
            out.append(nodes[own[out[-1]]]["g"])
        return out

    p_capture = rng.choice([0.3, 0.6])
    for j, node in enumerate(nodes):
        k = rng.choice([0, 1, 1, 2, 2, 3, 4])
        scope = chain(j)
        for _ in range(k):
            r = rng.random()
            if r < 0.10:
                node["inputs"].append(None)
                meta["none_inputs"] += 1
                continue
            if r < 0.25 and any(x is not None for x in node["inputs"]):
                node["inputs"].append(rng.choice([x for x in node["inputs"] if x is not None]))
                meta["repeated_inputs"] += 1
                continue
            if r < 0.37:
                with_inputs = [g for g in scope if graphs[g]["nin"]]
                if with_inputs:
                    g = rng.choice(with_inputs)
                    node["inputs"].append(["i", g, rng.randrange(graphs[g]["nin"])])
                    meta["graph_input_uses"] += 1
                    continue
            g = scope[0] if (len(scope) == 1 or rng.random() > p_capture) else rng.choice(scope[1:])
            a = ancestor_in(spec, own, j, g)
            cands = [i for i in graphs[g]["order"] if hpos[i] < hpos[a] and nodes[i]["nout"]]
            if not cands:
                node["inputs"].append(None)
                meta["none_inputs"] += 1
                continue
            # prefer near producers sometimes, any producer otherwise
            i = cands[-1] if rng.random() < 0.3 else rng.choice(cands)
            node["inputs"].append(["n", i, rng.randrange(nodes[i]["nout"])])
            if g != scope[0]:
                meta["captures"] += 1
    if cyclic and nodes:
        for _ in range(rng.choice([1, 1, 2, 3])):
            j = rng.randrange(len(nodes))
            scope = chain(j)
            g = rng.choice(scope[1:]) if (len(scope) > 1 and rng.random() < 0.5) else rng.choice(scope)
            a = ancestor_in(spec, own, j, g)
            if rng.random() < 0.3 and nodes[a]["nout"]:
                i = a  # self-dependency: direct when a == j, through a nested use otherwise
            else:
                cands = [i for i in graphs[g]["order"] if hpos[i] >= hpos[a] and nodes[i]["nout"]]
                if not cands:
                    continue
                i = rng.choice(cands)
            ref = ["n", i, rng.randrange(nodes[i]["nout"])]
            ins = nodes[j]["inputs"]
            if ins and rng.random() < 0.5:
                ins[rng.randrange(len(ins))] = ref
            else:
                ins.insert(rng.randrange(len(ins) + 1), ref)
            meta["back_edges"] += 1
    detached: list[dict] = []
    meta.update({"detached_never": 0, "detached_removed": 0, "uses_of_detached_outputs": 0})
    if nodes and rng.random() < 0.4:
        users: dict[int, int] = {}
        for n in nodes:
            for r in n["inputs"]:
                if r is not None and r[0] == "n":
                    users[r[1]] = users.get(r[1], 0) + 1
        capturing = [j for j, n in enumerate(nodes) if n["nout"] and
                     any(r is not None and r[0] == "n" and nodes[r[1]]["g"] != n["g"] for r in n["inputs"])]
        for _ in range(rng.choice([1, 1, 2, 3, 4])):
            # the consumer's scope: prefer graphs that hold a capturing node nobody else consumes
            lonely = [j for j in capturing if not users.get(j)]
            x = rng.random()
            if lonely and x < 0.5:
                first = rng.choice(lonely)
            elif x < 0.8:
                first = rng.choice([j for j, n in enumerate(nodes) if n["nout"]] or [None])
            else:
                first = None
            scope_g = nodes[first]["g"] if first is not None else rng.randrange(len(graphs))
            chain_g = [scope_g]
            while chain_g[-1] in own:
                chain_g.append(nodes[own[chain_g[-1]]]["g"])
            ins: list = []
            if first is not None:
                ins.append(["n", first, rng.randrange(nodes[first]["nout"])])
                users[first] = users.get(first, 0)  # (detached consumers do not count as users)
            for _k in range(rng.choice([0, 0, 1, 2])):
                r = rng.random()
                g = rng.choice(chain_g)
                cands = [i for i in graphs[g]["order"] if nodes[i]["nout"]]
                if r < 0.15 or not cands:
                    ins.append(None)
                elif r < 0.3 and detached and any(d["nout"] for d in detached):
                    dd = rng.choice([k for k, d in enumerate(detached) if d["nout"]])
                    ins.append(["d", dd, rng.randrange(detached[dd]["nout"])])
                elif r < 0.45 and ins and any(x is not None for x in ins):
                    ins.append(rng.choice([x for x in ins if x is not None]))
                else:
                    i = rng.choice(cands)
                    ins.append(["n", i, rng.randrange(nodes[i]["nout"])])
            rng.shuffle(ins)
            how = rng.choice(["never", "removed"])
            detached.append({"scope": scope_g, "how": how, "pos": rng.randrange(len(graphs[scope_g]["order"]) + 1),
                             "nout": rng.choice([0, 1, 1, 2]), "inputs": ins})
            meta["detached_" + how] += 1
        # now and then a node of the graphs consumes the output of a node that is in no graph
        for dd, d in enumerate(detached):
            if d["nout"] and rng.random() < 0.25:
                j = rng.randrange(len(nodes))
                nodes[j]["inputs"].insert(rng.randrange(len(nodes[j]["inputs"]) + 1), ["d", dd, rng.randrange(d["nout"])])
                meta["uses_of_detached_outputs"] += 1
    spec["detached"] = detached
    meta["max_depth"] = max(depth)
    meta["multi_output_nodes"] = sum(1 for n in nodes if n["nout"] > 1)
    meta["cf_nodes"] = sum(1 for n in nodes if n["attrs"])
    meta["empty_subgraphs"] = sum(1 for gr in graphs[1:] if not gr["order"])
    return spec, meta


def with_orders(spec: Spec, orders: list[list[int]]) -> Spec:
    return {"graphs": [{"nin": g["nin"], "order": list(o)} for g, o in zip(spec["graphs"], orders)],
            "nodes": spec["nodes"], "detached": spec.get("detached", [])}


def dangling_capture_nodes(spec: Spec) -> list[int]:
    """Nodes of nested graphs that capture an outer node's output and whose outputs are consumed
    by detached nodes only (>= 1 such consumer)."""
    used_in_graph = {r[1] for n in spec["nodes"] for r in n["inputs"] if r is not None and r[0] == "n"}
    used_detached = {r[1] for d in spec.get("detached", []) for r in d["inputs"] if r is not None and r[0] == "n"}
    return [j for j, n in enumerate(spec["nodes"]) if j in used_detached and j not in used_in_graph
            and any(r is not None and r[0] == "n" and spec["nodes"][r[1]]["g"] != n["g"] for r in n["inputs"])]


def initial_orders(rng, spec: Spec, mode: str) -> list[list[int]]:
    """An initial order of every graph derived from the hidden order stored in the spec."""
    out = []
    for gr in spec["graphs"]:
        o = list(gr["order"])
        if mode == "hidden":
            pass
        elif mode == "reversed":
            o.reverse()
        elif mode == "shuffled":
            rng.shuffle(o)
        elif mode == "swaps":
            for _ in range(rng.choice([1, 1, 2, 3])):
                if len(o) >= 2:
                    a, b = rng.randrange(len(o)), rng.randrange(len(o))
                    o[a], o[b] = o[b], o[a]
        elif mode == "cf_first":  # control-flow nodes before everything they may capture
            o = [n for n in o if spec["nodes"][n]["attrs"]] + [n for n in o if not spec["nodes"][n]["attrs"]]
        elif mode == "rotate":
            if o:
                k = rng.randrange(len(o))
                o = o[k:] + o[:k]
        else:
            raise AssertionError(mode)
        out.append(o)
    return out


ORDER_MODES = ["hidden", "reversed", "shuffled", "swaps", "cf_first", "rotate"]


def all_order_combinations(spec: Spec, limit: int) -> Iterator[list[list[int]]] | None:
    """Every combination of permutations of every graph, or None if there are more than ``limit``."""
    total = 1
    for gr in spec["graphs"]:
        total *= math.factorial(len(gr["order"]))
        if total > limit:
            return None
    per_graph = [list(itertools.permutations(sorted(gr["order"]))) for gr in spec["graphs"]]
    return (list(map(list, combo)) for combo in itertools.product(*per_graph))


# ---------------------------------------------------------------------------------------------
# exhaustive space: all loop-free digraphs on n labelled nodes x all initial permutations x shapes
# ---------------------------------------------------------------------------------------------
EXH_SHAPES = ("flat", "nested_use", "two_level", "nested_use_dangling")


def exhaustive_size(max_n: int) -> int:
    return sum((2 ** (n * (n - 1))) * math.factorial(n) * len(EXH_SHAPES) for n in range(1, max_n + 1))


def exhaustive_item(index: int, max_n: int) -> tuple[int, int, int, str]:
    """index -> (n, edge mask, permutation number, shape)."""
    for n in range(1, max_n + 1):
        block = (2 ** (n * (n - 1))) * math.factorial(n) * len(EXH_SHAPES)
        if index < block:
            shape = EXH_SHAPES[index % len(EXH_SHAPES)]
            index //= len(EXH_SHAPES)
            perm = index % math.factorial(n)
            mask = index // math.factorial(n)
            return n, mask, perm, shape
        index -= block
    raise IndexError(index)


def digraph_edges(n: int, mask: int) -> list[tuple[int, int]]:
    pairs = [(i, j) for i in range(n) for j in range(n) if i != j]
    return [pr for k, pr in enumerate(pairs) if mask >> k & 1]


def nth_permutation(items: list[int], k: int) -> list[int]:
    items = list(items)
    out = []
    for f in range(len(items), 0, -1):
        q, k = divmod(k, math.factorial(f - 1))
        out.append(items.pop(q))
    return out


def exhaustive_spec(n: int, mask: int, perm: int, shape: str) -> Spec:
    """Realise the dependency digraph (edge i->j: j needs i) in one of three nesting shapes.

    flat        all n nodes in the root, dependencies are direct inputs
    nested_use  every dependent node is a control-flow node whose body holds one node that
                captures the producers' outputs (all constraints arise through nested uses)
    nested_use_dangling  the same, and the capturing node's output is consumed only by a node
                that is in no graph (never added / removed with the non-safe remove)
    two_level   root = [W, P]: W (GRAPHS attribute, two branches) *precedes* P although both
                branches capture P; branch 0 holds the n nodes, dependencies alternate between
                direct inputs and uses at depth 2
    """
    edges = digraph_edges(n, mask)
    order = nth_permutation(list(range(n)), perm)
    preds: dict[int, list[int]] = {j: [i for i, jj in edges if jj == j] for j in range(n)}
    if shape == "flat":
        nodes = [{"g": 0, "nout": 1, "inputs": [["n", i, 0] for i in preds[j]], "attrs": []} for j in range(n)]
        return {"graphs": [{"nin": 0, "order": order}], "nodes": nodes}
    if shape in ("nested_use", "nested_use_dangling"):
        graphs = [{"nin": 0, "order": order}]
        nodes = [{"g": 0, "nout": 1, "inputs": [], "attrs": []} for _ in range(n)]
        detached = []
        for j in range(n):
            if preds[j]:
                graphs.append({"nin": 0, "order": [len(nodes)]})
                nodes[j]["attrs"].append(["body", "G", [len(graphs) - 1]])
                nodes.append({"g": len(graphs) - 1, "nout": 1,
                              "inputs": [["n", i, 0] for i in preds[j]], "attrs": []})
                if shape == "nested_use_dangling":
                    # the capturing node's only consumer is in no graph (removed / never added)
                    detached.append({"scope": len(graphs) - 1, "how": "removed" if j % 2 else "never", "pos": 1,
                                     "nout": 1, "inputs": [["n", len(nodes) - 1, 0]]})
        return {"graphs": graphs, "nodes": nodes, "detached": detached}
    if shape == "two_level":
        # nodes 0..n-1 live in graph 1 (branch 0 of W); W = n, P = n+1, branch-1 user = n+2
        W, P, U = n, n + 1, n + 2
        graphs = [{"nin": 0, "order": [W, P]}, {"nin": 0, "order": order}, {"nin": 0, "order": [U]}]
        nodes = [{"g": 1, "nout": 1, "inputs": [], "attrs": []} for _ in range(n)]
        nodes.append({"g": 0, "nout": 1, "inputs": [], "attrs": [["branches", "GS", [1, 2]]]})
        nodes.append({"g": 0, "nout": 2, "inputs": [], "attrs": []})
        nodes.append({"g": 2, "nout": 1, "inputs": [["n", P, 1], None, ["n", P, 1]], "attrs": []})
        nodes[0]["inputs"].append(["n", P, 0])
        for j in range(n):
            deep = [i for i in preds[j] if (i + j) % 2]
            nodes[j]["inputs"].extend(["n", i, 0] for i in preds[j] if not (i + j) % 2)
            if deep:
                graphs.append({"nin": 0, "order": [len(nodes)]})
                nodes[j]["attrs"].append(["body", "G", [len(graphs) - 1]])
                nodes.append({"g": len(graphs) - 1, "nout": 1,
                              "inputs": [["n", i, 0] for i in deep], "attrs": []})
        return {"graphs": graphs, "nodes": nodes}
    raise AssertionError(shape)


# ---------------------------------------------------------------------------------------------
# reduction (for shrinking a witness)
# ---------------------------------------------------------------------------------------------
def remove_nodes(spec: Spec, doomed: set[int], sub: int | None = None,
                 doomed_graphs: set[int] | None = None,
                 doomed_detached: set[int] | None = None) -> tuple[Spec, int | None] | None:
    """Remove nodes and/or attribute graphs (with everything nested in them); references to
    removed outputs become None; an attribute left without graphs is dropped.
    Returns (new spec, remapped ``sub`` graph id) or None if ``sub`` would disappear."""
    own = owners(spec)
    dead_nodes = set(doomed)
    dead_graphs: set[int] = set(doomed_graphs or ())
    changed = True
    while changed:
        changed = False
        for gid, nid in own.items():
            if nid in dead_nodes and gid not in dead_graphs:
                dead_graphs.add(gid)
                changed = True
        for nid, n in enumerate(spec["nodes"]):
            if n["g"] in dead_graphs and nid not in dead_nodes:
                dead_nodes.add(nid)
                changed = True
    if sub is not None and sub in dead_graphs:
        return None
    nmap = {}
    for nid in range(len(spec["nodes"])):
        if nid not in dead_nodes:
            nmap[nid] = len(nmap)
    gmap = {}
    for gid in range(len(spec["graphs"])):
        if gid not in dead_graphs:
            gmap[gid] = len(gmap)

    dmap = {}
    for did, d in enumerate(spec.get("detached", [])):
        if d["scope"] in gmap and did not in (doomed_detached or ()):
            dmap[did] = len(dmap)

    def fix(ref):
        if ref is None:
            return None
        if ref[0] == "n":
            return ["n", nmap[ref[1]], ref[2]] if ref[1] in nmap else None
        if ref[0] == "d":
            return ["d", dmap[ref[1]], ref[2]] if ref[1] in dmap else None
        return ["i", gmap[ref[1]], ref[2]] if ref[1] in gmap else None

    graphs = [{"nin": g["nin"], "order": [nmap[x] for x in g["order"] if x in nmap]}
              for gid, g in enumerate(spec["graphs"]) if gid in gmap]
    nodes = [{"g": gmap[n["g"]], "nout": n["nout"], "inputs": [fix(r) for r in n["inputs"]],
              "attrs": [[a[0], a[1], [gmap[x] for x in a[2] if x in gmap]] for a in n["attrs"]
                        if any(x in gmap for x in a[2])]}
             for nid, n in enumerate(spec["nodes"]) if nid in nmap]
    detached = [dict(d, scope=gmap[d["scope"]], inputs=[fix(r) for r in d["inputs"]])
                for did, d in enumerate(spec.get("detached", [])) if did in dmap]
    new = {"graphs": graphs, "nodes": nodes, "detached": detached}
    if "history" in spec:
        # the same moves without the removed nodes; a move whose anchor is gone is dropped
        h = spec["history"]
        moves = []
        for kind, gid, anchor, moved, form in h["moves"]:
            moved = [nmap[x] for x in moved if x in nmap]
            if gid not in gmap or not moved or (anchor is not None and anchor not in nmap):
                continue
            if form == "node" and len(moved) != 1:
                form = "list"
            moves.append([kind, gmap[gid], None if anchor is None else nmap[anchor], moved, form])
        new["history"] = {"start": [[nmap[x] for x in o if x in nmap] for gid, o in enumerate(h["start"]) if gid in gmap],
                          "moves": moves}
        new = settle_history(new)
        if new is None:
            return None
    return new, (gmap[sub] if sub is not None else None)


def drop_input(spec: Spec, nid: int, slot: int, to_none: bool, detached: bool = False) -> Spec:
    if detached:
        flipped = {"graphs": spec["graphs"], "nodes": spec.get("detached", [])}
        out = {"graphs": spec["graphs"], "nodes": spec["nodes"],
               "detached": drop_input(flipped, nid, slot, to_none)["nodes"]}
        if "history" in spec:
            out["history"] = spec["history"]
        return out
    nodes = []
    for k, n in enumerate(spec["nodes"]):
        if k == nid:
            ins = list(n["inputs"])
            if to_none:
                ins[slot] = None
            else:
                del ins[slot]
            n = dict(n, inputs=ins)
        nodes.append(n)
    out = {"graphs": spec["graphs"], "nodes": nodes, "detached": spec.get("detached", [])}
    if "history" in spec:
        out["history"] = spec["history"]
    return out


def spec_size(spec: Spec) -> int:
    every = spec["nodes"] + spec.get("detached", [])
    size = 10 * len(every) + sum(len(n["inputs"]) + sum(1 for r in n["inputs"] if r is not None) for n in every)
    if "history" in spec:
        h = spec["history"]
        size += 2 + sum(4 + len(m[3]) for m in h["moves"])
        size += sum(1 for o, g in zip(h["start"], spec["graphs"]) if o != g["order"])
    return size


def describe(spec: Spec) -> str:
    """Compact human-readable rendering of a spec (initial order shown per graph)."""
    own = owners(spec)

    def ref(r: Any) -> str:
        if r is None:
            return "None"
        if r[0] == "d":
            return f"d{r[1]}.{r[2]}"
        return f"n{r[1]}.{r[2]}" if r[0] == "n" else f"g{r[1]}.in{r[2]}"

    lines = []
    for gid, gr in enumerate(spec["graphs"]):
        where = "root" if gid == 0 else f"owned by n{own[gid]}"
        items = []
        for nid in gr["order"]:
            n = spec["nodes"][nid]
            at = "".join(f" {a[0]}={'g' + str(a[2][0]) if a[1] == 'G' else ['g' + str(x) for x in a[2]]}"
                         for a in n["attrs"])
            items.append(f"n{nid}({', '.join(ref(r) for r in n['inputs'])}){at}")
        lines.append(f"g{gid} [{where}]: " + "; ".join(items))
    for did, d in enumerate(spec.get("detached", [])):
        how = "never added to a graph" if d["how"] == "never" else f"was in g{d['scope']} at position {d['pos']}, then g{d['scope']}.remove(d{did})"
        lines.append(f"detached d{did}({', '.join(ref(r) for r in d['inputs'])}) [{how}]")
    if "history" in spec:
        lines.append(describe_history(spec))
    return "\n".join(lines)


# ---------------------------------------------------------------------------------------------
# histories: the initial order of a graph reached through the public move operations
# ---------------------------------------------------------------------------------------------
# A unit spec may carry ``"history": {"start": [order of every graph], "moves": [move, ...]}``: the
# graphs are constructed in the ``start`` orders and then the moves are applied, one after the
# other, through the public API; the result must be the ``order`` stored in ``graphs`` (the order
# the sort sees).  A move is ``[kind, graph id, anchor node id | None, [node ids], form]``:
#
#   Graph.insert_after / Graph.insert_before / Node.append / Node.prepend   (anchor, nodes)
#   Graph.append (one node) / Graph.extend (nodes) / Graph.remove (nodes; default non-safe)
#
# All of them accept nodes that already are in the graph (they are moved) and nodes that were
# taken out with Graph.remove before (they are re-added).  ``form`` says how the node argument is
# passed: "node" (a single Node), "list", "tuple" or "iter" (a one-shot iterator).
# The list model below is the harness's own statement of what the moves mean (the documented
# semantics: the nodes end up, in the given order, directly after/before the anchor or at the
# end); c12_build checks the real graphs against it.
MOVE_KINDS = ("Graph.insert_after", "Graph.insert_before", "Node.append", "Node.prepend",
              "Graph.append", "Graph.extend", "Graph.remove")


def _place_after(lst: list[int], point: int | None, values: list[int], out: set[int]) -> None:
    for v in values:
        if v == point:
            continue
        if v in lst:
            lst.remove(v)
        lst.insert(0 if point is None else lst.index(point) + 1, v)
        out.discard(v)
        point = v


def model_move(lst: list[int], out: set[int], move: list) -> set[str] | None:
    """Apply one move to the order ``lst`` of its graph (``out`` = nodes currently taken out of a
    graph).  Returns the flags of the move or None if its preconditions do not hold (the real call
    would raise, or the move is meaningless)."""
    kind, _gid, anchor, moved, _form = move
    if not moved:
        return None
    before = list(lst)
    before_out = set(out)
    if kind == "Graph.remove":
        if any(v not in lst for v in moved):
            return None
        for v in set(moved):
            lst.remove(v)
            out.add(v)
    else:
        if any(v not in lst and v not in out for v in moved):
            return None
        if kind in ("Graph.insert_after", "Node.append"):
            if anchor not in lst:
                return None
            _place_after(lst, anchor, moved, out)
        elif kind in ("Graph.insert_before", "Node.prepend"):
            if anchor not in lst:
                return None
            k = lst.index(anchor)
            _place_after(lst, lst[k - 1] if k else None, moved, out)
        elif kind == "Graph.append":
            if len(moved) != 1:
                return None
            _place_after(lst, lst[-1] if lst else None, moved, out)
        elif kind == "Graph.extend":
            for v in moved:
                _place_after(lst, lst[-1] if lst else None, [v], out)
        else:
            raise AssertionError(kind)
    flags = set()
    if lst == before and out == before_out:
        flags.add("no-op")
    if before and before[-1] in moved:
        flags.add("last")
    if before and before[0] in moved:
        flags.add("first")
    if any(v in before_out for v in moved):
        flags.add("re-add")
    if len(set(moved)) > 1:
        flags.add("multi")
    return flags


def run_history(spec: Spec) -> tuple[list[list[int]], list[set[str]]] | None:
    """Final order of every graph according to the list model and the flags of every move; None
    if some move is not executable or a node stays taken out."""
    h = spec["history"]
    cur = [list(o) for o in h["start"]]
    out: set[int] = set()
    flags = []
    for move in h["moves"]:
        if not (0 <= move[1] < len(cur)):
            return None
        if any(spec["nodes"][v]["g"] != move[1] for v in move[3]) or \
                (move[2] is not None and spec["nodes"][move[2]]["g"] != move[1]):
            return None
        f = model_move(cur[move[1]], out, move)
        if f is None:
            return None
        flags.append(f)
    if out:
        return None
    return cur, flags


def move_tag(move: list, flags: set[str]) -> str:
    order = ["no-op", "last", "first", "re-add", "multi"]
    fl = [f for f in order if f in flags]
    return move[0] + (f"[{','.join(fl)}]" if fl else "")


def history_tags(spec: Spec) -> list[str]:
    res = run_history(spec)
    if res is None:
        return ["?"]
    return sorted({move_tag(m, f) for m, f in zip(spec["history"]["moves"], res[1])})


def strip_history(spec: Spec) -> Spec:
    return {k: v for k, v in spec.items() if k != "history"}


def settle_history(spec: Spec) -> Spec | None:
    """After a reduction: make ``order`` of every graph what the (reduced) history reaches; None
    if the reduced history is not executable any more."""
    if "history" not in spec:
        return spec
    res = run_history(spec)
    if res is None:
        return None
    return dict(spec, graphs=[{"nin": g["nin"], "order": o} for g, o in zip(spec["graphs"], res[0])])


def _form(rng, n: int, single_ok: bool = True) -> str:
    if n == 1 and single_ok and rng.random() < 0.6:
        return "node"
    return rng.choice(["list", "list", "tuple", "iter"])


def _ins_kind(rng, after: bool) -> str:
    if after:
        return "Node.append" if rng.random() < 0.35 else "Graph.insert_after"
    return "Node.prepend" if rng.random() < 0.35 else "Graph.insert_before"


def _chunks(rng, items: list[int]) -> list[list[int]]:
    out, k = [], 0
    while k < len(items):
        step = rng.choice([1, 1, 2, 3, 5, len(items)])
        out.append(items[k:k + step])
        k += step
    return out


def _random_move(rng, gid: int, cur: list[int], out: set[int]) -> list | None:
    pool = cur + sorted(out)
    if not pool:
        return None
    kind = rng.choice(MOVE_KINDS)
    if kind == "Graph.remove":
        if not cur:
            return None
        moved = rng.sample(cur, min(len(cur), rng.choice([1, 1, 2, 3])))
        return [kind, gid, None, moved, _form(rng, len(moved))]
    r = rng.random()
    if r < 0.25 and cur:
        moved = [cur[-1]]
    elif r < 0.4 and cur:
        moved = [cur[0]]
    else:
        moved = rng.sample(pool, min(len(pool), rng.choice([1, 1, 1, 2, 3])))
    if kind == "Graph.append":
        return [kind, gid, None, moved[:1], "node"]
    if kind == "Graph.extend":
        return [kind, gid, None, moved, _form(rng, len(moved), False)]
    if not cur:
        return None
    anchor = rng.choice(cur)
    return [kind, gid, anchor, moved, _form(rng, len(moved))]


def _noop_move(rng, gid: int, T: list[int]) -> list | None:
    """A candidate move that should leave the order ``T`` as it is (verified by the caller)."""
    n = len(T)
    r = rng.random()
    x = rng.random()
    if n >= 2:
        i = (n - 2) if x < 0.45 else (0 if x < 0.65 else rng.randrange(n - 1))
    else:
        i = 0
    if r < 0.30 and n >= 2:  # the node that already follows the anchor
        return [_ins_kind(rng, True), gid, T[i], [T[i + 1]], _form(rng, 1)]
    if r < 0.50 and n >= 2:  # the node that already precedes the anchor
        return [_ins_kind(rng, False), gid, T[i + 1], [T[i]], _form(rng, 1)]
    if r < 0.58 and n >= 2:  # the run that already follows / precedes the anchor
        k = rng.choice([2, 3, n])
        if rng.random() < 0.5:
            a = rng.choice([max(0, n - 1 - k), rng.randrange(n - 1)])
            return [_ins_kind(rng, True), gid, T[a], T[a + 1:a + 1 + k], _form(rng, 2)]
        a = rng.choice([min(n - 1, k), rng.randrange(1, n)])
        return [_ins_kind(rng, False), gid, T[a], T[max(0, a - k):a], _form(rng, 2)]
    if r < 0.68:  # a node after / before itself
        a = rng.choice([T[-1], T[0], rng.choice(T)])
        return [_ins_kind(rng, rng.random() < 0.5), gid, a, [a], _form(rng, 1)]
    if r < 0.76 and n >= 2:  # anchor followed by its successor / predecessor followed by the anchor
        if rng.random() < 0.5:
            return [_ins_kind(rng, True), gid, T[i], [T[i], T[i + 1]], _form(rng, 2)]
        return [_ins_kind(rng, False), gid, T[i + 1], [T[i], T[i + 1]], _form(rng, 2)]
    if r < 0.86:
        return ["Graph.append", gid, None, [T[-1]], "node"]
    k = rng.choice([1, 2, 3, n])
    return ["Graph.extend", gid, None, T[-k:], _form(rng, 2)]


def _graph_history(rng, gid: int, T: list[int]) -> tuple[list[int], list[list]]:
    n = len(T)
    big = n > 10
    # 1. where the graph starts
    how = rng.choice(["same", "same", "shuffled", "shuffled", "reversed", "displaced", "displaced", "rotated"])
    S = list(T)
    if how == "shuffled":
        rng.shuffle(S)
    elif how == "reversed":
        S.reverse()
    elif how == "rotated":
        k = rng.randrange(n)
        S = S[k:] + S[:k]
    elif how == "displaced":
        for _ in range(rng.choice([1, 1, 2, 3])):
            v = S.pop(rng.randrange(len(S)))
            S.insert(rng.choice([0, len(S), rng.randrange(len(S) + 1)]), v)
    cur, out, moves = list(S), set(), []

    def emit(move: list | None) -> bool:
        if move is None:
            return False
        c, o = list(cur), set(out)
        if model_move(c, o, move) is None:
            return False
        cur[:] = c
        out.clear()
        out.update(o)
        moves.append(move)
        return True

    # 2. arbitrary moves
    for _ in range(rng.choice([0, 0, 1, 1, 2, 3])):
        emit(_random_move(rng, gid, cur, out))
    # 3. moves that establish T
    strategy = rng.choice(["forward", "forward", "backward", "backward", "extend", "after", "before", "none"]
                          if not big else
                          ["forward", "backward", "extend", "extend", "after", "before", "none"])
    p_again = rng.choice([0.0, 0.15, 0.15, 1.0]) if not big else rng.choice([0.0, 0.05])
    if strategy == "backward":
        for i in reversed(range(n)):
            placed = len(cur) >= n - i and cur[-(n - i)] == T[i]
            if placed and rng.random() >= p_again:
                continue
            if i == n - 1:
                others = [v for v in cur if v != T[i]]
                r = rng.random()
                if r < 0.4 or not others:
                    emit(["Graph.append", gid, None, [T[i]], "node"])
                elif r < 0.6:
                    emit(["Graph.extend", gid, None, [T[i]], _form(rng, 1, False)])
                else:
                    emit([_ins_kind(rng, True), gid, others[-1], [T[i]], _form(rng, 1)])
            else:
                emit([_ins_kind(rng, False), gid, T[i + 1], [T[i]], _form(rng, 1)])
    elif strategy == "extend":
        for chunk in _chunks(rng, T):
            if len(chunk) == 1 and rng.random() < 0.5:
                emit(["Graph.append", gid, None, chunk, "node"])
            else:
                emit(["Graph.extend", gid, None, chunk, _form(rng, len(chunk), False)])
    elif strategy == "after":
        if not cur:
            emit(["Graph.append", gid, None, [T[0]], "node"])
        elif cur[0] != T[0] or rng.random() < p_again:
            emit([_ins_kind(rng, False), gid, cur[0], [T[0]], _form(rng, 1)])
        last = T[0]
        for chunk in _chunks(rng, T[1:]):
            emit([_ins_kind(rng, True), gid, last, chunk, _form(rng, len(chunk))])
            last = chunk[-1]
    elif strategy == "before":
        emit(["Graph.append", gid, None, [T[-1]], "node"])
        for chunk in _chunks(rng, T[:-1]):
            emit([_ins_kind(rng, False), gid, T[-1], chunk, _form(rng, len(chunk))])
    # the forward pass also completes whatever the strategy above left undone (strategy "none",
    # nodes still taken out)
    for i in range(n):
        at = cur[i] if i < len(cur) else None
        if at == T[i] and not (strategy == "forward" and rng.random() < p_again):
            continue
        if i == 0:
            if not cur:
                emit(["Graph.append", gid, None, [T[0]], "node"])
            else:
                emit([_ins_kind(rng, False), gid, cur[0], [T[0]], _form(rng, 1)])
        elif at is not None and at != T[i] and rng.random() < 0.4:
            emit([_ins_kind(rng, False), gid, at, [T[i]], _form(rng, 1)])
        else:
            emit([_ins_kind(rng, True), gid, T[i - 1], [T[i]], _form(rng, 1)])
    assert cur == T and not out, "C12 harness: history does not reach the order"
    # 4. moves to where the node already is
    for _ in range(rng.choice([0, 1, 1, 1, 2, 3])):
        mv = _noop_move(rng, gid, T)
        if mv is not None:
            c, o = list(cur), set(out)
            f = model_move(c, o, mv)
            if f is not None and "no-op" in f:
                moves.append(mv)
    return S, moves


def add_history(rng, spec: Spec) -> Spec:
    """The same unit with its initial orders reached through move operations (root graph always,
    nested graphs mostly)."""
    start, moves = [], []
    per_graph = []
    for gid, gr in enumerate(spec["graphs"]):
        T = list(gr["order"])
        if not T or (gid and rng.random() < 0.3):
            start.append(T)
            continue
        S, mv = _graph_history(rng, gid, T)
        start.append(S)
        per_graph.append(mv)
    # interleave the per-graph sequences (keeping each graph's own sequence in order)
    while per_graph:
        k = rng.randrange(len(per_graph))
        take = rng.choice([1, 2, len(per_graph[k])])
        moves.extend(per_graph[k][:take])
        del per_graph[k][:take]
        if not per_graph[k]:
            del per_graph[k]
    out = dict(spec, history={"start": start, "moves": moves})
    res = run_history(out)
    assert res is not None and res[0] == [g["order"] for g in spec["graphs"]], "C12 harness: history generator"
    return out


def describe_history(spec: Spec) -> str:
    if "history" not in spec:
        return ""
    h = spec["history"]
    res = run_history(spec)
    lines = ["initial order reached by: graphs constructed as " +
             "; ".join(f"g{gid}={['n%d' % x for x in o]}" for gid, o in enumerate(h["start"]) if o) + ", then"]
    for k, (kind, gid, anchor, moved, form) in enumerate(h["moves"]):
        arg = f"n{moved[0]}" if form == "node" else f"{form}({', '.join('n%d' % x for x in moved)})"
        if kind.startswith("Node."):
            call = f"n{anchor}.{kind[5:]}({arg})"
        elif anchor is not None:
            call = f"g{gid}.{kind[6:]}(n{anchor}, {arg})"
        else:
            call = f"g{gid}.{kind[6:]}({arg})"
        fl = sorted(res[1][k]) if res is not None else []
        lines.append(f"  {call}" + (f"   # {', '.join(fl)}" if fl else ""))
    return "\n".join(lines)
