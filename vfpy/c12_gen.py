"""C12 helpers that do not touch onnx_ir: JSON-able graph *specs*, their generators (random and
exhaustive), the spec-level constraint relation, and spec reduction for shrinking.

A spec describes a tree of graphs::

    {"graphs": [{"nin": 1, "order": [2, 0, 1]}, ...],          # index = graph id, 0 = root
     "nodes":  [{"g": 0, "nout": 1, "inputs": [ref, ...],       # index = node id
                 "attrs": [["body", "G", [1]], ["branches", "GS", [2, 3]]]}, ...]}

    ref ::= None | ["n", node_id, output_index] | ["i", graph_id, input_index] | ["d", detached_id, output_index]

Optionally ``"detached": [{"scope": gid, "how": "never"|"removed", "pos": k, "nout": m, "inputs": [ref, ...]}]``:
nodes that are in **no graph** when the sort runs but still use (and so appear in ``uses()`` of)
values visible from graph ``scope`` - either constructed and never added, or put into ``scope``
at position ``pos`` and then taken out with the default non-safe ``Graph.remove`` (which keeps
their inputs).  Being in no graph they are outside the statement's relation; the oracle ignores
them and nodes of the graphs may even use their outputs (producer located in no graph).

Optionally ``"history"``: the initial orders are reached through public move operations instead
of being constructed directly (see the section "histories" below).

Optionally, per node, ``"plain": [[slot, name, kind], ...]``: attributes that hold NO graph and stand
next to the node's graph attributes (see the section "other attributes" below).

Every graph other than 0 is owned by exactly one attribute of exactly one node.  Specs are
**lexically well scoped**: a node of graph H refers only to outputs of nodes (or inputs) of H or
of graphs enclosing H.
"""

from __future__ import annotations

import itertools
import math
from typing import Any, Iterator

Spec = dict


# ---------------------------------------------------------------------------------------------
# structure helpers
# ---------------------------------------------------------------------------------------------
def owners(spec: Spec) -> dict[int, int]:
    """graph id -> id of the node that owns it through an attribute."""
    out: dict[int, int] = {}
    for nid, n in enumerate(spec["nodes"]):
        for _name, _kind, gids in n["attrs"]:
            for gid in gids:
                assert gid not in out and gid != 0, "spec is not a tree"
                out[gid] = nid
    return out


def graph_depths(spec: Spec) -> list[int]:
    own = owners(spec)
    depth = []
    for gid in range(len(spec["graphs"])):
        d, g = 0, gid
        while g in own:
            g = spec["nodes"][own[g]]["g"]
            d += 1
        depth.append(d)
    return depth


def ancestor_in(spec: Spec, own: dict[int, int], nid: int, gid: int) -> int | None:
    """The node of graph ``gid`` that is ``nid`` or encloses it; None if ``gid`` does not enclose it."""
    while True:
        g = spec["nodes"][nid]["g"]
        if g == gid:
            return nid
        if g not in own:
            return None
        nid = own[g]


def subtree_graphs(spec: Spec, gid: int) -> list[int]:
    """``gid`` and every graph nested (at any depth) in one of its nodes."""
    own = owners(spec)
    out = []
    for g in range(len(spec["graphs"])):
        x = g
        while True:
            if x == gid:
                out.append(g)
                break
            if x not in own:
                break
            x = spec["nodes"][own[x]]["g"]
    return out


def spec_constraints(spec: Spec) -> list[set[tuple[int, int, str]]]:
    """Per graph: {(producer, consumer-or-enclosing-node, 'direct'|'nested')} - the relation of the
    property statement, computed bottom-up from the uses (the object-level oracle in c12_build
    walks top-down over the real objects; the two must agree or the harness is broken)."""
    own = owners(spec)
    cons: list[set[tuple[int, int, str]]] = [set() for _ in spec["graphs"]]
    for j, n in enumerate(spec["nodes"]):
        for ref in n["inputs"]:
            if ref is None or ref[0] != "n":
                continue
            i = ref[1]
            gid = spec["nodes"][i]["g"]
            a = ancestor_in(spec, own, j, gid)
            assert a is not None, "spec is not lexically well scoped"
            cons[gid].add((i, a, "direct" if a == j else "nested"))
    return cons


# ---------------------------------------------------------------------------------------------
# brute-force predicates over one graph's relation
# ---------------------------------------------------------------------------------------------
def has_cycle(nodes: list[int], pairs) -> bool:
    """True iff no linear order of ``nodes`` puts p before n for every (p, n, ..) - decided by
    repeatedly deleting nodes none of whose producers remain."""
    remaining = set(nodes)
    preds: dict[int, set[int]] = {n: set() for n in nodes}
    for p, n, *_ in pairs:
        preds[n].add(p)
    changed = True
    while changed and remaining:
        changed = False
        for n in list(remaining):
            if not (preds[n] & remaining):
                remaining.discard(n)
                changed = True
    return bool(remaining)


def broken_pairs(order: list[int], pairs) -> list[tuple]:
    pos = {n: k for k, n in enumerate(order)}
    return [pr for pr in sorted(pairs) if not (pos.get(pr[0], math.inf) < pos.get(pr[1], -1))]


def classify_cycle(pairs) -> str:
    kinds = sorted({pr[2] for pr in pairs if pr[0] == pr[1]})
    if kinds:
        return "self-" + "+".join(kinds)
    return "multi-node"


# ---------------------------------------------------------------------------------------------
# random specs
# ---------------------------------------------------------------------------------------------
ATTR_SHAPES = [
    [["body", "G", 1]],
    [["then_branch", "G", 1], ["else_branch", "G", 1]],
    [["branches", "GS", 1]],
    [["branches", "GS", 2]],
    [["branches", "GS", 3]],
    [["body", "G", 1], ["branches", "GS", 2]],
    [["branches", "GS", 2], ["body", "G", 1]],
    [["body", "G", 1], ["then_branch", "G", 1], ["else_branch", "G", 1]],
    [["then_branch", "G", 1], ["branches", "GS", 1], ["else_branch", "G", 1], ["extra", "G", 1]],
]


# ---------------------------------------------------------------------------------------------
# other attributes: what a node carries NEXT TO its graph attributes
# ---------------------------------------------------------------------------------------------
# ``node["plain"] = [[slot, name, kind], ...]`` (key absent = none).  ``kind`` is a value attribute
# ("INT", "FLOAT", "STRING", "INTS") or a REFERENCE attribute ("ref-<TYPE>": the value comes from an
# attribute of the enclosing function; it holds nothing, also when its type is GRAPH / GRAPHS).
# ``slot`` k places the attribute directly before the node's k-th graph attribute (k = number of graph
# attributes: after all of them); attributes of one slot keep their list order.  The attribute ORDER
# of a node is part of the structure: every construction gives the attributes in this order.
# None of these attributes holds a graph, so none of them adds to or takes from the relation of the
# statement.
VALUE_KINDS = ("INT", "FLOAT", "STRING", "INTS")
REF_KINDS = ("ref-INT", "ref-INT", "ref-FLOAT", "ref-STRING", "ref-INTS", "ref-TENSOR")
GRAPH_REF_KINDS = ("ref-GRAPH", "ref-GRAPHS")
PLAIN_NAMES = ("alpha", "axis", "mode", "perm", "num_scan_inputs", "value", "to",
               "body", "then_branch", "else_branch", "branches", "extra")


def attr_sequence(n: dict) -> list[list]:
    """The attributes of a node in their order: ["plain", name, kind] | ["graph", name, kind, gids]."""
    plain = n.get("plain", [])
    na = len(n["attrs"])
    out: list[list] = []
    for k in range(na + 1):
        out.extend(["plain", p[1], p[2]] for p in plain if min(max(p[0], 0), na) == k)
        if k < na:
            a = n["attrs"][k]
            out.append(["graph", a[0], a[1], a[2]])
    return out


def attr_names(n: dict) -> list[str]:
    return [a[0] for a in n["attrs"]] + [p[1] for p in n.get("plain", [])]


def plain_tags(n: dict, for_signature: bool = False) -> set[str]:
    """Where the other attributes of a node stand relative to its graph attributes:
    {value|ref|graphref}@{alone|before-graph-attr|between-graph-attrs|after-graph-attr}.  ``for_signature``: a
    reference attribute of a graph type is named by its type only (ref-GRAPH / ref-GRAPHS)."""
    na = len(n["attrs"])
    out = set()
    for slot, _name, kind in n.get("plain", []):
        if for_signature and kind in GRAPH_REF_KINDS:
            out.add(kind)
            continue
        what = "graphref" if kind in GRAPH_REF_KINDS else "ref" if kind.startswith("ref-") else "value"
        slot = min(max(slot, 0), na)
        where = "alone" if not na else "before-graph-attr" if slot == 0 else "after-graph-attr" if slot == na else "between-graph-attrs"
        out.add(f"{what}@{where}")
    return out


def gen_plain(rng, spec: Spec, graph_refs: bool = False) -> None:
    """Give nodes of ``spec`` other attributes, in every position relative to their graph attributes.
    ``graph_refs``: also reference attributes of type GRAPH / GRAPHS (at least one)."""
    nodes = spec["nodes"]
    p_cf = rng.choice([0.5, 0.8, 1.0])
    p_other = rng.choice([0.0, 0.1, 0.3])

    def one(n: dict, kind: str | None = None) -> None:
        na = len(n["attrs"])
        free = [x for x in PLAIN_NAMES if x not in attr_names(n)]
        if not free:
            return
        if kind is None:
            kind = rng.choice(REF_KINDS) if rng.random() < 0.55 else rng.choice(VALUE_KINDS)
        x = rng.random()
        slot = 0 if x < 0.45 else na if x < 0.7 else rng.randrange(na + 1)
        n.setdefault("plain", []).append([slot, rng.choice(free), kind])

    for n in nodes:
        na = len(n["attrs"])
        if rng.random() >= (p_cf if na else p_other):
            continue
        for _ in range(rng.choice([1, 1, 2, 2, 3]) if na else rng.choice([1, 1, 2])):
            one(n)
    if graph_refs and nodes:
        cf = [n for n in nodes if n["attrs"]]
        for _ in range(rng.choice([1, 1, 2])):
            n = rng.choice(cf) if cf and rng.random() < 0.5 else rng.choice(nodes)
            one(n, rng.choice(GRAPH_REF_KINDS))


def without_plain(spec: Spec) -> Spec:
    return dict(spec, nodes=[{k: v for k, v in n.items() if k != "plain"} for n in spec["nodes"]])


def drop_plain(spec: Spec, nid: int, k: int) -> Spec:
    nodes = list(spec["nodes"])
    rest = nodes[nid]["plain"][:k] + nodes[nid]["plain"][k + 1:]
    nodes[nid] = {key: v for key, v in nodes[nid].items() if key != "plain"}
    if rest:
        nodes[nid]["plain"] = rest
    return dict(spec, nodes=nodes)


def has_plain(spec: Spec) -> bool:
    return any(n.get("plain") for n in spec["nodes"])


def gen_structure(rng, n_nodes: int, depth_max: int, cyclic: bool, plain: str = "none") -> tuple[Spec, dict]:
    """Random well-scoped nested structure.  Returns the spec (graph orders = a hidden valid order
    when acyclic) and ``meta`` with feature counts.  ``cyclic`` adds edges against the hidden
    order (which may or may not close a cycle; the oracle decides).  ``plain``: "none" | "some" |
    "graph-refs" - other attributes next to the graph attributes (gen_plain)."""
    graphs: list[dict] = [{"nin": rng.choice([0, 1, 2]), "order": []}]
    depth = [0]
    nodes: list[dict] = []
    p_cf = rng.choice([0.15, 0.3, 0.5]) if depth_max else 0.0
    p_root = rng.choice([0.25, 0.5])
    p_deep = rng.choice([0.0, 0.25, 0.4]) if depth_max >= 2 else 0.0
    for nid in range(n_nodes):
        x = rng.random()
        if x < p_root:
            g = 0
        elif x < p_root + p_deep:
            g = len(graphs) - 1  # keep filling the most recently opened body (builds deep chains)
        else:
            g = rng.randrange(len(graphs))
        node = {"g": g, "nout": rng.choice([1, 1, 1, 1, 2, 2, 3, 0]), "inputs": [], "attrs": []}
        if depth[g] < depth_max and rng.random() < p_cf:
            for name, kind, cnt in rng.choice(ATTR_SHAPES):
                gids = []
                for _ in range(cnt):
                    graphs.append({"nin": rng.choice([0, 0, 1, 2]), "order": []})
                    depth.append(depth[g] + 1)
                    gids.append(len(graphs) - 1)
                node["attrs"].append([name, kind, gids])
        nodes.append(node)
        graphs[g]["order"].append(nid)
    spec = {"graphs": graphs, "nodes": nodes}
    own = owners(spec)
    # hidden valid order of every graph
    for gr in graphs:
        rng.shuffle(gr["order"])
    hpos = {nid: k for gr in graphs for k, nid in enumerate(gr["order"])}

    meta = {"none_inputs": 0, "repeated_inputs": 0, "captures": 0, "back_edges": 0,
            "graph_input_uses": 0}

    def chain(nid: int) -> list[int]:
        """graph of the node and every enclosing graph."""
        out = [nodes[nid]["g"]]
        while out[-1] in own:
            out.append(nodes[own[out[-1]]]["g"])
        return out

    p_capture = rng.choice([0.3, 0.6])
    for j, node in enumerate(nodes):
        k = rng.choice([0, 1, 1, 2, 2, 3, 4])
        scope = chain(j)
        for _ in range(k):
            r = rng.random()
            if r < 0.10:
                node["inputs"].append(None)
                meta["none_inputs"] += 1
                continue
            if r < 0.25 and any(x is not None for x in node["inputs"]):
                node["inputs"].append(rng.choice([x for x in node["inputs"] if x is not None]))
                meta["repeated_inputs"] += 1
                continue
            if r < 0.37:
                with_inputs = [g for g in scope if graphs[g]["nin"]]
                if with_inputs:
                    g = rng.choice(with_inputs)
                    node["inputs"].append(["i", g, rng.randrange(graphs[g]["nin"])])
                    meta["graph_input_uses"] += 1
                    continue
            g = scope[0] if (len(scope) == 1 or rng.random() > p_capture) else rng.choice(scope[1:])
            a = ancestor_in(spec, own, j, g)
            cands = [i for i in graphs[g]["order"] if hpos[i] < hpos[a] and nodes[i]["nout"]]
            if not cands:
                node["inputs"].append(None)
                meta["none_inputs"] += 1
                continue
            # prefer near producers sometimes, any producer otherwise
            i = cands[-1] if rng.random() < 0.3 else rng.choice(cands)
            node["inputs"].append(["n", i, rng.randrange(nodes[i]["nout"])])
            if g != scope[0]:
                meta["captures"] += 1
    if cyclic and nodes:
        for _ in range(rng.choice([1, 1, 2, 3])):
            j = rng.randrange(len(nodes))
            scope = chain(j)
            g = rng.choice(scope[1:]) if (len(scope) > 1 and rng.random() < 0.5) else rng.choice(scope)
            a = ancestor_in(spec, own, j, g)
            if rng.random() < 0.3 and nodes[a]["nout"]:
                i = a  # self-dependency: direct when a == j, through a nested use otherwise
            else:
                cands = [i for i in graphs[g]["order"] if hpos[i] >= hpos[a] and nodes[i]["nout"]]
                if not cands:
                    continue
                i = rng.choice(cands)
            ref = ["n", i, rng.randrange(nodes[i]["nout"])]
            ins = nodes[j]["inputs"]
            if ins and rng.random() < 0.5:
                ins[rng.randrange(len(ins))] = ref
            else:
                ins.insert(rng.randrange(len(ins) + 1), ref)
            meta["back_edges"] += 1
    detached: list[dict] = []
    meta.update({"detached_never": 0, "detached_removed": 0, "uses_of_detached_outputs": 0})
    if nodes and rng.random() < 0.4:
        users: dict[int, int] = {}
        for n in nodes:
            for r in n["inputs"]:
                if r is not None and r[0] == "n":
                    users[r[1]] = users.get(r[1], 0) + 1
        capturing = [j for j, n in enumerate(nodes) if n["nout"] and
                     any(r is not None and r[0] == "n" and nodes[r[1]]["g"] != n["g"] for r in n["inputs"])]
        for _ in range(rng.choice([1, 1, 2, 3, 4])):
            # the consumer's scope: prefer graphs that hold a capturing node nobody else consumes
            lonely = [j for j in capturing if not users.get(j)]
            x = rng.random()
            if lonely and x < 0.5:
                first = rng.choice(lonely)
            elif x < 0.8:
                first = rng.choice([j for j, n in enumerate(nodes) if n["nout"]] or [None])
            else:
                first = None
            scope_g = nodes[first]["g"] if first is not None else rng.randrange(len(graphs))
            chain_g = [scope_g]
            while chain_g[-1] in own:
                chain_g.append(nodes[own[chain_g[-1]]]["g"])
            ins: list = []
            if first is not None:
                ins.append(["n", first, rng.randrange(nodes[first]["nout"])])
                users[first] = users.get(first, 0)  # (detached consumers do not count as users)
            for _k in range(rng.choice([0, 0, 1, 2])):
                r = rng.random()
                g = rng.choice(chain_g)
                cands = [i for i in graphs[g]["order"] if nodes[i]["nout"]]
                if r < 0.15 or not cands:
                    ins.append(None)
                elif r < 0.3 and detached and any(d["nout"] for d in detached):
                    dd = rng.choice([k for k, d in enumerate(detached) if d["nout"]])
                    ins.append(["d", dd, rng.randrange(detached[dd]["nout"])])
                elif r < 0.45 and ins and any(x is not None for x in ins):
                    ins.append(rng.choice([x for x in ins if x is not None]))
                else:
                    i = rng.choice(cands)
                    ins.append(["n", i, rng.randrange(nodes[i]["nout"])])
            rng.shuffle(ins)
            how = rng.choice(["never", "removed"])
            detached.append({"scope": scope_g, "how": how, "pos": rng.randrange(len(graphs[scope_g]["order"]) + 1),
                             "nout": rng.choice([0, 1, 1, 2]), "inputs": ins})
            meta["detached_" + how] += 1
        # now and then a node of the graphs consumes the output of a node that is in no graph
        for dd, d in enumerate(detached):
            if d["nout"] and rng.random() < 0.25:
                j = rng.randrange(len(nodes))
                nodes[j]["inputs"].insert(rng.randrange(len(nodes[j]["inputs"]) + 1), ["d", dd, rng.randrange(d["nout"])])
                meta["uses_of_detached_outputs"] += 1
    spec["detached"] = detached
    if plain != "none":
        gen_plain(rng, spec, graph_refs=plain == "graph-refs")
    meta["max_depth"] = max(depth)
    meta["multi_output_nodes"] = sum(1 for n in nodes if n["nout"] > 1)
    meta["cf_nodes"] = sum(1 for n in nodes if n["attrs"])
    meta["empty_subgraphs"] = sum(1 for gr in graphs[1:] if not gr["order"])
    return spec, meta


def with_orders(spec: Spec, orders: list[list[int]]) -> Spec:
    out = {"graphs": [{"nin": g["nin"], "order": list(o)} for g, o in zip(spec["graphs"], orders)],
           "nodes": spec["nodes"], "detached": spec.get("detached", [])}
    if spec.get("names"):
        out["names"] = spec["names"]
    return out


def dangling_capture_nodes(spec: Spec) -> list[int]:
    """Nodes of nested graphs that capture an outer node's output and whose outputs are consumed
    by detached nodes only (>= 1 such consumer)."""
    used_in_graph = {r[1] for n in spec["nodes"] for r in n["inputs"] if r is not None and r[0] == "n"}
    used_detached = {r[1] for d in spec.get("detached", []) for r in d["inputs"] if r is not None and r[0] == "n"}
    return [j for j, n in enumerate(spec["nodes"]) if j in used_detached and j not in used_in_graph
            and any(r is not None and r[0] == "n" and spec["nodes"][r[1]]["g"] != n["g"] for r in n["inputs"])]


def initial_orders(rng, spec: Spec, mode: str) -> list[list[int]]:
    """An initial order of every graph derived from the hidden order stored in the spec."""
    out = []
    for gr in spec["graphs"]:
        o = list(gr["order"])
        if mode == "hidden":
            pass
        elif mode == "reversed":
            o.reverse()
        elif mode == "shuffled":
            rng.shuffle(o)
        elif mode == "swaps":
            for _ in range(rng.choice([1, 1, 2, 3])):
                if len(o) >= 2:
                    a, b = rng.randrange(len(o)), rng.randrange(len(o))
                    o[a], o[b] = o[b], o[a]
        elif mode == "cf_first":  # control-flow nodes before everything they may capture
            o = [n for n in o if spec["nodes"][n]["attrs"]] + [n for n in o if not spec["nodes"][n]["attrs"]]
        elif mode == "rotate":
            if o:
                k = rng.randrange(len(o))
                o = o[k:] + o[:k]
        else:
            raise AssertionError(mode)
        out.append(o)
    return out


ORDER_MODES = ["hidden", "reversed", "shuffled", "swaps", "cf_first", "rotate"]


def all_order_combinations(spec: Spec, limit: int) -> Iterator[list[list[int]]] | None:
    """Every combination of permutations of every graph, or None if there are more than ``limit``."""
    total = 1
    for gr in spec["graphs"]:
        total *= math.factorial(len(gr["order"]))
        if total > limit:
            return None
    per_graph = [list(itertools.permutations(sorted(gr["order"]))) for gr in spec["graphs"]]
    return (list(map(list, combo)) for combo in itertools.product(*per_graph))


# ---------------------------------------------------------------------------------------------
# exhaustive space: all loop-free digraphs on n labelled nodes x all initial permutations x shapes
# ---------------------------------------------------------------------------------------------
EXH_SHAPES = ("flat", "nested_use", "two_level", "nested_use_dangling")


def exhaustive_size(max_n: int) -> int:
    return sum((2 ** (n * (n - 1))) * math.factorial(n) * len(EXH_SHAPES) for n in range(1, max_n + 1))


def exhaustive_item(index: int, max_n: int) -> tuple[int, int, int, str]:
    """index -> (n, edge mask, permutation number, shape)."""
    for n in range(1, max_n + 1):
        block = (2 ** (n * (n - 1))) * math.factorial(n) * len(EXH_SHAPES)
        if index < block:
            shape = EXH_SHAPES[index % len(EXH_SHAPES)]
            index //= len(EXH_SHAPES)
            perm = index % math.factorial(n)
            mask = index // math.factorial(n)
            return n, mask, perm, shape
        index -= block
    raise IndexError(index)


def digraph_edges(n: int, mask: int) -> list[tuple[int, int]]:
    pairs = [(i, j) for i in range(n) for j in range(n) if i != j]
    return [pr for k, pr in enumerate(pairs) if mask >> k & 1]


def nth_permutation(items: list[int], k: int) -> list[int]:
    items = list(items)
    out = []
    for f in range(len(items), 0, -1):
        q, k = divmod(k, math.factorial(f - 1))
        out.append(items.pop(q))
    return out


def exhaustive_spec(n: int, mask: int, perm: int, shape: str) -> Spec:
    """Realise the dependency digraph (edge i->j: j needs i) in one of three nesting shapes.

    flat        all n nodes in the root, dependencies are direct inputs
    nested_use  every dependent node is a control-flow node whose body holds one node that
                captures the producers' outputs (all constraints arise through nested uses)
    nested_use_dangling  the same, and the capturing node's output is consumed only by a node
                that is in no graph (never added / removed with the non-safe remove)
    two_level   root = [W, P]: W (GRAPHS attribute, two branches) *precedes* P although both
                branches capture P; branch 0 holds the n nodes, dependencies alternate between
                direct inputs and uses at depth 2
    """
    edges = digraph_edges(n, mask)
    order = nth_permutation(list(range(n)), perm)
    preds: dict[int, list[int]] = {j: [i for i, jj in edges if jj == j] for j in range(n)}
    if shape == "flat":
        nodes = [{"g": 0, "nout": 1, "inputs": [["n", i, 0] for i in preds[j]], "attrs": []} for j in range(n)]
        return {"graphs": [{"nin": 0, "order": order}], "nodes": nodes}
    if shape in ("nested_use", "nested_use_dangling"):
        graphs = [{"nin": 0, "order": order}]
        nodes = [{"g": 0, "nout": 1, "inputs": [], "attrs": []} for _ in range(n)]
        detached = []
        for j in range(n):
            if preds[j]:
                graphs.append({"nin": 0, "order": [len(nodes)]})
                nodes[j]["attrs"].append(["body", "G", [len(graphs) - 1]])
                nodes.append({"g": len(graphs) - 1, "nout": 1,
                              "inputs": [["n", i, 0] for i in preds[j]], "attrs": []})
                if shape == "nested_use" and (perm + j) % 4:
                    # other attributes around the body (pattern varies with the permutation, so every
                    # digraph meets every pattern): reference before / value after / both
                    nodes[j]["plain"] = [[[0, "num_scan_inputs", "ref-INT"]], [[1, "axis", "INT"]],
                                         [[0, "mode", "STRING"], [0, "alpha", "ref-FLOAT"], [1, "axis", "INT"]]][(perm + j) % 4 - 1]
                if shape == "nested_use_dangling":
                    # the capturing node's only consumer is in no graph (removed / never added)
                    detached.append({"scope": len(graphs) - 1, "how": "removed" if j % 2 else "never", "pos": 1,
                                     "nout": 1, "inputs": [["n", len(nodes) - 1, 0]]})
        return {"graphs": graphs, "nodes": nodes, "detached": detached}
    if shape == "two_level":
        # nodes 0..n-1 live in graph 1 (branch 0 of W); W = n, P = n+1, branch-1 user = n+2
        W, P, U = n, n + 1, n + 2
        graphs = [{"nin": 0, "order": [W, P]}, {"nin": 0, "order": order}, {"nin": 0, "order": [U]}]
        nodes = [{"g": 1, "nout": 1, "inputs": [], "attrs": []} for _ in range(n)]
        nodes.append({"g": 0, "nout": 1, "inputs": [], "attrs": [["branches", "GS", [1, 2]]]})
        nodes.append({"g": 0, "nout": 2, "inputs": [], "attrs": []})
        nodes.append({"g": 2, "nout": 1, "inputs": [["n", P, 1], None, ["n", P, 1]], "attrs": []})
        nodes[0]["inputs"].append(["n", P, 0])
        for j in range(n):
            deep = [i for i in preds[j] if (i + j) % 2]
            nodes[j]["inputs"].extend(["n", i, 0] for i in preds[j] if not (i + j) % 2)
            if deep:
                graphs.append({"nin": 0, "order": [len(nodes)]})
                nodes[j]["attrs"].append(["body", "G", [len(graphs) - 1]])
                nodes.append({"g": len(graphs) - 1, "nout": 1,
                              "inputs": [["n", i, 0] for i in deep], "attrs": []})
        return {"graphs": graphs, "nodes": nodes}
    raise AssertionError(shape)


# ---------------------------------------------------------------------------------------------
# reduction (for shrinking a witness)
# ---------------------------------------------------------------------------------------------
def remove_nodes(spec: Spec, doomed: set[int], sub: int | None = None,
                 doomed_graphs: set[int] | None = None,
                 doomed_detached: set[int] | None = None, maps: dict | None = None) -> tuple[Spec, int | None] | None:
    """Remove nodes and/or attribute graphs (with everything nested in them); references to
    removed outputs become None; an attribute left without graphs is dropped.
    Returns (new spec, remapped ``sub`` graph id) or None if ``sub`` would disappear."""
    own = owners(spec)
    dead_nodes = set(doomed)
    dead_graphs: set[int] = set(doomed_graphs or ())
    changed = True
    while changed:
        changed = False
        for gid, nid in own.items():
            if nid in dead_nodes and gid not in dead_graphs:
                dead_graphs.add(gid)
                changed = True
        for nid, n in enumerate(spec["nodes"]):
            if n["g"] in dead_graphs and nid not in dead_nodes:
                dead_nodes.add(nid)
                changed = True
    if sub is not None and sub in dead_graphs:
        return None
    nmap = {}
    for nid in range(len(spec["nodes"])):
        if nid not in dead_nodes:
            nmap[nid] = len(nmap)
    gmap = {}
    for gid in range(len(spec["graphs"])):
        if gid not in dead_graphs:
            gmap[gid] = len(gmap)

    dmap = {}
    for did, d in enumerate(spec.get("detached", [])):
        if d["scope"] in gmap and did not in (doomed_detached or ()):
            dmap[did] = len(dmap)

    def fix(ref):
        if ref is None:
            return None
        if ref[0] == "n":
            return ["n", nmap[ref[1]], ref[2]] if ref[1] in nmap else None
        if ref[0] == "d":
            return ["d", dmap[ref[1]], ref[2]] if ref[1] in dmap else None
        return ["i", gmap[ref[1]], ref[2]] if ref[1] in gmap else None

    graphs = [{"nin": g["nin"], "order": [nmap[x] for x in g["order"] if x in nmap]}
              for gid, g in enumerate(spec["graphs"]) if gid in gmap]
    nodes = [{"g": gmap[n["g"]], "nout": n["nout"], "inputs": [fix(r) for r in n["inputs"]],
              "attrs": [[a[0], a[1], [gmap[x] for x in a[2] if x in gmap]] for a in n["attrs"]
                        if any(x in gmap for x in a[2])]}
             for nid, n in enumerate(spec["nodes"]) if nid in nmap]
    for new_n, n in zip(nodes, (n for nid, n in enumerate(spec["nodes"]) if nid in nmap)):
        if n.get("plain"):  # other attributes stay, before the same (surviving) graph attribute
            kept = [any(x in gmap for x in a[2]) for a in n["attrs"]]
            new_n["plain"] = [[sum(kept[:min(max(p[0], 0), len(kept))]), p[1], p[2]] for p in n["plain"]]
    detached = [dict(d, scope=gmap[d["scope"]], inputs=[fix(r) for r in d["inputs"]])
                for did, d in enumerate(spec.get("detached", [])) if did in dmap]
    new = {"graphs": graphs, "nodes": nodes, "detached": detached}
    if maps is not None:
        maps.update({"n": nmap, "g": gmap, "d": dmap})
    if spec.get("names"):
        names = [[w, nm] for w, nm in ([remap_what(w, nmap, gmap), nm] for w, nm in spec["names"]) if w is not None]
        if names:
            new["names"] = names
    if "history" in spec:
        # the same moves without the removed nodes; a move whose anchor is gone is dropped
        h = spec["history"]
        moves = []
        for kind, gid, anchor, moved, form in h["moves"]:
            moved = [nmap[x] for x in moved if x in nmap]
            if gid not in gmap or not moved or (anchor is not None and anchor not in nmap):
                continue
            if form == "node" and len(moved) != 1:
                form = "list"
            moves.append([kind, gmap[gid], None if anchor is None else nmap[anchor], moved, form])
        new["history"] = {"start": [[nmap[x] for x in o if x in nmap] for gid, o in enumerate(h["start"]) if gid in gmap],
                          "moves": moves}
        new = settle_history(new)
        if new is None:
            return None
    return new, (gmap[sub] if sub is not None else None)


def remap_what(what: list, nmap: dict, gmap: dict) -> list | None:
    """The subject of a name entry (["n", node] | ["v", node, output] | ["i", graph, input]) after a reduction."""
    if what[0] == "i":
        return ["i", gmap[what[1]], what[2]] if what[1] in gmap else None
    return [what[0], nmap[what[1]], *what[2:]] if what[1] in nmap else None


def drop_input(spec: Spec, nid: int, slot: int, to_none: bool, detached: bool = False) -> Spec:
    if detached:
        flipped = {"graphs": spec["graphs"], "nodes": spec.get("detached", [])}
        out = {"graphs": spec["graphs"], "nodes": spec["nodes"],
               "detached": drop_input(flipped, nid, slot, to_none)["nodes"]}
        for key in ("history", "names"):
            if key in spec:
                out[key] = spec[key]
        return out
    nodes = []
    for k, n in enumerate(spec["nodes"]):
        if k == nid:
            ins = list(n["inputs"])
            if to_none:
                ins[slot] = None
            else:
                del ins[slot]
            n = dict(n, inputs=ins)
        nodes.append(n)
    out = {"graphs": spec["graphs"], "nodes": nodes, "detached": spec.get("detached", [])}
    for key in ("history", "names"):
        if key in spec:
            out[key] = spec[key]
    return out


def spec_size(spec: Spec) -> int:
    every = spec["nodes"] + spec.get("detached", [])
    size = 10 * len(every) + sum(len(n["inputs"]) + sum(1 for r in n["inputs"] if r is not None) for n in every)
    size += 2 * sum(len(n.get("plain", [])) for n in spec["nodes"])
    if "history" in spec:
        h = spec["history"]
        size += 2 + sum(4 + len(m[3]) for m in h["moves"])
        size += sum(1 for o, g in zip(h["start"], spec["graphs"]) if o != g["order"])
    return size


def describe(spec: Spec) -> str:
    """Compact human-readable rendering of a spec (initial order shown per graph)."""
    own = owners(spec)

    def ref(r: Any) -> str:
        if r is None:
            return "None"
        if r[0] == "d":
            return f"d{r[1]}.{r[2]}"
        return f"n{r[1]}.{r[2]}" if r[0] == "n" else f"g{r[1]}.in{r[2]}"

    lines = []
    for gid, gr in enumerate(spec["graphs"]):
        where = "root" if gid == 0 else f"owned by n{own[gid]}"
        items = []
        for nid in gr["order"]:
            n = spec["nodes"][nid]
            at = "".join(
                (f" {a[1]}={'g' + str(a[3][0]) if a[2] == 'G' else ['g' + str(x) for x in a[3]]}" if a[0] == "graph" else
                 f" {a[1]}=@ref:{a[2][4:]}" if a[2].startswith("ref-") else f" {a[1]}=<{a[2]}>")
                for a in attr_sequence(n))
            items.append(f"n{nid}({', '.join(ref(r) for r in n['inputs'])}){at}")
        lines.append(f"g{gid} [{where}]: " + "; ".join(items))
    for did, d in enumerate(spec.get("detached", [])):
        how = "never added to a graph" if d["how"] == "never" else f"was in g{d['scope']} at position {d['pos']}, then g{d['scope']}.remove(d{did})"
        lines.append(f"detached d{did}({', '.join(ref(r) for r in d['inputs'])}) [{how}]")
    if spec.get("names"):
        lines.append("names set after construction: " + ", ".join(f"{describe_what(w)}.name = {nm!r}" for w, nm in spec["names"]))
    if "history" in spec:
        lines.append(describe_history(spec))
    return "\n".join(lines)


# ---------------------------------------------------------------------------------------------
# histories: the initial order of a graph reached through the public move operations
# ---------------------------------------------------------------------------------------------
# A unit spec may carry ``"history": {"start": [order of every graph], "moves": [move, ...]}``: the
# graphs are constructed in the ``start`` orders and then the moves are applied, one after the
# other, through the public API; the result must be the ``order`` stored in ``graphs`` (the order
# the sort sees).  A move is ``[kind, graph id, anchor node id | None, [node ids], form]``:
#
#   Graph.insert_after / Graph.insert_before / Node.append / Node.prepend   (anchor, nodes)
#   Graph.append (one node) / Graph.extend (nodes) / Graph.remove (nodes; default non-safe)
#
# All of them accept nodes that already are in the graph (they are moved) and nodes that were
# taken out with Graph.remove before (they are re-added).  ``form`` says how the node argument is
# passed: "node" (a single Node), "list", "tuple" or "iter" (a one-shot iterator).
# The list model below is the harness's own statement of what the moves mean (the documented
# semantics: the nodes end up, in the given order, directly after/before the anchor or at the
# end); c12_build checks the real graphs against it.
MOVE_KINDS = ("Graph.insert_after", "Graph.insert_before", "Node.append", "Node.prepend",
              "Graph.append", "Graph.extend", "Graph.remove")


def _place_after(lst: list[int], point: int | None, values: list[int], out: set[int]) -> None:
    for v in values:
        if v == point:
            continue
        if v in lst:
            lst.remove(v)
        lst.insert(0 if point is None else lst.index(point) + 1, v)
        out.discard(v)
        point = v


def model_move(lst: list[int], out: set[int], move: list) -> set[str] | None:
    """Apply one move to the order ``lst`` of its graph (``out`` = nodes currently taken out of a
    graph).  Returns the flags of the move or None if its preconditions do not hold (the real call
    would raise, or the move is meaningless)."""
    kind, _gid, anchor, moved, _form = move
    if not moved:
        return None
    before = list(lst)
    before_out = set(out)
    if kind == "Graph.remove":
        if any(v not in lst for v in moved):
            return None
        for v in set(moved):
            lst.remove(v)
            out.add(v)
    else:
        if any(v not in lst and v not in out for v in moved):
            return None
        if kind in ("Graph.insert_after", "Node.append"):
            if anchor not in lst:
                return None
            _place_after(lst, anchor, moved, out)
        elif kind in ("Graph.insert_before", "Node.prepend"):
            if anchor not in lst:
                return None
            k = lst.index(anchor)
            _place_after(lst, lst[k - 1] if k else None, moved, out)
        elif kind == "Graph.append":
            if len(moved) != 1:
                return None
            _place_after(lst, lst[-1] if lst else None, moved, out)
        elif kind == "Graph.extend":
            for v in moved:
                _place_after(lst, lst[-1] if lst else None, [v], out)
        else:
            raise AssertionError(kind)
    flags = set()
    if lst == before and out == before_out:
        flags.add("no-op")
    if before and before[-1] in moved:
        flags.add("last")
    if before and before[0] in moved:
        flags.add("first")
    if any(v in before_out for v in moved):
        flags.add("re-add")
    if len(set(moved)) > 1:
        flags.add("multi")
    return flags


def run_history(spec: Spec) -> tuple[list[list[int]], list[set[str]]] | None:
    """Final order of every graph according to the list model and the flags of every move; None
    if some move is not executable or a node stays taken out."""
    h = spec["history"]
    cur = [list(o) for o in h["start"]]
    out: set[int] = set()
    flags = []
    for move in h["moves"]:
        if not (0 <= move[1] < len(cur)):
            return None
        if any(spec["nodes"][v]["g"] != move[1] for v in move[3]) or \
                (move[2] is not None and spec["nodes"][move[2]]["g"] != move[1]):
            return None
        f = model_move(cur[move[1]], out, move)
        if f is None:
            return None
        flags.append(f)
    if out:
        return None
    return cur, flags


def move_tag(move: list, flags: set[str]) -> str:
    order = ["no-op", "last", "first", "re-add", "multi"]
    fl = [f for f in order if f in flags]
    return move[0] + (f"[{','.join(fl)}]" if fl else "")


def history_tags(spec: Spec) -> list[str]:
    res = run_history(spec)
    if res is None:
        return ["?"]
    return sorted({move_tag(m, f) for m, f in zip(spec["history"]["moves"], res[1])})


def strip_history(spec: Spec) -> Spec:
    return {k: v for k, v in spec.items() if k != "history"}


def settle_history(spec: Spec) -> Spec | None:
    """After a reduction: make ``order`` of every graph what the (reduced) history reaches; None
    if the reduced history is not executable any more."""
    if "history" not in spec:
        return spec
    res = run_history(spec)
    if res is None:
        return None
    return dict(spec, graphs=[{"nin": g["nin"], "order": o} for g, o in zip(spec["graphs"], res[0])])


def _form(rng, n: int, single_ok: bool = True) -> str:
    if n == 1 and single_ok and rng.random() < 0.6:
        return "node"
    return rng.choice(["list", "list", "tuple", "iter"])


def _ins_kind(rng, after: bool) -> str:
    if after:
        return "Node.append" if rng.random() < 0.35 else "Graph.insert_after"
    return "Node.prepend" if rng.random() < 0.35 else "Graph.insert_before"


def _chunks(rng, items: list[int]) -> list[list[int]]:
    out, k = [], 0
    while k < len(items):
        step = rng.choice([1, 1, 2, 3, 5, len(items)])
        out.append(items[k:k + step])
        k += step
    return out


def _random_move(rng, gid: int, cur: list[int], out: set[int]) -> list | None:
    pool = cur + sorted(out)
    if not pool:
        return None
    kind = rng.choice(MOVE_KINDS)
    if kind == "Graph.remove":
        if not cur:
            return None
        moved = rng.sample(cur, min(len(cur), rng.choice([1, 1, 2, 3])))
        return [kind, gid, None, moved, _form(rng, len(moved))]
    r = rng.random()
    if r < 0.25 and cur:
        moved = [cur[-1]]
    elif r < 0.4 and cur:
        moved = [cur[0]]
    else:
        moved = rng.sample(pool, min(len(pool), rng.choice([1, 1, 1, 2, 3])))
    if kind == "Graph.append":
        return [kind, gid, None, moved[:1], "node"]
    if kind == "Graph.extend":
        return [kind, gid, None, moved, _form(rng, len(moved), False)]
    if not cur:
        return None
    anchor = rng.choice(cur)
    return [kind, gid, anchor, moved, _form(rng, len(moved))]


def _noop_move(rng, gid: int, T: list[int]) -> list | None:
    """A candidate move that should leave the order ``T`` as it is (verified by the caller)."""
    n = len(T)
    r = rng.random()
    x = rng.random()
    if n >= 2:
        i = (n - 2) if x < 0.45 else (0 if x < 0.65 else rng.randrange(n - 1))
    else:
        i = 0
    if r < 0.30 and n >= 2:  # the node that already follows the anchor
        return [_ins_kind(rng, True), gid, T[i], [T[i + 1]], _form(rng, 1)]
    if r < 0.50 and n >= 2:  # the node that already precedes the anchor
        return [_ins_kind(rng, False), gid, T[i + 1], [T[i]], _form(rng, 1)]
    if r < 0.58 and n >= 2:  # the run that already follows / precedes the anchor
        k = rng.choice([2, 3, n])
        if rng.random() < 0.5:
            a = rng.choice([max(0, n - 1 - k), rng.randrange(n - 1)])
            return [_ins_kind(rng, True), gid, T[a], T[a + 1:a + 1 + k], _form(rng, 2)]
        a = rng.choice([min(n - 1, k), rng.randrange(1, n)])
        return [_ins_kind(rng, False), gid, T[a], T[max(0, a - k):a], _form(rng, 2)]
    if r < 0.68:  # a node after / before itself
        a = rng.choice([T[-1], T[0], rng.choice(T)])
        return [_ins_kind(rng, rng.random() < 0.5), gid, a, [a], _form(rng, 1)]
    if r < 0.76 and n >= 2:  # anchor followed by its successor / predecessor followed by the anchor
        if rng.random() < 0.5:
            return [_ins_kind(rng, True), gid, T[i], [T[i], T[i + 1]], _form(rng, 2)]
        return [_ins_kind(rng, False), gid, T[i + 1], [T[i], T[i + 1]], _form(rng, 2)]
    if r < 0.86:
        return ["Graph.append", gid, None, [T[-1]], "node"]
    k = rng.choice([1, 2, 3, n])
    return ["Graph.extend", gid, None, T[-k:], _form(rng, 2)]


def _graph_history(rng, gid: int, T: list[int]) -> tuple[list[int], list[list]]:
    n = len(T)
    big = n > 10
    # 1. where the graph starts
    how = rng.choice(["same", "same", "shuffled", "shuffled", "reversed", "displaced", "displaced", "rotated"])
    S = list(T)
    if how == "shuffled":
        rng.shuffle(S)
    elif how == "reversed":
        S.reverse()
    elif how == "rotated":
        k = rng.randrange(n)
        S = S[k:] + S[:k]
    elif how == "displaced":
        for _ in range(rng.choice([1, 1, 2, 3])):
            v = S.pop(rng.randrange(len(S)))
            S.insert(rng.choice([0, len(S), rng.randrange(len(S) + 1)]), v)
    cur, out, moves = list(S), set(), []

    def emit(move: list | None) -> bool:
        if move is None:
            return False
        c, o = list(cur), set(out)
        if model_move(c, o, move) is None:
            return False
        cur[:] = c
        out.clear()
        out.update(o)
        moves.append(move)
        return True

    # 2. arbitrary moves
    for _ in range(rng.choice([0, 0, 1, 1, 2, 3])):
        emit(_random_move(rng, gid, cur, out))
    # 3. moves that establish T
    strategy = rng.choice(["forward", "forward", "backward", "backward", "extend", "after", "before", "none"]
                          if not big else
                          ["forward", "backward", "extend", "extend", "after", "before", "none"])
    p_again = rng.choice([0.0, 0.15, 0.15, 1.0]) if not big else rng.choice([0.0, 0.05])
    if strategy == "backward":
        for i in reversed(range(n)):
            placed = len(cur) >= n - i and cur[-(n - i)] == T[i]
            if placed and rng.random() >= p_again:
                continue
            if i == n - 1:
                others = [v for v in cur if v != T[i]]
                r = rng.random()
                if r < 0.4 or not others:
                    emit(["Graph.append", gid, None, [T[i]], "node"])
                elif r < 0.6:
                    emit(["Graph.extend", gid, None, [T[i]], _form(rng, 1, False)])
                else:
                    emit([_ins_kind(rng, True), gid, others[-1], [T[i]], _form(rng, 1)])
            else:
                emit([_ins_kind(rng, False), gid, T[i + 1], [T[i]], _form(rng, 1)])
    elif strategy == "extend":
        for chunk in _chunks(rng, T):
            if len(chunk) == 1 and rng.random() < 0.5:
                emit(["Graph.append", gid, None, chunk, "node"])
            else:
                emit(["Graph.extend", gid, None, chunk, _form(rng, len(chunk), False)])
    elif strategy == "after":
        if not cur:
            emit(["Graph.append", gid, None, [T[0]], "node"])
        elif cur[0] != T[0] or rng.random() < p_again:
            emit([_ins_kind(rng, False), gid, cur[0], [T[0]], _form(rng, 1)])
        last = T[0]
        for chunk in _chunks(rng, T[1:]):
            emit([_ins_kind(rng, True), gid, last, chunk, _form(rng, len(chunk))])
            last = chunk[-1]
    elif strategy == "before":
        emit(["Graph.append", gid, None, [T[-1]], "node"])
        for chunk in _chunks(rng, T[:-1]):
            emit([_ins_kind(rng, False), gid, T[-1], chunk, _form(rng, len(chunk))])
    # the forward pass also completes whatever the strategy above left undone (strategy "none",
    # nodes still taken out)
    for i in range(n):
        at = cur[i] if i < len(cur) else None
        if at == T[i] and not (strategy == "forward" and rng.random() < p_again):
            continue
        if i == 0:
            if not cur:
                emit(["Graph.append", gid, None, [T[0]], "node"])
            else:
                emit([_ins_kind(rng, False), gid, cur[0], [T[0]], _form(rng, 1)])
        elif at is not None and at != T[i] and rng.random() < 0.4:
            emit([_ins_kind(rng, False), gid, at, [T[i]], _form(rng, 1)])
        else:
            emit([_ins_kind(rng, True), gid, T[i - 1], [T[i]], _form(rng, 1)])
    assert cur == T and not out, "C12 harness: history does not reach the order"
    # 4. moves to where the node already is
    for _ in range(rng.choice([0, 1, 1, 1, 2, 3])):
        mv = _noop_move(rng, gid, T)
        if mv is not None:
            c, o = list(cur), set(out)
            f = model_move(c, o, mv)
            if f is not None and "no-op" in f:
                moves.append(mv)
    return S, moves


def add_history(rng, spec: Spec) -> Spec:
    """The same unit with its initial orders reached through move operations (root graph always,
    nested graphs mostly)."""
    start, moves = [], []
    per_graph = []
    for gid, gr in enumerate(spec["graphs"]):
        T = list(gr["order"])
        if not T or (gid and rng.random() < 0.3):
            start.append(T)
            continue
        S, mv = _graph_history(rng, gid, T)
        start.append(S)
        per_graph.append(mv)
    # interleave the per-graph sequences (keeping each graph's own sequence in order)
    while per_graph:
        k = rng.randrange(len(per_graph))
        take = rng.choice([1, 2, len(per_graph[k])])
        moves.extend(per_graph[k][:take])
        del per_graph[k][:take]
        if not per_graph[k]:
            del per_graph[k]
    out = dict(spec, history={"start": start, "moves": moves})
    res = run_history(out)
    assert res is not None and res[0] == [g["order"] for g in spec["graphs"]], "C12 harness: history generator"
    return out


def describe_history(spec: Spec) -> str:
    if "history" not in spec:
        return ""
    h = spec["history"]
    res = run_history(spec)
    lines = ["initial order reached by: graphs constructed as " +
             "; ".join(f"g{gid}={['n%d' % x for x in o]}" for gid, o in enumerate(h["start"]) if o) + ", then"]
    for k, (kind, gid, anchor, moved, form) in enumerate(h["moves"]):
        arg = f"n{moved[0]}" if form == "node" else f"{form}({', '.join('n%d' % x for x in moved)})"
        if kind.startswith("Node."):
            call = f"n{anchor}.{kind[5:]}({arg})"
        elif anchor is not None:
            call = f"g{gid}.{kind[6:]}(n{anchor}, {arg})"
        else:
            call = f"g{gid}.{kind[6:]}({arg})"
        fl = sorted(res[1][k]) if res is not None else []
        lines.append(f"  {call}" + (f"   # {', '.join(fl)}" if fl else ""))
    return "\n".join(lines)


# ---------------------------------------------------------------------------------------------
# names: nodes / values whose name is cleared (None) or emptied ("") after they were put in a graph
# ---------------------------------------------------------------------------------------------
# ``"names": [[what, name], ...]`` with what ::= ["n", node] | ["v", node, output] | ["i", graph, input];
# applied in order, through the public ``name`` setters, after the graphs are complete (a node put
# in a graph is given a name; the setters accept None and "" afterwards).  Names are part of
# what is built identically for a twin.
def describe_what(what: list) -> str:
    if what[0] == "n":
        return f"n{what[1]}"
    if what[0] == "v":
        return f"n{what[1]}.outputs[{what[2]}]"
    return f"g{what[1]}.inputs[{what[2]}]"


def gen_names(rng, spec: Spec) -> list:
    nodes = spec["nodes"]
    if not nodes:
        return []
    out = []
    mode = rng.choice(["all", "one", "one", "some", "some", "some"])
    blank = rng.choice([None, None, None, "", "mixed"])

    def nm():
        return rng.choice([None, None, ""]) if blank == "mixed" else blank

    picked = list(range(len(nodes))) if mode == "all" else \
        [rng.randrange(len(nodes))] if mode == "one" else \
        [j for j in range(len(nodes)) if rng.random() < 0.35] or [rng.randrange(len(nodes))]
    for j in picked:
        out.append([["n", j], nm()])
    if rng.random() < 0.5:
        for j, n in enumerate(nodes):
            for o in range(n["nout"]):
                if rng.random() < (0.6 if j in picked else 0.15):
                    out.append([["v", j, o], nm()])
        for gid, gr in enumerate(spec["graphs"]):
            for k in range(gr["nin"]):
                if rng.random() < 0.2:
                    out.append([["i", gid, k], nm()])
    rng.shuffle(out)
    return out


def unnamed_nodes(spec: Spec) -> set[int]:
    """Nodes whose name is None or "" when the sort runs."""
    cur: dict[int, Any] = {}
    for what, name in spec.get("names", []):
        if what[0] == "n":
            cur[what[1]] = name
    return {j for j, name in cur.items() if not name}


# ---------------------------------------------------------------------------------------------
# stages: edits made to a structure AFTER it was sorted, followed by another sort
# ---------------------------------------------------------------------------------------------
# A case may carry ``"stages": [[edit, ...], ...]``.  After the first sort the edits of stage 0 are
# applied to the live objects through the public API and the same entry point is called again, then
# stage 1, ...  Each sort is an evaluation of its own: what it is given is (the structure after the
# edits, the order every graph has at that moment), and that is all the result may depend on.
# An edit is a dict with "u" (unit) and "op":
#
#   rewire    node, slot, ref, grow   Node.replace_input_with(slot, value|None)  (grow: after resize_inputs(+1))
#   rauw      value, by               Value.replace_all_uses_with(value)
#   add_attr  node, name, kind, graphs=[{"nin", "nodes": [{"nout", "inputs"}]}]   node.attributes[name] = AttrGraph/AttrGraphs
#   add_node  g, where=["append"]|["before", n]|["after", n], nout, inputs       a new node put into graph g
#   move      move=[kind, graph, anchor, [nodes], form]                          as in histories (no remove)
#   rename    what, name              the public name setters
#
# New nodes / graphs take the next free ids in the order they are listed.  Edits keep the structure
# lexically well scoped.  None of rewire / rauw / add_attr / rename goes through the node list of
# any existing graph.
EDIT_API = {
    "rewire": "Node.replace_input_with", "rauw": "Value.replace_all_uses_with",
    "add_attr": "Node.attributes[name]=graph(s)", "add_node": "new-node", "move": "move", "rename": "name=None/empty",
}


def nodes_of(spec: Spec, gid: int) -> list[int]:
    return [j for j, n in enumerate(spec["nodes"]) if n["g"] == gid]


def graph_chain(spec: Spec, own: dict[int, int], gid: int) -> list[int]:
    out = [gid]
    while out[-1] in own:
        out.append(spec["nodes"][own[out[-1]]]["g"])
    return out


def apply_edit(spec: Spec, e: dict) -> Spec:
    """The structure after the edit (orders: new nodes are placed where the edit says according to
    the list model; the caller overrides the orders with the observed ones anyway)."""
    graphs = [{"nin": g["nin"], "order": list(g["order"])} for g in spec["graphs"]]
    nodes = [dict(n, inputs=list(n["inputs"]), attrs=[[a[0], a[1], list(a[2])] for a in n["attrs"]]) for n in spec["nodes"]]
    detached = [dict(d, inputs=list(d["inputs"])) for d in spec.get("detached", [])]
    names = [list(x) for x in spec.get("names", [])]
    op = e["op"]
    if op == "rewire":
        ins = nodes[e["node"]]["inputs"]
        if e.get("grow"):
            assert e["slot"] == len(ins)
            ins.append(None)
        ins[e["slot"]] = e["ref"]
    elif op == "rauw":
        for n in nodes + detached:
            n["inputs"] = [e["by"] if r == e["value"] else r for r in n["inputs"]]
    elif op == "add_attr":
        gids = []
        for gs in e["graphs"]:
            gid = len(graphs)
            gids.append(gid)
            graphs.append({"nin": gs["nin"], "order": []})
            for ns in gs["nodes"]:
                graphs[gid]["order"].append(len(nodes))
                nodes.append({"g": gid, "nout": ns["nout"], "inputs": list(ns["inputs"]), "attrs": []})
        nodes[e["node"]]["attrs"].append([e["name"], e["kind"], gids])
    elif op == "add_node":
        o = graphs[e["g"]]["order"]
        w = e["where"]
        k = len(o) if w[0] == "append" or w[1] not in o else o.index(w[1]) + (1 if w[0] == "after" else 0)
        o.insert(k, len(nodes))
        nodes.append({"g": e["g"], "nout": e["nout"], "inputs": list(e["inputs"]), "attrs": []})
    elif op == "move":
        model_move(graphs[e["move"][1]]["order"], set(), e["move"])
    elif op == "rename":
        names = [x for x in names if x[0] != e["what"]] + [[e["what"], e["name"]]]
    else:
        raise AssertionError(op)
    out = {"graphs": graphs, "nodes": nodes, "detached": detached}
    if names:
        out["names"] = names
    return out


def _pick_ref(rng, spec: Spec, chain_g: list[int], p_own: float = 0.6, exclude: int | None = None):
    """A value visible from the innermost graph of ``chain_g``: an output of a node of one of the
    graphs of the chain, or one of their inputs; None if there is none."""
    g = chain_g[0] if (len(chain_g) == 1 or rng.random() < p_own) else rng.choice(chain_g[1:])
    if rng.random() < 0.12:
        with_inputs = [x for x in chain_g if spec["graphs"][x]["nin"]]
        if with_inputs:
            x = rng.choice(with_inputs)
            return ["i", x, rng.randrange(spec["graphs"][x]["nin"])]
    cands = [i for i in nodes_of(spec, g) if spec["nodes"][i]["nout"] and i != exclude]
    if not cands:
        cands = [i for x in chain_g for i in nodes_of(spec, x) if spec["nodes"][i]["nout"] and i != exclude]
    if not cands:
        return None
    i = rng.choice(cands)
    return ["n", i, rng.randrange(spec["nodes"][i]["nout"])]


def _gen_edit(rng, spec: Spec, u: int, avoid_graph: int | None) -> dict | None:
    """One edit of the structure ``spec``.  ``avoid_graph``: the graph whose sort() is called; its
    own node list is mostly left alone (moves / new nodes go to the other graphs)."""
    nodes, graphs = spec["nodes"], spec["graphs"]
    if not nodes:
        return None
    own = owners(spec)
    op = rng.choice(["rewire"] * 9 + ["rauw"] * 3 + ["add_attr"] * 2 + ["add_node"] * 2 + ["move"] * 3 + ["rename"] * 2)
    if op == "rewire":
        r = rng.random()
        j = ref = None
        if r < 0.15:
            # close a cycle: a producer starts to use an output of one of its (transitive) dependants
            pairs = [pr for c in spec_constraints(spec) for pr in sorted(c) if nodes[pr[1]]["nout"] and pr[0] != pr[1]]
            if pairs:
                p, n, _k = rng.choice(pairs)
                j, ref = p, ["n", n, rng.randrange(nodes[n]["nout"])]
        if j is None:
            j = rng.randrange(len(nodes))
            if r > 0.88 and nodes[j]["inputs"]:
                ref = None
            else:
                ref = _pick_ref(rng, spec, graph_chain(spec, own, nodes[j]["g"]), exclude=j if rng.random() < 0.85 else None)
        ins = nodes[j]["inputs"]
        if not ins or rng.random() < 0.3:
            return {"u": u, "op": op, "node": j, "slot": len(ins), "ref": ref, "grow": True}
        return {"u": u, "op": op, "node": j, "slot": rng.randrange(len(ins)), "ref": ref}
    if op == "rauw":
        used = sorted({tuple(r) for n in nodes for r in n["inputs"] if r is not None and r[0] in "ni"})
        if not used:
            return None
        value = list(rng.choice(used))
        home = nodes[value[1]]["g"] if value[0] == "n" else value[1]
        by = _pick_ref(rng, spec, graph_chain(spec, own, home), p_own=0.75)
        if by is None:
            return None
        return {"u": u, "op": op, "value": value, "by": by}
    if op == "add_attr":
        depth = graph_depths(spec)
        cands = [j for j, n in enumerate(nodes) if depth[n["g"]] < 4]
        if not cands:
            return None
        j = rng.choice(cands)
        free = [nm for nm in ("body", "then_branch", "else_branch", "branches", "extra") if nm not in attr_names(nodes[j])]
        if not free:
            return None
        kind = rng.choice(["G", "G", "GS"])
        chain_g = graph_chain(spec, own, nodes[j]["g"])
        new_graphs = []
        nid, gid = len(nodes), len(graphs)
        for _ in range(1 if kind == "G" else rng.choice([1, 2])):
            cnt = rng.choice([1, 1, 2, 3])
            nouts = [rng.choice([1, 1, 2, 0]) for _ in range(cnt)]
            gs = {"nin": rng.choice([0, 0, 1]), "nodes": []}
            for k in range(cnt):
                ins = []
                for _i in range(rng.choice([0, 1, 1, 2])):
                    x = rng.random()
                    inner = [q for q in range(cnt) if nouts[q] and q != k]
                    if x < 0.35 and inner:
                        q = rng.choice(inner)
                        ins.append(["n", nid + q, rng.randrange(nouts[q])])
                    elif x < 0.42 and gs["nin"]:
                        ins.append(["i", gid, 0])
                    elif x < 0.5:
                        ins.append(None)
                    else:
                        ins.append(_pick_ref(rng, spec, chain_g, p_own=0.5, exclude=j if rng.random() < 0.9 else None))
                gs["nodes"].append({"nout": nouts[k], "inputs": ins})
            nid += cnt
            gid += 1
            new_graphs.append(gs)
        return {"u": u, "op": op, "node": j, "name": rng.choice(free), "kind": kind, "graphs": new_graphs}
    # the edits below go through the node list of one graph
    pool = [g for g in range(len(graphs)) if g != avoid_graph and (op == "add_node" or len(graphs[g]["order"]) >= 2)]
    if (not pool or rng.random() < 0.2) and avoid_graph is not None and (op == "add_node" or len(graphs[avoid_graph]["order"]) >= 2):
        pool = [avoid_graph]
    if op == "add_node":
        if not pool:
            return None
        g = rng.choice(pool)
        members = graphs[g]["order"]
        chain_g = graph_chain(spec, own, g)
        where = ["append"] if not members or rng.random() < 0.3 else [rng.choice(["before", "after"]), rng.choice(members)]
        ins = [None if rng.random() < 0.15 else _pick_ref(rng, spec, chain_g) for _ in range(rng.choice([0, 1, 1, 2]))]
        return {"u": u, "op": op, "g": g, "where": where, "nout": rng.choice([1, 1, 2, 0]), "inputs": ins}
    if op == "move":
        if not pool:
            return None
        g = rng.choice(pool)
        members = graphs[g]["order"]
        kind = rng.choice(MOVE_KINDS[:-1])
        moved = rng.sample(members, min(len(members), rng.choice([1, 1, 1, 2, 3])))
        if kind == "Graph.append":
            return {"u": u, "op": op, "move": [kind, g, None, moved[:1], "node"]}
        if kind == "Graph.extend":
            return {"u": u, "op": op, "move": [kind, g, None, moved, _form(rng, len(moved), False)]}
        return {"u": u, "op": op, "move": [kind, g, rng.choice(members), moved, _form(rng, len(moved))]}
    if op == "rename":
        x = rng.random()
        j = rng.randrange(len(nodes))
        if x < 0.7 or not nodes[j]["nout"]:
            what = ["n", j]
        else:
            what = ["v", j, rng.randrange(nodes[j]["nout"])]
        return {"u": u, "op": op, "what": what, "name": rng.choice([None, None, ""])}
    raise AssertionError(op)


def gen_stages(rng, units: list[Spec], sub: int | None) -> list[list[dict]]:
    cur = [strip_history(un) for un in units]
    stages = []
    for _ in range(rng.choice([1, 1, 2, 2, 3])):
        stage = []
        for _e in range(rng.choice([1, 1, 1, 2, 2, 3])):
            u = 0 if (len(cur) == 1 or rng.random() < 0.6) else rng.randrange(1, len(cur))
            e = _gen_edit(rng, cur[u], u, (sub or 0) if u == 0 else 0)
            if e is None:
                continue
            cur[u] = apply_edit(cur[u], e)
            stage.append(e)
        if stage:
            stages.append(stage)
    return stages


def describe_edit(e: dict) -> str:
    def ref(r):
        if r is None:
            return "None"
        return f"n{r[1]}.outputs[{r[2]}]" if r[0] == "n" else f"g{r[1]}.inputs[{r[2]}]" if r[0] == "i" else f"d{r[1]}.outputs[{r[2]}]"

    op, pre = e["op"], f"u{e['u']}: "
    if op == "rewire":
        grow = f"n{e['node']}.resize_inputs({e['slot'] + 1}); " if e.get("grow") else ""
        return f"{pre}{grow}n{e['node']}.replace_input_with({e['slot']}, {ref(e['ref'])})"
    if op == "rauw":
        return f"{pre}{ref(e['value'])}.replace_all_uses_with({ref(e['by'])})"
    if op == "add_attr":
        body = "; ".join("[" + ", ".join(f"new({', '.join(ref(r) for r in ns['inputs'])})" for ns in gs["nodes"]) + "]" for gs in e["graphs"])
        return f"{pre}n{e['node']}.attributes[{e['name']!r}] = {'AttrGraph' if e['kind'] == 'G' else 'AttrGraphs'} of new graph(s) {body} (new ids follow the existing ones)"
    if op == "add_node":
        w = e["where"]
        how = "append(new)" if w[0] == "append" else f"insert_{w[0]}(n{w[1]}, new)"
        return f"{pre}g{e['g']}.{how} with new = Node({', '.join(ref(r) for r in e['inputs'])})"
    if op == "move":
        kind, gid, anchor, moved, form = e["move"]
        arg = f"n{moved[0]}" if form == "node" else f"{form}({', '.join('n%d' % x for x in moved)})"
        if kind.startswith("Node."):
            return f"{pre}n{anchor}.{kind[5:]}({arg})"
        return f"{pre}g{gid}.{kind[6:]}({'n%d, ' % anchor if anchor is not None else ''}{arg})"
    if op == "rename":
        return f"{pre}{describe_what(e['what'])}.name = {e['name']!r}"
    raise AssertionError(op)


def edit_tag(e: dict, sorted_graph: int) -> str:
    """Mechanism-level name of an edit for signatures."""
    op = e["op"]
    if op == "move":
        return e["move"][0] + ("(sorted graph)" if e["move"][1] == sorted_graph and e["u"] == 0 else "(other graph)")
    if op == "add_node":
        return "new-node" + ("(sorted graph)" if e["g"] == sorted_graph and e["u"] == 0 else "(other graph)")
    return EDIT_API[op]


def remap_edit(e: dict, N, Gm) -> dict | None:
    """The edit with node / graph ids translated by ``N`` / ``Gm`` (-1 = gone).  None if its
    subject is gone; references to vanished values become None."""
    def R(r):
        if r is None:
            return None
        if r[0] == "n":
            x = N(r[1])
            return None if x == -1 else ["n", x, r[2]]
        if r[0] == "i":
            x = Gm(r[1])
            return None if x == -1 else ["i", x, r[2]]
        return None  # (references to detached nodes do not occur in edits)

    op = e["op"]
    if op == "rewire":
        if N(e["node"]) == -1:
            return None
        return dict(e, node=N(e["node"]), ref=R(e["ref"]))
    if op == "rauw":
        v, by = R(e["value"]), R(e["by"])
        return None if v is None or by is None else dict(e, value=v, by=by)
    if op == "add_attr":
        if N(e["node"]) == -1:
            return None
        return dict(e, node=N(e["node"]),
                    graphs=[dict(gs, nodes=[dict(ns, inputs=[R(r) for r in ns["inputs"]]) for ns in gs["nodes"]]) for gs in e["graphs"]])
    if op == "add_node":
        if Gm(e["g"]) == -1:
            return None
        w = e["where"]
        if w[0] != "append":
            w = ["append"] if N(w[1]) == -1 else [w[0], N(w[1])]
        return dict(e, g=Gm(e["g"]), where=w, inputs=[R(r) for r in e["inputs"]])
    if op == "move":
        kind, gid, anchor, moved, form = e["move"]
        moved = [N(x) for x in moved if N(x) != -1]
        if Gm(gid) == -1 or not moved or (anchor is not None and N(anchor) == -1):
            return None
        if form == "node" and len(moved) != 1:
            form = "list"
        return dict(e, move=[kind, Gm(gid), None if anchor is None else N(anchor), moved, form])
    if op == "rename":
        w = e["what"]
        x = Gm(w[1]) if w[0] == "i" else N(w[1])
        return None if x == -1 else dict(e, what=[w[0], x, *w[2:]])
    raise AssertionError(op)


def well_formed(spec: Spec) -> bool:
    """Every reference exists and is lexically visible; every nested graph has one owner."""
    nodes, graphs = spec["nodes"], spec["graphs"]
    try:
        own = owners(spec)
    except AssertionError:
        return False
    if sorted(x for g in graphs for x in g["order"]) != list(range(len(nodes))):
        return False
    if any(nodes[x]["g"] != gid for gid, g in enumerate(graphs) for x in g["order"]):
        return False
    if set(own) != set(range(1, len(graphs))):
        return False
    for n in nodes:
        chain_g = graph_chain(spec, own, n["g"])
        for r in n["inputs"]:
            if r is None or r[0] == "d":
                continue
            if r[0] == "n":
                if not (0 <= r[1] < len(nodes) and 0 <= r[2] < nodes[r[1]]["nout"] and nodes[r[1]]["g"] in chain_g):
                    return False
            elif not (r[1] in chain_g and 0 <= r[2] < graphs[r[1]]["nin"]):
                return False
    return True


def created_by(spec: Spec, e: dict) -> tuple[int, int]:
    """(number of nodes, number of graphs) the edit creates."""
    if e["op"] == "add_node":
        return 1, 0
    if e["op"] == "add_attr":
        return sum(len(gs["nodes"]) for gs in e["graphs"]), len(e["graphs"])
    return 0, 0


def edit_applicable(spec: Spec, e: dict) -> bool:
    nodes, graphs = spec["nodes"], spec["graphs"]
    op = e["op"]
    try:
        if op == "rewire":
            k = len(nodes[e["node"]]["inputs"])
            return e["slot"] == k if e.get("grow") else 0 <= e["slot"] < k
        if op == "rauw":
            return e["by"] is not None and e["value"] is not None
        if op == "add_attr":
            return e["name"] not in attr_names(nodes[e["node"]]) and bool(e["graphs"])
        if op == "add_node":
            return 0 <= e["g"] < len(graphs) and (e["where"][0] == "append" or e["where"][1] in graphs[e["g"]]["order"])
        if op == "move":
            kind, gid, anchor, moved, _form = e["move"]
            members = graphs[gid]["order"]
            return bool(moved) and all(x in members for x in moved) and (anchor is None or anchor in members) \
                and (kind != "Graph.append" or len(moved) == 1)
        if op == "rename":
            w = e["what"]
            if w[0] == "i":
                return 0 <= w[2] < graphs[w[1]]["nin"]
            return 0 <= w[1] < len(nodes) and (w[0] == "n" or 0 <= w[2] < nodes[w[1]]["nout"])
    except (IndexError, KeyError, TypeError):
        return False
    return False


def stages_valid(units: list[Spec], stages: list[list[dict]]) -> bool:
    cur = [strip_history(un) for un in units]
    for stage in stages:
        if not stage:
            return False
        for e in stage:
            if not (0 <= e["u"] < len(cur)) or not edit_applicable(cur[e["u"]], e):
                return False
            try:
                cur[e["u"]] = apply_edit(cur[e["u"]], e)
            except (IndexError, KeyError, AssertionError, ValueError):
                return False
            if not well_formed(cur[e["u"]]):
                return False
    return True


def drop_edit(units: list[Spec], stages: list[list[dict]], s: int, k: int) -> list[list[dict]] | None:
    """The stages without edit k of stage s; ids created by it disappear from the later edits."""
    cur = [strip_history(un) for un in units]
    target = stages[s][k]
    for si, stage in enumerate(stages):
        for ki, e in enumerate(stage):
            if (si, ki) == (s, k):
                break
            cur[e["u"]] = apply_edit(cur[e["u"]], e)
        else:
            continue
        break
    a, c = len(cur[target["u"]]["nodes"]), len(cur[target["u"]]["graphs"])
    dn, dg = created_by(cur[target["u"]], target)

    def N(x):
        return x if x < a else -1 if x < a + dn else x - dn

    def Gm(x):
        return x if x < c else -1 if x < c + dg else x - dg

    out, after = [], False
    for si, stage in enumerate(stages):
        new = []
        for ki, e in enumerate(stage):
            if (si, ki) == (s, k):
                after = True
                continue
            if after and e["u"] == target["u"] and (dn or dg):
                e = remap_edit(e, N, Gm)
                if e is None:
                    continue
            new.append(e)
        if new:
            out.append(new)
    return out if stages_valid(units, out) else None


def remap_stages(units_new: list[Spec], stages: list[list[dict]], u: int, maps: dict, n_base: int, g_base: int):
    """The stages after base nodes / graphs of unit ``u`` were removed (``maps`` from remove_nodes)."""
    nmap, gmap = maps["n"], maps["g"]
    n_shift, g_shift = n_base - len(nmap), g_base - len(gmap)

    def N(x):
        return x - n_shift if x >= n_base else nmap.get(x, -1)

    def Gm(x):
        return x - g_shift if x >= g_base else gmap.get(x, -1)

    out = []
    for stage in stages:
        new = []
        for e in stage:
            if e["u"] == u:
                e = remap_edit(e, N, Gm)
                if e is None:
                    return None  # (an edit lost its subject: creations would shift; not attempted)
            new.append(e)
        out.append(new)
    return out if stages_valid(units_new, out) else None
