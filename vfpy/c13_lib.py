"""C13 machinery that is independent of the cloner: region analysis, original<->clone pairing by
position, identity / reference / structure oracles, region-bounded edit worlds and the extended
edit alphabet (every setter the property statement names).

Nothing here calls ``onnx_ir._cloner`` or ``.clone()``; the oracles only walk public accessors.
"""

from __future__ import annotations

import numpy as np
import onnx_ir as ir

from vfpy import snapshot
from vfpy.gen_ops import DEFAULT_WEIGHTS, Gen
from vfpy.world import OPS, Result, Skip, World

AT = ir.AttributeType


# =============================================================================================
# 1. Region analysis (what a clone of ``target`` has to copy, and what it captures)
# =============================================================================================
class Analysis:
    def __init__(self) -> None:
        self.graphs: list = []
        self.nodes: list = []
        self.values: list = []          # values defined in the region, in definition order
        self.def_index: dict[int, int] = {}
        self.refs: list = []            # (role, value, number of definitions seen at that time)
        self.problems: list[str] = []
        self._graph_ids: set[int] = set()
        self._node_ids: set[int] = set()
        self.functions: list = []
        self.models: list = []
        self._def_role: dict[int, tuple] = {}
        self.top_values: list = []      # values defined at the top level of the first graph walked

    # ---- derived ----------------------------------------------------------------------------
    def outer_refs(self) -> list:
        return [(role, v) for role, v, _ in self.refs if id(v) not in self.def_index]

    def forward_refs(self) -> list:
        return [(role, v) for role, v, n in self.refs if id(v) in self.def_index and self.def_index[id(v)] >= n]

    def outer_values(self) -> list:
        seen, out = set(), []
        for _, v in self.outer_refs():
            if id(v) not in seen:
                seen.add(id(v))
                out.append(v)
        return out

    def region_ids(self) -> set[int]:
        ids = {id(o) for o in self.graphs} | {id(o) for o in self.nodes} | {id(o) for o in self.values}
        ids |= {id(o) for o in self.functions} | {id(o) for o in self.models}
        return ids

    def has_devcfg(self) -> bool:
        return any(n.device_configurations for n in self.nodes)

    def has_none_names(self) -> bool:
        return any(v.name is None for v in self.values) or any(n.name is None for n in self.nodes)

    # ---- traversal (mirrors what any cloner has to do: inputs, initializers, nodes, outputs) ----
    def _define(self, v, role, owner=None) -> None:
        if id(v) in self.def_index:
            first_role, first_owner = self._def_role[id(v)]
            same_graph_input_and_initializer = (
                owner is first_owner and {role, first_role} <= {"graph.input", "graph.initializer"})
            if not same_graph_input_and_initializer:
                self.problems.append("value-defined-twice")
            return
        self._def_role[id(v)] = (role, owner)
        self.def_index[id(v)] = len(self.values)
        self.values.append(v)
        if owner is not None and len(self.graphs) == 1:
            self.top_values.append(v)

    def walk_graph(self, g, stack: tuple = ()) -> None:
        if id(g) in stack:
            self.problems.append("cyclic-nesting")
            return
        if id(g) in self._graph_ids:
            self.problems.append("graph-reached-twice")
            return
        self._graph_ids.add(id(g))
        self.graphs.append(g)
        for v in g.inputs:
            self._define(v, "graph.input", g)
        for key, v in g.initializers.items():
            if key != v.name:
                self.problems.append("initializer-key-differs-from-name")
            self._define(v, "graph.initializer", g)
        for n in g:
            self.walk_node(n, stack + (id(g),))
        for v in g.outputs:
            self.refs.append(("graph.output", v, len(self.values)))

    def walk_node(self, n, stack) -> None:
        if id(n) in self._node_ids:
            self.problems.append("node-reached-twice")
            return
        self._node_ids.add(id(n))
        self.nodes.append(n)
        for v in n.inputs:
            if v is not None:
                self.refs.append(("node.input", v, len(self.values)))
        for a in n.attributes.values():
            for sg in attr_graphs(a):
                self.walk_graph(sg, stack)
        for v in n.outputs:
            self._define(v, "node.output", n.graph if len(stack) <= 1 else None)


def attr_graphs(a) -> list:
    if not isinstance(a, ir.Attr) or a.is_ref():
        return []
    if a.type == AT.GRAPH and a.value is not None:
        return [a.value]
    if a.type == AT.GRAPHS and a.value is not None:
        return list(a.value)
    return []


def analyze_graph(g) -> Analysis:
    a = Analysis()
    a.walk_graph(g)
    return a


def analyze_function(f) -> Analysis:
    a = Analysis()
    a.functions.append(f)
    a.walk_graph(f.graph)
    return a


def analyze_model(m) -> tuple[Analysis, list[Analysis]]:
    """The merged region of a model (object lists only) plus one analysis per separately cloned
    part: the main graph and each function are cloned with a value scope of their own, so the
    capture / forward-reference questions are asked per part."""
    parts = [analyze_graph(m.graph)] + [analyze_function(f) for f in m.functions.values()]
    merged = Analysis()
    merged.models.append(m)
    for p in parts:
        for g in p.graphs:
            if id(g) in merged._graph_ids:  # noqa: SLF001
                merged.problems.append("graph-reached-twice")
            merged._graph_ids.add(id(g))  # noqa: SLF001
        merged.graphs += p.graphs
        merged.nodes += p.nodes
        merged.functions += p.functions
        for v in p.values:
            if id(v) in merged.def_index:
                merged.problems.append("value-defined-twice")
            else:
                merged.def_index[id(v)] = len(merged.values)
                merged.values.append(v)
        merged.problems += p.problems
    return merged, parts


def part_outer_values(parts) -> list:
    out, seen = [], set()
    for p in parts:
        for v in p.outer_values():
            if id(v) not in seen:
                seen.add(id(v))
                out.append(v)
    return out


# =============================================================================================
# 2. Pairing original and clone by position
# =============================================================================================
class Mismatch(Exception):
    pass


class Pairs:
    def __init__(self) -> None:
        self.graphs: list = []
        self.nodes: list = []
        self.values: list = []   # (orig, clone, role)
        self.vmap: dict[int, object] = {}
        self.rmap: dict[int, object] = {}
        self.functions: list = []
        self.models: list = []

    def pair_value(self, vo, vc, role) -> None:
        if id(vo) in self.vmap:
            if self.vmap[id(vo)] is not vc:
                raise Mismatch(f"{role}: one original value corresponds to two different values of the clone")
            return
        if id(vc) in self.rmap and self.rmap[id(vc)] is not vo:
            raise Mismatch(f"{role}: two original values correspond to one value of the clone")
        self.vmap[id(vo)] = vc
        self.rmap[id(vc)] = vo
        self.values.append((vo, vc, role))

    def pair_graph(self, go, gc, depth=0) -> None:
        if depth > 40:
            raise Mismatch("nesting too deep")
        self.graphs.append((go, gc))
        io, ic = list(go.inputs), list(gc.inputs)
        if len(io) != len(ic):
            raise Mismatch(f"graph.inputs: {len(io)} vs {len(ic)}")
        for a, b in zip(io, ic):
            self.pair_value(a, b, "graph.input")
        no, nc = list(go.initializers.items()), list(gc.initializers.items())
        if [k for k, _ in no] != [k for k, _ in nc]:
            raise Mismatch(f"graph.initializers keys: {[k for k, _ in no]} vs {[k for k, _ in nc]}")
        for (_, a), (_, b) in zip(no, nc):
            self.pair_value(a, b, "graph.initializer")
        lo, lc = list(go), list(gc)
        if len(lo) != len(lc):
            raise Mismatch(f"graph nodes: {len(lo)} vs {len(lc)}")
        for a, b in zip(lo, lc):
            self.pair_node(a, b, depth)
        if len(go.outputs) != len(gc.outputs):
            raise Mismatch(f"graph.outputs: {len(go.outputs)} vs {len(gc.outputs)}")

    def pair_node(self, a, b, depth) -> None:
        self.nodes.append((a, b))
        if len(a.inputs) != len(b.inputs):
            raise Mismatch(f"node.inputs: {len(a.inputs)} vs {len(b.inputs)}")
        if len(a.outputs) != len(b.outputs):
            raise Mismatch(f"node.outputs: {len(a.outputs)} vs {len(b.outputs)}")
        ka, kb = list(a.attributes.keys()), list(b.attributes.keys())
        if ka != kb:
            raise Mismatch(f"node.attributes keys: {ka} vs {kb}")
        for k in ka:
            ga, gb = attr_graphs(a.attributes[k]), attr_graphs(b.attributes[k])
            if len(ga) != len(gb):
                raise Mismatch(f"attribute {k!r}: {len(ga)} graphs vs {len(gb)}")
            for x, y in zip(ga, gb):
                self.pair_graph(x, y, depth + 1)
        for x, y in zip(a.outputs, b.outputs):
            self.pair_value(x, y, "node.output")

    def pair_function(self, fo, fc) -> None:
        self.functions.append((fo, fc))
        self.pair_graph(fo.graph, fc.graph)

    def pair_model(self, mo, mc) -> None:
        self.models.append((mo, mc))
        self.pair_graph(mo.graph, mc.graph)
        ko, kc = list(mo.functions.keys()), list(mc.functions.keys())
        if ko != kc:
            raise Mismatch(f"model.functions keys: {ko} vs {kc}")
        for k in ko:
            self.pair_function(mo.functions[k], mc.functions[k])


# =============================================================================================
# 3. Oracles on a pairing
# =============================================================================================
def type_chain(t) -> list:
    out = []
    seen = 0
    while t is not None and seen < 8 and hasattr(t, "dtype"):
        out.append(t)
        nxt = getattr(t, "elem_type", None)
        t = nxt if isinstance(nxt, (ir.TensorType, ir.SparseTensorType, ir.SequenceType, ir.OptionalType)) else None
        seen += 1
    return out


def identity_findings(pairs: Pairs) -> list[tuple[str, str]]:
    """(signature, message) for every object the statement requires to be new but is shared."""
    out = []

    def shared(sig, what):
        out.append((sig, what))

    for go, gc in pairs.graphs:
        if go is gc:
            shared("shared-identity|Graph", f"graph {go.name!r} is the same object in original and clone")
            continue
        if go.metadata_props is gc.metadata_props:
            shared("shared-identity|Graph.metadata_props", f"graph {go.name!r}")
        if go.meta is gc.meta:
            shared("shared-identity|Graph.meta", f"graph {go.name!r}")
        if go.inputs is gc.inputs or go.outputs is gc.outputs or go.initializers is gc.initializers:
            shared("shared-identity|Graph.io-container", f"graph {go.name!r}")
    for a, b in pairs.nodes:
        if a is b:
            shared("shared-identity|Node", f"node {a.name!r} is the same object in original and clone")
            continue
        if a.metadata_props is b.metadata_props:
            shared("shared-identity|Node.metadata_props", f"node {a.name!r}")
        if a.meta is b.meta:
            shared("shared-identity|Node.meta", f"node {a.name!r}")
        if a.attributes is b.attributes:
            shared("shared-identity|Node.attributes", f"node {a.name!r}")
    for vo, vc, role in pairs.values:
        if vo is vc:
            shared(f"ref-into-original|{role}", f"{role} {vo.name!r} of the clone is the original's value object")
            continue
        if vo.shape is not None and vo.shape is vc.shape:
            shared("shared-identity|Value.shape", f"value {vo.name!r} ({role}): clone.shape is original.shape")
        if vo.type is not None and vo.type is vc.type:
            shared("shared-identity|Value.type", f"value {vo.name!r} ({role}): clone.type is original.type ({vo.type!r})")
        elif vo.type is not None and vc.type is not None:
            co, cc = type_chain(vo.type), type_chain(vc.type)
            if any(x is y for x, y in zip(co[1:], cc[1:])):
                shared("shared-identity|Value.type.elem_type",
                       f"value {vo.name!r} ({role}): the nested element type object of {vo.type!r} is shared")
        if vo.metadata_props is vc.metadata_props:
            shared("shared-identity|Value.metadata_props", f"value {vo.name!r} ({role})")
        if vo.meta is vc.meta:
            shared("shared-identity|Value.meta", f"value {vo.name!r} ({role})")
    for fo, fc in pairs.functions:
        if fo is fc:
            shared("shared-identity|Function", f"function {fo.name!r}")
        elif fo.attributes is fc.attributes:
            shared("shared-identity|Function.attributes", f"function {fo.name!r}")
    for mo, mc in pairs.models:
        if mo is mc:
            shared("shared-identity|Model", "model")
            continue
        if mo.metadata_props is mc.metadata_props:
            shared("shared-identity|Model.metadata_props", "model")
        if mo.functions is mc.functions:
            shared("shared-identity|Model.functions", "model")
    return out


def deep_meta_findings(pairs: Pairs) -> list[tuple[str, str]]:
    """deep_copy=True: mutable payloads of meta must not be shared."""
    out = []
    carriers = [(a, b, "Value") for a, b, _ in pairs.values] + [(a, b, "Node") for a, b in pairs.nodes] \
        + [(a, b, "Graph") for a, b in pairs.graphs]
    for a, b, kind in carriers:
        if a is b:
            continue
        for k in ("L", "D"):
            x = a.meta.get(k) if k in a.meta else None
            if isinstance(x, (list, dict)) and k in b.meta and b.meta[k] is x:
                out.append((f"shared-identity|{kind}.meta[k] payload|deep_copy=True",
                            f"{kind} {getattr(a, 'name', None)!r}: meta[{k!r}] is the same {type(x).__name__} object "
                            "in original and clone although deep_copy=True"))
    return out


def _cfg_desc(spec) -> tuple:
    return (spec.device, spec.index_to_device_group_map, spec.sharded_dims)


def reference_findings(pairs: Pairs, allow_outer: bool) -> list[tuple[str, str]]:
    out = []
    vmap = pairs.vmap
    originals = {id(vo) for vo, _, _ in pairs.values}

    def check(role, vo, vc, where):
        if vo is None or vc is None:
            if vo is not vc:
                out.append((f"ref-mismatch|{role}", f"{where}: {_nm(vo)} in the original, {_nm(vc)} in the clone"))
            return
        if id(vo) in vmap:
            if vc is vmap[id(vo)]:
                return
            if vc is vo or id(vc) in originals:
                out.append((f"ref-into-original|{role}",
                            f"{where}: the clone references the original's value {_nm(vc)} instead of its own copy"))
            else:
                out.append((f"ref-mismatch|{role}", f"{where}: expected the copy of {_nm(vo)}, found {_nm(vc)}"))
            return
        # vo is not defined in the cloned region: a captured outer-scope value
        if vc is vo:
            if not allow_outer:
                out.append((f"no-error|outer-capture|{role}",
                            f"{where}: captured outer value {_nm(vo)} was accepted although outer-scope values are not allowed"))
            return
        out.append((f"ref-mismatch|{role}|outer", f"{where}: outer value {_nm(vo)} became {_nm(vc)} in the clone"))

    for a, b in pairs.nodes:
        for i, (x, y) in enumerate(zip(a.inputs, b.inputs)):
            check("node.input", x, y, f"node {a.name!r} input {i}")
        da, db = tuple(a.device_configurations or ()), tuple(b.device_configurations or ())
        if len(da) != len(db):
            out.append(("structure-differs|node.device_configurations", f"node {a.name!r}: {len(da)} vs {len(db)} configurations"))
            continue
        for ca, cb in zip(da, db):
            if ca.configuration is not cb.configuration or ca.pipeline_stage != cb.pipeline_stage:
                out.append(("structure-differs|node.device_configurations",
                            f"node {a.name!r}: {ca.configuration!r}/{ca.pipeline_stage} vs {cb.configuration!r}/{cb.pipeline_stage}"))
            sa, sb = ca.sharding_specs, cb.sharding_specs
            if len(sa) != len(sb):
                out.append(("structure-differs|sharding_specs", f"node {a.name!r}: {len(sa)} vs {len(sb)} sharding specs"))
                continue
            for x, y in zip(sa, sb):
                check("sharding_spec.value", x.value, y.value, f"node {a.name!r} sharding spec")
                if _cfg_desc(x) != _cfg_desc(y):
                    out.append(("structure-differs|sharding_spec", f"node {a.name!r}: {x!r} vs {y!r}"))
    for go, gc in pairs.graphs:
        for i, (x, y) in enumerate(zip(go.outputs, gc.outputs)):
            check("graph.output", x, y, f"graph {go.name!r} output {i}")
    for mo, mc in pairs.models:
        co, cc = tuple(mo.device_configurations or ()), tuple(mc.device_configurations or ())
        if [c for c in co] != [c for c in cc]:
            out.append(("structure-differs|model.device_configurations", f"{co!r} vs {cc!r}"))
        for a, b in pairs.nodes:
            for ca, cb in zip(a.device_configurations or (), b.device_configurations or ()):
                ino = any(ca.configuration is c for c in co)
                inc = any(cb.configuration is c for c in cc)
                if ino and not inc:
                    out.append(("ref-into-original|node.device_configuration",
                                f"node {a.name!r}: the clone's annotation refers to a configuration object that is "
                                "registered on the original model but not on the cloned model"))
    return out


def _nm(v) -> str:
    if v is None:
        return "None"
    return f"{type(v).__name__}({getattr(v, 'name', None)!r})"


# ---- structural equality through twin-labelled worlds ----------------------------------------
def twin_worlds(pairs: Pairs) -> tuple[World, World]:
    wo, wc = World(), World()
    for a, b in pairs.graphs:
        wo.add_graph(a)
        wc.add_graph(b)
    for a, b in pairs.nodes:
        wo.add_node(a)
        wc.add_node(b)
    for a, b, _ in pairs.values:
        wo.add_value(a)
        wc.add_value(b)
    for a, b in pairs.functions:
        wo.add_function(a)
        wc.add_function(b)
    for a, b in pairs.models:
        wo.models.append(a)
        wc.models.append(b)
    return wo, wc


def _normalise(snap: dict, relaxed: dict) -> dict:
    out = {}
    for label, d in snap.items():
        d = dict(d)
        if "uses" in d:
            # order of uses() is not part of the statement; users outside the region read as '?Node'
            d["uses"] = tuple(sorted((u for u in d["uses"] if not u[0].startswith("?")), key=repr))
        sh = d.get("shape")
        if isinstance(sh, tuple) and len(sh) >= 4:
            d["shape"] = sh[:3]  # the frozen flag is not serialised; reported separately
        if d.get("producer") == "None":
            d.pop("index", None)  # the output index of a value without a producer means nothing
        for f in relaxed.get(label, ()):
            d.pop(f, None)
        out[label] = d
    return out


def structure_findings(pairs: Pairs, relaxed_objs: list, counters) -> list[tuple[str, str]]:
    """Field-by-field comparison of all public observables of corresponding objects.
    ``relaxed_objs`` lists (original object, fields) whose fields legitimately differ (a GraphView
    does not own its nodes and values, its boundary inputs may have producers)."""
    wo, wc = twin_worlds(pairs)
    relaxed: dict = {}
    for o, fields in relaxed_objs:
        relaxed.setdefault(wo.label(o), set()).update(fields)
    so = snapshot.snapshot(wo, identities=False, name_authority=False)
    sc = snapshot.snapshot(wc, identities=False, name_authority=False)
    for label in so:
        if so[label].get("graph") == "?graph":
            # owned (listed as input/output/initializer) by a graph outside the cloned region
            relaxed.setdefault(label, set()).update(("graph", "flags"))
        a, b = so[label].get("shape"), sc.get(label, {}).get("shape")
        if isinstance(a, tuple) and isinstance(b, tuple) and len(a) >= 4 and a[3] != b[3]:
            counters["report_only_shape_frozen_flag_differs"] += 1
    out = []
    for label, field, a, b in snapshot.diff(_normalise(so, relaxed), _normalise(sc, relaxed), limit=8):
        kind = KIND.get(label[0], "obj")
        if field in NOT_SERIALISED:
            counters[f"report_only_unserialised_facet_differs:{kind}.{field}"] += 1
            continue
        out.append((f"structure-differs|{kind}.{field}", f"{label} ({_objname(wo, label)}).{field}: original {a!r}, clone {b!r}"))
    # facets the shared snapshot does not read
    xo, xc = extras(wo), extras(wc)
    for label in xo:
        for field, a in xo[label].items():
            b = xc.get(label, {}).get(field)
            if a != b:
                if label.startswith("m") and field in ("meta_valid", "meta"):
                    counters["report_only_model_meta_not_cloned"] += 1
                    continue
                if field in NOT_SERIALISED:
                    counters[f"report_only_unserialised_facet_differs:{KIND.get(label[0], 'obj')}.{field}"] += 1
                    continue
                out.append((f"structure-differs|{KIND.get(label[0], 'obj')}.{field}",
                            f"{label} ({_objname(wo, label)}).{field}: original {a!r}, clone {b!r}"))
    return out


# public observables that serialisation does not carry: "serializes exactly like the original" is
# silent about them, so a difference between original and clone is shown in the evidence only
# (sharing of the containers and leaks through later edits are judged by the other oracles)
NOT_SERIALISED = {"meta", "meta_valid", "version"}
KIND = {"v": "value", "n": "node", "g": "graph", "f": "function", "m": "model"}


def _objname(w, label) -> str:
    pools = {"v": w.values, "n": w.nodes, "g": w.graphs, "f": w.functions}
    try:
        return repr(getattr(pools[label[0]][int(label[1:])], "name", None))
    except Exception:  # noqa: BLE001
        return "?"


META_KEYS = ("k1", "k2", "L", "D", "stale", "ghost")


def _meta_valid(obj) -> tuple:
    m = obj.meta
    if not m:  # no entries and no invalidated keys
        return ()
    keys = sorted(set(m.keys()) | set(META_KEYS))
    return tuple((k, k in m, m.is_valid(k)) for k in keys)


def extras(w, identities: bool = False) -> dict:
    """Observables the shared snapshot does not read: nested type denotations, meta validity
    flags, the model's meta store."""
    out = {}
    for v in w.values:
        chain = tuple((type(t).__name__, getattr(t, "denotation", None)) + ((id(t),) if identities else ())
                      for t in type_chain(v.type))
        out[w.label(v)] = {"type_chain": chain, "meta_valid": _meta_valid(v)}
    for n in w.nodes:
        out[w.label(n)] = {"meta_valid": _meta_valid(n)}
    for g in w.graphs:
        out[w.label(g)] = {"meta_valid": _meta_valid(g)}
    for i, m in enumerate(w.models):
        out[f"m{i}"] = {"meta_valid": _meta_valid(m), "meta": tuple((k, repr(x)) for k, x in m.meta.items())}
    return out


def full_snapshot(w) -> dict:
    """Before/after snapshot of one copy (same process, identities included)."""
    s = snapshot.snapshot(w, identities=True, name_authority=True)
    for label, d in extras(w, identities=True).items():
        s.setdefault(label, {}).update(d)
    for d in s.values():
        c = d.get("const")
        if isinstance(c, tuple) and len(c) >= 5:
            # tensors may be shared between the copies, and Value.name = ... renames the backing
            # tensor: the tensor's own name is kept as a separate (report-only) facet
            d["const"] = c[:3] + c[4:]
            d["const_tensor_name"] = c[3]
        attrs = d.get("attrs")
        if attrs and any(isinstance(a, tuple) and len(a) > 2 and a[1] in ("TENSOR", "TENSORS") for a in attrs):
            names, clean = [], []
            for a in attrs:
                if isinstance(a, tuple) and len(a) > 2 and a[1] == "TENSOR" and isinstance(a[2], tuple) and len(a[2]) >= 4:
                    names.append(a[2][3])
                    a = a[:2] + (a[2][:3] + a[2][4:],) + a[3:]
                elif isinstance(a, tuple) and len(a) > 2 and a[1] == "TENSORS" and isinstance(a[2], tuple):
                    names.append(tuple(t[3] for t in a[2] if isinstance(t, tuple) and len(t) >= 4))
                    a = a[:2] + (tuple(t[:3] + t[4:] if isinstance(t, tuple) and len(t) >= 4 else t for t in a[2]),) + a[3:]
                clean.append(a)
            d["attrs"] = tuple(clean)
            d["const_tensor_name"] = tuple(names)  # same report-only facet as for values
    return s


# =============================================================================================
# 4. Region-bounded worlds and the extended edit alphabet
# =============================================================================================
class RegionWorld(World):
    """A World that never adopts objects of ``foreign`` (the other copy, captured outer values and
    everything else that existed outside this copy when the clone was taken), so an edit history
    drawn from its pools addresses this copy and objects created later only."""

    def __init__(self, foreign: set[int] | None = None) -> None:
        super().__init__()
        self.foreign: set[int] = foreign if foreign is not None else set()
        self.configs: list = []

    def _add(self, pool, prefix, obj) -> None:
        if id(obj) in self.foreign:
            return
        super()._add(pool, prefix, obj)

    def add_region(self, a: Analysis) -> None:
        for g in a.graphs:
            if isinstance(g, ir.Graph):
                self.add_graph(g)
        for f in a.functions:
            self.add_function(f)
        for n in a.nodes:
            self.add_node(n)
        for v in a.values:
            self.add_value(v)
        for m in a.models:
            if id(m) not in self.foreign:
                self.models.append(m)
                for c in m.device_configurations or ():
                    if not any(c is x for x in self.configs):
                        self.configs.append(c)
        for n in a.nodes:
            for dc in n.device_configurations or ():
                c = dc.configuration
                if c is not None and not any(c is x for x in self.configs):
                    self.configs.append(c)

    def M(self, i):  # noqa: N802
        return self._pick(self.models, i)

    def F(self, i):  # noqa: N802
        return self._pick(self.functions, i)

    def CFG(self, i):  # noqa: N802
        if not self.configs:
            from onnx_ir import ModelConfiguration  # noqa: PLC0415

            self.configs.append(ModelConfiguration(name="free_cfg", num_devices=2, device_names=("a", "b")))
        return self.configs[i % len(self.configs)]

    def apply(self, op: list) -> Result:
        fn = XOPS.get(op[0]) or OPS[op[0]]
        try:
            thunk = fn(self, *op[1:])
        except Skip:
            return Result(skipped=True)
        try:
            res = Result(ret=thunk())
        except Exception as e:  # noqa: BLE001 - any exception is a rejected call
            res = Result(exc=e)
        self.discover()
        return res


def reach_ids(roots_graphs: list, stop: set[int]) -> set[int]:
    """ids of every graph/node/value reachable from the given graphs through public accessors,
    not walking through the objects in ``stop``."""
    w = RegionWorld(set(stop))
    for g in roots_graphs:
        w.add_graph(g)
    w.discover()
    return set(w._labels)  # noqa: SLF001 - the harness's own registry


XOPS: dict = {}
DIMS = [1, 5, "K", None, "Z", 7]
DENS = [None, "DATA_BATCH", "DEN_X", "DEN_Y"]
STRS = [None, "", "s1", "s2", "dom.x"]


def xop(name):
    def deco(fn):
        XOPS[name] = fn
        return fn
    return deco


@xop("v_shape_set")
def _v_shape_set(w, v, i, d):
    val = w.V(v)
    sh = val.shape
    if sh is None or len(sh) == 0:
        raise Skip()

    def run():
        sh[i % len(sh)] = DIMS[d % len(DIMS)]
    return run


@xop("v_shape_den")
def _v_shape_den(w, v, i, d):
    val = w.V(v)
    sh = val.shape
    if sh is None or len(sh) == 0:
        raise Skip()
    return lambda: sh.set_denotation(i % len(sh), DENS[d % len(DENS)])


@xop("v_type_den")
def _v_type_den(w, v, d):
    val = w.V(v)
    ty = val.type
    if ty is None:
        raise Skip()

    def run():
        ty.denotation = DENS[d % len(DENS)]
    return run


@xop("v_elem_den")
def _v_elem_den(w, v, d):
    val = w.V(v)
    chain = type_chain(val.type)
    if len(chain) < 2:
        raise Skip()

    def run():
        chain[-1].denotation = DENS[d % len(DENS)]
    return run


@xop("v_type_rich")
def _v_type_rich(w, v, k):
    val = w.V(v)
    F = ir.DataType.FLOAT

    def run():
        val.type = [ir.OptionalType(ir.SequenceType(ir.TensorType(F))), ir.SparseTensorType(F),
                    ir.SequenceType(ir.TensorType(ir.DataType.INT64), denotation="SEQ"),
                    ir.TensorType(ir.DataType.UNDEFINED)][k % 4]
    return run


@xop("v_shape_rich")
def _v_shape_rich(w, v, k):
    val = w.V(v)

    def run():
        val.shape = [ir.Shape([1, "Q", None], denotations=["DATA_BATCH", None, None]), ir.Shape([], frozen=True),
                     ir.Shape([ir.SymbolicDim("N") + 1, 2]), ir.Shape([3, 3], frozen=True)][k % 4]
    return run


@xop("v_meta_inval")
def _v_meta_inval(w, v, k):
    val = w.V(v)
    return lambda: val.meta.invalidate(k)


def _carrier(w, kind, i):
    return {"v": w.V, "n": w.N, "g": w.G}[kind](i)


@xop("meta_deep")
def _meta_deep(w, kind, i, x, nested):
    obj = _carrier(w, kind, i)
    payload = obj.meta.get("L") if "L" in obj.meta else None
    if not isinstance(payload, list):
        d = obj.meta.get("D") if "D" in obj.meta else None
        if not isinstance(d, dict):
            raise Skip()

        def run_d():
            d["b"] = x
            if isinstance(d.get("a"), list):
                d["a"].append(x)
        return run_d

    def run():
        if nested and len(payload) > 1 and isinstance(payload[1], list):
            payload[1].append(x)
        else:
            payload.append(x)
    return run


@xop("n_domain")
def _n_domain(w, n, s):
    node = w.N(n)

    def run():
        node.domain = s
    return run


@xop("n_overload")
def _n_overload(w, n, s):
    node = w.N(n)

    def run():
        node.overload = s
    return run


@xop("n_version")
def _n_version(w, n, k):
    node = w.N(n)

    def run():
        node.version = k
    return run


@xop("n_meta")
def _n_meta(w, n, k, s):
    node = w.N(n)

    def run():
        node.meta[k] = s
    return run


@xop("n_attr_x")
def _n_attr_x(w, n, key, kind):
    node = w.N(n)

    def run():
        a = [ir.AttrString(key, "sv"), ir.AttrInt64s(key, [1, 2]), ir.AttrFloat32(key, 0.25),
             ir.AttrTensor(key, ir.tensor(np.array([1.0], dtype=np.float32), name="xt"))][kind % 4]
        node.attributes[key] = a
    return run


@xop("n_attr_first_del")
def _n_attr_first_del(w, n, i):
    node = w.N(n)
    keys = list(node.attributes.keys())
    if not keys:
        raise Skip()
    key = keys[i % len(keys)]

    def run():
        del node.attributes[key]
    return run


@xop("g_doc")
def _g_doc(w, g, s):
    graph = w.G(g)

    def run():
        graph.doc_string = s
    return run


@xop("g_meta")
def _g_meta(w, g, k, s):
    graph = w.G(g)

    def run():
        graph.meta[k] = s
    return run


@xop("g_opset_set")
def _g_opset_set(w, g, dom, ver):
    graph = w.G(g)

    def run():
        graph.opset_imports[dom] = ver
    return run


@xop("g_opset_del")
def _g_opset_del(w, g, dom):
    graph = w.G(g)

    def run():
        del graph.opset_imports[dom]
    return run


def _node_io(node):
    return [v for v in list(node.inputs) + list(node.outputs) if v is not None]


@xop("n_shard")
def _n_shard(w, n, io, cfg, axis, num, ndev, stage):
    node = w.N(n)
    vals = _node_io(node)
    if not vals:
        raise Skip()
    v = vals[io % len(vals)]
    c = w.CFG(cfg)
    return lambda: node.shard(v, configuration=c, axis=axis, num_shards=num, device_indices=tuple(range(ndev)),
                              pipeline_stage=stage)


@xop("n_stage")
def _n_stage(w, n, cfg, stage):
    node = w.N(n)
    c = w.CFG(cfg)
    return lambda: node.set_pipeline_stage(c, stage)


@xop("n_devclear")
def _n_devclear(w, n):
    node = w.N(n)

    def run():
        node.device_configurations = ()
    return run


@xop("m_mp")
def _m_mp(w, m, k, s):
    model = w.M(m)

    def run():
        model.metadata_props[k] = s
    return run


@xop("m_meta")
def _m_meta(w, m, k, s):
    model = w.M(m)

    def run():
        model.meta[k] = s
    return run


M_FIELDS = ["doc_string", "producer_name", "producer_version", "domain", "model_version", "ir_version"]


@xop("m_scalar")
def _m_scalar(w, m, f, val):
    model = w.M(m)
    field = M_FIELDS[f % len(M_FIELDS)]

    def run():
        setattr(model, field, (val if field in ("model_version", "ir_version") else f"s{val}"))
    return run


@xop("m_adddev")
def _m_adddev(w, m, name, k):
    model = w.M(m)

    def run():
        c = model.add_device_configuration(name, num_devices=k)
        w.configs.append(c)
    return run


@xop("m_rmdev")
def _m_rmdev(w, m, cfg, cascade, by_name):
    model = w.M(m)
    c = w.CFG(cfg)
    return lambda: model.remove_device_configuration(c.name if by_name else c, cascade=cascade) and None


@xop("m_func_del")
def _m_func_del(w, m, i):
    model = w.M(m)
    keys = list(model.functions.keys())
    if not keys:
        raise Skip()
    key = keys[i % len(keys)]

    def run():
        del model.functions[key]
    return run


@xop("f_ident")
def _f_ident(w, f, which, s):
    func = w.F(f)

    def run():
        setattr(func, ["name", "domain", "overload"][which % 3], s)
    return run


@xop("f_attr_set")
def _f_attr_set(w, f, key, val):
    func = w.F(f)
    return lambda: func.attributes.add(ir.AttrInt64(key, val))


@xop("f_attr_del")
def _f_attr_del(w, f, key):
    func = w.F(f)
    return lambda: func.attributes.pop(key) and None


X_WEIGHTS = {
    "v_shape_set": 3, "v_shape_den": 2, "v_type_den": 2, "v_elem_den": 1.5, "v_type_rich": 1, "v_shape_rich": 1,
    "v_meta_inval": 0.8, "n_domain": 1.2, "n_overload": 1, "n_version": 1, "n_meta": 1.2, "n_attr_x": 1.5,
    "n_attr_first_del": 1.5, "g_doc": 1, "g_meta": 1, "g_opset_set": 1.5, "g_opset_del": 1, "n_shard": 2.5,
    "n_stage": 1.5, "n_devclear": 0.5, "m_mp": 0.8, "m_meta": 0.6, "m_scalar": 0.8, "m_adddev": 0.5, "m_rmdev": 0.6,
    "m_func_del": 0.3, "f_ident": 0.5, "f_attr_set": 0.4, "f_attr_del": 0.4,
}
PAYLOAD_BOOST = {"v_const": 2.5, "v_type": 2, "v_dtype": 3, "v_shape": 2, "v_doc": 1.5, "v_mp": 2.5, "v_meta": 2,
                 "n_doc": 1.2, "n_mp": 2, "n_op": 1.5, "g_name": 1.2, "g_mp": 1.5, "attr_set": 1.5, "attr_del": 1.5,
                 "n_name": 1.5, "v_name": 3, "attr_graph": 1}


class XGen(Gen):
    """Gen plus the setters of section 3/C13 of the design."""

    def __init__(self, rng, w: RegionWorld, hostile: float, deep: bool):
        weights = dict(X_WEIGHTS)
        weights.update(PAYLOAD_BOOST)
        # construction of new objects is kept (new objects get wired into the copy) but rarer
        weights.update({"val": 2, "node": 4, "graph": 0.8, "func": 0.2})
        if deep:
            weights["meta_deep"] = 3
        if not w.models:
            for k in [k for k in weights if k.startswith("m_")]:
                weights.pop(k)
        if not w.functions:
            for k in [k for k in weights if k.startswith("f_")]:
                weights.pop(k)
        super().__init__(rng, w, hostile, weights=weights, avoid={"owned_node_outputs"})

    def any_m(self):
        return self.rng.randrange(max(1, len(self.w.models)))

    def any_f(self):
        return self.rng.randrange(max(1, len(self.w.functions)))

    def _v_shape_set(self):
        return ["v_shape_set", self.any_v(), self.rng.randrange(4), self.rng.randrange(len(DIMS))]

    def _v_shape_den(self):
        return ["v_shape_den", self.any_v(), self.rng.randrange(4), self.rng.randrange(len(DENS))]

    def _v_type_den(self):
        return ["v_type_den", self.any_v(), self.rng.randrange(1, len(DENS))]

    def _v_elem_den(self):
        return ["v_elem_den", self.any_v(), self.rng.randrange(1, len(DENS))]

    def _v_type_rich(self):
        return ["v_type_rich", self.any_v(), self.rng.randrange(4)]

    def _v_shape_rich(self):
        return ["v_shape_rich", self.any_v(), self.rng.randrange(4)]

    def _v_meta_inval(self):
        return ["v_meta_inval", self.any_v(), self.rng.choice(["k1", "k2", "L", "ghost"])]

    def _meta_deep(self):
        kind = self.rng.choice("vvvng")
        idx = {"v": self.any_v, "n": self.any_n, "g": self.any_g}[kind]()
        return ["meta_deep", kind, idx, self.rng.randint(10, 99), self.rng.random() < 0.5]

    def _n_domain(self):
        return ["n_domain", self.any_n(), self.rng.choice(["", "custom.domain", "other"])]

    def _n_overload(self):
        return ["n_overload", self.any_n(), self.rng.choice(["", "ov1", "ov2"])]

    def _n_version(self):
        return ["n_version", self.any_n(), self.rng.choice([None, 1, 13, 21])]

    def _n_meta(self):
        return ["n_meta", self.any_n(), self.rng.choice(["k1", "k2"]), self.rng.choice(["p", "q"])]

    def _n_attr_x(self):
        return ["n_attr_x", self.any_n(), self.rng.choice(["axis", "xk", "then_branch", "value"]), self.rng.randrange(4)]

    def _n_attr_first_del(self):
        return ["n_attr_first_del", self.any_n(), self.rng.randrange(4)]

    def _g_doc(self):
        return ["g_doc", self.any_g(), self.rng.choice([None, "gd", "ge"])]

    def _g_meta(self):
        return ["g_meta", self.any_g(), self.rng.choice(["k1", "k2"]), self.rng.choice(["p", "q"])]

    def _g_opset_set(self):
        return ["g_opset_set", self.any_g(), self.rng.choice(["", "custom.domain", "new.domain"]), self.rng.randint(1, 22)]

    def _g_opset_del(self):
        return ["g_opset_del", self.any_g(), self.rng.choice(["", "custom.domain", "fdom"])]

    def _n_shard(self):
        r = self.rng
        return ["n_shard", self.any_n(), r.randrange(6), r.randrange(3), r.choice([0, 0, 1, -1, 2]), r.choice([1, 2, 4]),
                r.randint(0, 2), r.choice([None, None, 0, 1])]

    def _n_stage(self):
        return ["n_stage", self.any_n(), self.rng.randrange(3), self.rng.randint(0, 3)]

    def _n_devclear(self):
        return ["n_devclear", self.any_n()]

    def _m_mp(self):
        return ["m_mp", self.any_m(), self.rng.choice(["mk", "k2"]), self.rng.choice(["p", "q"])]

    def _m_meta(self):
        return ["m_meta", self.any_m(), self.rng.choice(["k1", "k2"]), self.rng.choice(["p", "q"])]

    def _m_scalar(self):
        return ["m_scalar", self.any_m(), self.rng.randrange(len(M_FIELDS)), self.rng.randint(7, 12)]

    def _m_adddev(self):
        return ["m_adddev", self.any_m(), self.rng.choice(["cfgA", "cfgC", "cfgD"]), self.rng.randint(1, 4)]

    def _m_rmdev(self):
        return ["m_rmdev", self.any_m(), self.rng.randrange(3), self.rng.random() < 0.6, self.rng.random() < 0.4]

    def _m_func_del(self):
        return ["m_func_del", self.any_m(), self.rng.randrange(3)]

    def _f_ident(self):
        return ["f_ident", self.any_f(), self.rng.randrange(3), self.rng.choice(["fa", "fb", ""])]

    def _f_attr_set(self):
        return ["f_attr_set", self.any_f(), self.rng.choice(["alpha", "gamma"]), self.rng.randint(0, 5)]

    def _f_attr_del(self):
        return ["f_attr_del", self.any_f(), self.rng.choice(["alpha", "beta", "gamma"])]


def ensure_xgen_consistent() -> None:
    """Every weighted operation must be generated and executable (a harness bug otherwise)."""
    for k in list(X_WEIGHTS) + ["meta_deep"]:
        assert k in XOPS, k
        assert hasattr(XGen, "_" + k), k
    for k in PAYLOAD_BOOST:
        assert k in DEFAULT_WEIGHTS and k in OPS, k
