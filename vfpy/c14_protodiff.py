"""First differing field between two serialised ModelProtos (for messages and signatures)."""
from __future__ import annotations

import onnx
from google.protobuf.descriptor import FieldDescriptor as FD


def first_diff(b0: bytes, b1: bytes):
    a, b = onnx.ModelProto(), onnx.ModelProto()
    a.ParseFromString(b0)
    b.ParseFromString(b1)
    r = _diff(a, b, "ModelProto")
    if r is None:
        return ("bytes-only", "serialised bytes differ but parsed messages are equal")
    path, desc = r
    return (path, f"{path}: {desc}")


def _diff(a, b, path):
    for f in a.DESCRIPTOR.fields:
        va, vb = getattr(a, f.name), getattr(b, f.name)
        p = f"{path}.{f.name}"
        if _repeated(f):
            if len(va) != len(vb):
                return (p, f"{len(va)} -> {len(vb)} entries" + _names(va, vb))
            for x, y in zip(va, vb):
                if f.type == FD.TYPE_MESSAGE:
                    r = _diff(x, y, p)
                    if r:
                        return r
                elif x != y:
                    return (p, f"{x!r} -> {y!r}"[:300])
        elif f.type == FD.TYPE_MESSAGE:
            if a.HasField(f.name) != b.HasField(f.name):
                return (p, f"presence {a.HasField(f.name)} -> {b.HasField(f.name)}")
            if a.HasField(f.name):
                r = _diff(va, vb, p)
                if r:
                    return r
        elif va != vb:
            return (p, f"{va!r} -> {vb!r}"[:300])
    return None


def _repeated(f) -> bool:
    if hasattr(f, "is_repeated"):
        return bool(f.is_repeated)
    return f.label == FD.LABEL_REPEATED


def _names(va, vb):
    try:
        na = [getattr(x, "name", None) or getattr(x, "key", None) for x in va]
        nb = [getattr(x, "name", None) or getattr(x, "key", None) for x in vb]
        return f" ({na[:8]} -> {nb[:8]})"
    except Exception:  # noqa: BLE001
        return ""


def without_attr_tensor_names(b: bytes) -> bytes:
    """The serialised model with the OWN name of every tensor held by a node attribute blanked (at every
    depth, functions included). Initializer tensors keep their names: those identify the initializer."""
    m = onnx.ModelProto()
    m.ParseFromString(b)

    def graph(g):
        for n in g.node:
            node(n)

    def node(n):
        for a in n.attribute:
            if a.HasField("t"):
                a.t.name = ""
            for t in a.tensors:
                t.name = ""
            if a.HasField("g"):
                graph(a.g)
            for sg in a.graphs:
                graph(sg)

    graph(m.graph)
    for f in m.functions:
        for n in f.node:
            node(n)
    return m.SerializeToString(deterministic=True)
