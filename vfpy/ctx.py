"""Shard context: what a property module's ``run(ctx)`` uses to draw randomness and to report
what its monitors observed.  One Ctx lives in one shard subprocess; the runner merges the JSON
each shard writes.
"""

from __future__ import annotations

import hashlib
import json
import os
import random
import time
import traceback
from collections import Counter
from typing import Any, Iterator


def stable_hash(obj: Any) -> str:
    """Deterministic short hash of a JSON-able object (or of its repr)."""
    try:
        text = json.dumps(obj, sort_keys=True, default=repr)
    except (TypeError, ValueError):
        text = repr(obj)
    return hashlib.blake2b(text.encode("utf-8", "replace"), digest_size=8).hexdigest()


class Ctx:
    MAX_SAMPLES = 6
    MAX_VIOLATIONS = 40

    def __init__(
        self,
        prop: str,
        tier: str,
        seed: int,
        shard: int,
        nshards: int,
        cases: int,
        budget_s: float,
        params: dict | None = None,
    ) -> None:
        self.prop = prop
        self.tier = tier
        self.seed = seed
        self.shard = shard
        self.nshards = nshards
        self.total_cases = cases
        self.budget_s = budget_s
        self.params = params or {}
        self.t0 = time.monotonic()
        self.counters: Counter[str] = Counter()
        self.evaluations = 0
        self.nontrivial: set[str] = set()
        self.samples: list[Any] = []
        self.violations: list[dict] = []
        self.notes: list[str] = []
        self.truncated_by_time = False
        self.cases_done = 0
        self.exhaustive: bool | None = None

    # ---- randomness -------------------------------------------------------------------------
    def rng(self, case: Any, salt: str = "") -> random.Random:
        return random.Random(f"{self.seed}:{self.prop}:{salt}:{case}")

    # ---- iteration over the cases of this shard ---------------------------------------------
    def out_of_time(self) -> bool:
        return (time.monotonic() - self.t0) > self.budget_s

    def case_ids(self, total: int | None = None) -> Iterator[int]:
        """Case ids of this shard (round robin) until the case count or the soft time budget is
        exhausted.  Stops early after a violation flood."""
        total = self.total_cases if total is None else total
        for case in range(self.shard, total, self.nshards):
            if self.out_of_time():
                self.truncated_by_time = True
                return
            if len(self.violations) >= self.MAX_VIOLATIONS:
                self.note("stopped: violation limit reached")
                return
            self.cases_done += 1
            yield case

    # ---- reporting --------------------------------------------------------------------------
    def count(self, key: str, n: int = 1) -> None:
        self.counters[key] += n

    def evaluation(self, key: Any = None, nontrivial: bool = False) -> None:
        """One judged case.  ``key`` identifies the case for distinct counting."""
        self.evaluations += 1
        if nontrivial:
            self.nontrivial.add(key if isinstance(key, str) and len(key) == 16 else stable_hash(key))

    def sample(self, obj: Any, force: bool = False) -> None:
        if force or len(self.samples) < self.MAX_SAMPLES:
            self.samples.append(obj)

    def note(self, text: str) -> None:
        if text not in self.notes and len(self.notes) < 50:
            self.notes.append(text)

    def violation(self, signature: str, message: str, replay: Any = None) -> None:
        """A witnessed violation.  ``signature`` names the *mechanism* (stable across seeds) and
        is what known findings are keyed by; ``replay`` must allow re-execution."""
        self.counters["violations_raw"] += 1
        for v in self.violations:
            if v["signature"] == signature:
                v["count"] += 1
                return
        if len(self.violations) < self.MAX_VIOLATIONS:
            self.violations.append(
                {"signature": signature, "message": message[:4000], "replay": replay, "count": 1}
            )

    def dump(self, path: str, error: str | None = None) -> None:
        data = {
            "prop": self.prop,
            "shard": self.shard,
            "evaluations": self.evaluations,
            "nontrivial": sorted(self.nontrivial),
            "samples": self.samples[: self.MAX_SAMPLES],
            "counters": dict(self.counters),
            "violations": self.violations,
            "notes": self.notes,
            "truncated_by_time": self.truncated_by_time,
            "cases_done": self.cases_done,
            "exhaustive": self.exhaustive,
            "wall_s": round(time.monotonic() - self.t0, 3),
            "error": error,
        }
        tmp = path + ".tmp"
        with open(tmp, "w") as f:
            json.dump(data, f, default=repr)
        os.replace(tmp, path)


def run_shard_main(argv: list[str]) -> int:
    """``python -m vfpy.shard <prop> <tier> <seed> <shard> <nshards> <cases> <budget_s> <out> [params-json]``"""
    import importlib

    prop, tier, seed, shard, nshards, cases, budget, out = argv[:8]
    params = json.loads(argv[8]) if len(argv) > 8 else {}
    ctx = Ctx(prop, tier, int(seed), int(shard), int(nshards), int(cases), float(budget), params)
    error = None
    try:
        mod = importlib.import_module(f"vfpy.props.{prop.lower()}")
        mod.run(ctx)
    except BaseException:  # noqa: BLE001 - a crashed shard is reported, never swallowed
        error = traceback.format_exc()
    ctx.dump(out, error)
    return 0 if error is None else 3
