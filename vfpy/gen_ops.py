"""Adversarial-but-type-correct generator of operation descriptors for vfpy.world.

``gen_op(rng, w, hostile)`` inspects the live world and returns one descriptor.  With
probability ``hostile`` arguments are drawn blindly from the pools (values owned elsewhere,
produced values offered as inputs, nodes of other graphs, indices out of range ...), otherwise
arguments that the call is likely to accept are preferred, so that histories make progress.
"""

from __future__ import annotations

import onnx_ir as ir

from vfpy.world import BAD_NAME, NAMES, OPTYPES, SPECIAL_TENSOR_BASE, World


def _idx(pool, obj):
    for i, o in enumerate(pool):
        if o is obj:
            return i
    return None


class Gen:
    def __init__(self, rng, w: World, hostile: float, weights: dict | None = None, avoid: set | None = None,
                 collaborators: bool = False, extremes: float = 0.0, targeted_rauw: float = 0.0):
        # extremes=p: with probability p every size / index / slice-bound parameter is drawn from the far
        # ends of its range instead (negative sizes; indices far below -len / far above len, up to values
        # that do not fit a machine word).  0.0 (default) draws nothing extra from the rng.
        self.extremes = extremes
        # targeted_rauw=p: with probability p a replace_all_uses_with call is assembled by inspecting the
        # world: pairs that really rewire something, and a pair that must be rejected (a graph output whose
        # replacement another graph owns / graph outputs not to be replaced) at a random position among them.
        self.targeted_rauw = targeted_rauw
        # collaborators=True: values may be backed by tensors whose own name setter can reject a name
        # (proto-backed tensor + a lone-surrogate str; a user tensor class that validates names)
        self.collaborators = collaborators
        self.rng = rng
        self.w = w
        self.hostile = hostile
        self.avoid = avoid or set()
        self.weights = dict(DEFAULT_WEIGHTS)
        if weights:
            self.weights.update(weights)
        for a in self.avoid:
            self.weights.pop(a, None)  # entries that are not operation names are generator switches
        self._names = list(self.weights)
        self._w = [self.weights[n] for n in self._names]
        self._queue: list = []  # planned multi-call sequences (drawn as one unit, returned one call at a time)

    # ---- selectors --------------------------------------------------------------------------
    def h(self) -> bool:
        return self.rng.random() < self.hostile

    def any_v(self):
        return self.rng.randrange(max(1, len(self.w.values)))

    def any_n(self):
        return self.rng.randrange(max(1, len(self.w.nodes)))

    def any_g(self):
        return self.rng.randrange(max(1, len(self.w.graphs)))

    def any_c(self):
        return self.rng.randrange(max(1, len(self.w.containers())))

    def _choose(self, pool, pred, fallback):
        cands = [i for i, o in enumerate(pool) if pred(o)]
        if cands and not self.h():
            return self.rng.choice(cands)
        return fallback()

    def free_v(self):
        return self._choose(self.w.values, lambda v: v.producer() is None and v.graph is None, self.any_v)

    def v_for_graph(self, g, need_no_producer):
        def ok(v):
            if need_no_producer and v.producer() is not None:
                return False
            return v.graph is None or v.graph is g
        return self._choose(self.w.values, ok, self.any_v)

    def detached_n(self):
        return self._choose(self.w.nodes, lambda n: n.graph is None, self.any_n)

    def n_in(self, g):
        return self._choose(self.w.nodes, lambda n: n.graph is g, self.any_n)

    def cont_graph(self, c):
        conts = self.w.containers()
        if not conts:
            return None
        o = conts[c % len(conts)]
        return o.graph if isinstance(o, ir.Function) else o

    def nodes_list(self, g, kmax=3, allow_bad=True):
        k = self.rng.randint(0 if self.h() else 1, kmax)
        out = []
        for _ in range(k):
            r = self.rng.random()
            if r < 0.6:
                out.append(self.detached_n())
            elif r < 0.85:
                out.append(self.n_in(g))
            else:
                out.append(self.any_n())
        if out and self.rng.random() < 0.15:
            out.append(self.rng.choice(out))  # duplicate element
        return out

    def values_list(self, g, need_no_producer, kmax=3):
        k = self.rng.randint(0 if self.h() else 1, kmax)
        out = [self.v_for_graph(g, need_no_producer) for _ in range(k)]
        if out and self.rng.random() < 0.2:
            out.append(self.rng.choice(out))
        if out and self.h():
            # a bad element at a random position k of the multi-element argument
            out.insert(self.rng.randrange(len(out) + 1), self.any_v())
        return out

    def name(self):
        if self.collaborators and self.rng.random() < 0.12:
            return BAD_NAME
        return self.rng.choice(NAMES)

    def tensor_idx(self, plain):
        if self.collaborators and self.rng.random() < 0.3:
            return SPECIAL_TENSOR_BASE + self.rng.randrange(2)
        return self.rng.choice(plain)

    def small(self, lo=-3, hi=5):
        return self.rng.randint(lo, hi)

    # ---- far ends of the ranges (only with extremes > 0) ---------------------------------------
    def x(self) -> bool:
        return self.extremes > 0 and self.rng.random() < self.extremes

    def far_index(self, n: int) -> int:
        """An index far outside [-n, n): just past both ends, far past them, past 32/64-bit words."""
        return self.rng.choice([-n - 1, -n - 2, -n - 7, n, n + 1, n + 7, -10**6, 10**6, -2**31 - 1, 2**31,
                                -2**63 - 1, 2**63, -2**70, 2**70])

    def far_size(self, n: int) -> int:
        """An invalid size of something that has n elements now: negative, from -1 to far below -n.
        (Huge positive sizes are valid requests that allocate that many elements - not generated.)"""
        return self.rng.choice([-1, -1, -2, -3, -n, -n - 1, -n - 2, -10**6, -2**63 - 1, -2**70])

    # ---- one operation ----------------------------------------------------------------------
    def op(self) -> list:
        w, rng = self.w, self.rng
        # bootstrap: make sure there is something to edit
        if len(w.values) < 3:
            return ["val", self.name(), self.tensor_idx([None, None, 0, 1]), rng.randrange(4)]
        if not w.graphs:
            return self._graph()
        if len(w.nodes) < 2:
            return self._node()
        if self._queue:
            return self._queue.pop(0)
        kind = rng.choices(self._names, self._w)[0]
        return getattr(self, "_" + kind)()

    # constructors
    def _val(self):
        return ["val", self.name(), self.tensor_idx([None, None, 0, 1, 2]), self.rng.randrange(4)]

    def _node(self):
        rng = self.rng
        nin = rng.randint(0, 3)
        ins = [None if rng.random() < 0.15 else self.any_v() for _ in range(nin)]
        if ins and rng.random() < 0.25:
            ins.append(rng.choice(ins))
        outs = None
        num = rng.choice([None, None, 1, 2, 3, 0])
        if rng.random() < 0.25:
            k = rng.randint(0, 2)
            outs = [self.free_v() for _ in range(k)]
            if "owned_node_outputs" in self.avoid:
                # known finding C01 I6|node|: Node(outputs=[graph input/initializer]) is accepted
                vals = self.w.values
                outs = [i for i in outs if vals and vals[i % len(vals)].graph is None]
            if outs and self.h():
                outs.append(rng.choice(outs))  # the same value twice
            num = rng.choice([None, len(outs), len(outs) + 1]) if self.h() else None
        cont = self.any_c() if rng.random() < 0.5 else None
        attr_graph = None
        if rng.random() < 0.12 and self.w.graphs:
            attr_graph = self.any_g()
        if self.x():
            num = self.far_size(len(outs) if outs else 0)
        return ["node", rng.choice(OPTYPES), ins, num, outs, cont, rng.choice([None, None, "n", "node_Add_0", "m"]), attr_graph]

    def _node_it(self):
        """Node(...) given one-shot iterables (a generator of inputs, an iterator of attributes)."""
        op = self._node()
        return ["node_it"] + op[1:]

    def _graph(self):
        rng = self.rng
        ins = [self.free_v() for _ in range(rng.randint(0, 2))]
        inits = [self.free_v() for _ in range(rng.randint(0, 2))] if rng.random() < 0.5 else []
        outs = [self.any_v() if rng.random() < 0.5 else self.free_v() for _ in range(rng.randint(0, 2))]
        nodes = [self.detached_n() for _ in range(rng.randint(0, 3))] if self.w.nodes else []
        if self.h() and ins:
            ins.append(rng.choice(ins))
        return ["graph", ins, outs, nodes, inits, rng.choice([None, "g", "main"])]

    def _func(self):
        return ["func", self.any_g(), self.rng.choice(["f", "fn"])]

    def _attr_graph(self):
        return ["attr_graph", self.any_n(), self.any_g(), self.rng.choice(["body", "then_branch", "else_branch"])]

    def _attr_set(self):
        return ["attr_set", self.any_n(), self.rng.choice(["axis", "k"]), self.small()]

    def _attr_del(self):
        return ["attr_del", self.any_n(), self.rng.choice(["axis", "k", "body"])]

    # node sequence
    def _append(self):
        c = self.any_c()
        return ["append", c, self.detached_n() if self.rng.random() < 0.7 else self.n_in(self.cont_graph(c))]

    def _extend(self):
        c = self.any_c()
        return ["extend", c, self.nodes_list(self.cont_graph(c))]

    def _ins_before(self):
        c = self.any_c()
        g = self.cont_graph(c)
        return ["ins_before", c, self.n_in(g), self.nodes_list(g), self.rng.random() < 0.3]

    def _ins_after(self):
        c = self.any_c()
        g = self.cont_graph(c)
        return ["ins_after", c, self.n_in(g), self.nodes_list(g), self.rng.random() < 0.3]

    def _remove(self):
        c = self.any_c()
        g = self.cont_graph(c)
        k = self.rng.randint(1, 3)
        ns = [self.n_in(g) for _ in range(k)]
        if self.rng.random() < 0.15:
            ns.append(self.rng.choice(ns))
        return ["remove", c, ns, self.rng.random() < 0.4, self.rng.random() < 0.5]

    def _sort(self):
        return ["sort", self.any_c()]

    def _n_prepend(self):
        n = self.any_n()
        return ["n_prepend", n, self.nodes_list(None), self.rng.random() < 0.3]

    def _n_append(self):
        n = self.any_n()
        return ["n_append", n, self.nodes_list(None), self.rng.random() < 0.3]

    # connections
    def _rin(self):
        n = self.any_n()
        node = self.w.nodes[n % len(self.w.nodes)]
        hi = len(node.inputs)
        idx = self.small(-1, hi + 1) if self.h() else (self.rng.randrange(hi) if hi else 0)
        if self.x():
            idx = self.far_index(hi)
        return ["rin", n, idx, None if self.rng.random() < 0.15 else self.any_v()]

    def _rsz_in(self):
        n, k = self.any_n(), self.rng.randint(0, 4)
        if self.x():
            k = self.far_size(len(self.w.nodes[n % len(self.w.nodes)].inputs))
        return ["rsz_in", n, k]

    def _rsz_out(self):
        n, k = self.any_n(), self.rng.randint(0, 4)
        if self.x():
            k = self.far_size(len(self.w.nodes[n % len(self.w.nodes)].outputs))
        return ["rsz_out", n, k]

    def _rauw(self):
        if self.targeted_rauw > 0 and self.rng.random() < self.targeted_rauw:
            t = self._rauw_targeted(1)
            if t is not None:
                return ["rauw", t[0][0], t[1][0], t[2]]
        return ["rauw", self.any_v(), self.any_v(), self.rng.random() < 0.5]

    # -- replace_all_uses_with assembled from the live world (only with targeted_rauw > 0)
    def _rauw_targeted(self, k):
        """(values, replacements, replace_graph_outputs) of k pairs, or None when the world has nothing to
        rewire.  Every pair but (possibly) one is applicable AND effective (the value has consumers or is a
        graph output); the rejected pair - if any - sits at a random position among them."""
        rng, vals = self.rng, self.w.values
        try:
            own = []
            for v in vals:
                owned = v.is_graph_input() or v.is_graph_output() or v.is_initializer()
                own.append(v.graph if owned else None)
            outs = [i for i, v in enumerate(vals) if v.is_graph_output()]
            used = [i for i, v in enumerate(vals) if v.uses() and not v.is_graph_output()]
        except Exception:  # noqa: BLE001 - a world broken by an earlier call: draw blindly
            return None
        rgo = rng.random() < 0.7
        a, b = [], []
        for _ in range(k):
            if rgo and outs and (not used or rng.random() < 0.5):
                i = rng.choice(outs)
                g = vals[i].graph
                cands = [j for j, o in enumerate(own) if (o is None or o is g) and j != i]
            elif used:
                i = rng.choice(used)
                cands = [j for j in range(len(vals)) if j != i]
            else:
                return None
            if not cands:
                return None
            a.append(i)
            b.append(rng.choice(cands))
        if rng.random() < 0.75:
            # the pair that must be rejected
            bad = None
            if rgo or rng.random() < 0.7:
                # a graph output of graph A whose replacement is owned by another graph B
                pairs = [(i, j) for i in outs for j, o in enumerate(own) if o is not None and o is not vals[i].graph]
                if pairs:
                    bad = rng.choice(pairs)
            if bad is None and not rgo and outs:
                bad = (rng.choice(outs), self.any_v())  # graph outputs are not to be replaced
            if bad is not None:
                if k == 1:
                    a, b = [bad[0]], [bad[1]]
                else:
                    p = rng.randrange(k + 1)  # every position, first and last included
                    a.insert(p, bad[0])
                    b.insert(p, bad[1])
        return a, b, rgo

    def _c_rauw(self):
        if self.targeted_rauw > 0 and self.rng.random() < self.targeted_rauw:
            t = self._rauw_targeted(self.rng.randint(1, 3))
            if t is not None:
                return ["c_rauw", t[0], t[1], t[2]]
        k = self.rng.randint(1, 3)
        a = [self.any_v() for _ in range(k)]
        b = [self.any_v() for _ in range(k if not self.h() else self.rng.randint(0, 3))]
        return ["c_rauw", a, b, self.rng.random() < 0.5]

    def _c_rnv(self):
        c = self.any_c()
        g = self.cont_graph(c)
        old = [self.n_in(g) for _ in range(self.rng.randint(0, 2))]
        new = [self.detached_n() for _ in range(self.rng.randint(0, 2))]
        k = self.rng.randint(0, 2)
        return ["c_rnv", c, self.n_in(g), old, new, [self.any_v() for _ in range(k)], [self.any_v() for _ in range(k)]]

    # graph io
    def _which(self):
        return self.rng.choice(["inputs", "outputs"])

    def _io_len(self, c, which):
        conts = self.w.containers()
        o = conts[c % len(conts)]
        return len(o.inputs if which == "inputs" else o.outputs)

    def _io_index(self, c, which):
        n = self._io_len(c, which)
        if self.x():
            return self.far_index(n)
        if self.h() or n == 0:
            return self.small(-n - 1, n + 1)
        return self.rng.randrange(-n, n)

    def _io_member(self, c, which):
        conts = self.w.containers()
        o = conts[c % len(conts)]
        lst = list(o.inputs if which == "inputs" else o.outputs)
        if lst and not self.h():
            i = _idx(self.w.values, self.rng.choice(lst))
            if i is not None:
                return i
        return self.any_v()

    def _io_value(self, c, which):
        g = self.cont_graph(c)
        r = self.rng.random()
        if r < 0.2:
            return self._io_member(c, which)  # listed several times / also in the other list
        return self.v_for_graph(g, which == "inputs")

    def _io_append(self):
        c, wh = self.any_c(), self._which()
        return ["io_append", c, wh, self._io_value(c, wh)]

    def _io_readopt(self):
        """Planned sequence: a value leaves one graph's inputs/outputs, is adopted by another graph, and is
        then offered back to the first list in a multi-element call AFTER an acceptable fresh value - the
        list has seen the value before (stale bookkeeping) but must reject it now without touching the
        fresh one."""
        rng, w = self.rng, self.w
        conts = w.containers()
        if len(conts) < 2:
            return self._io_extend()
        a = rng.randrange(len(conts))
        b = rng.choice([i for i in range(len(conts)) if i != a])
        wh = self._which()
        v = self._io_member(a, wh)
        fresh = self.free_v()
        how = rng.choice(["extend", "extend", "setslice", "iadd"])
        tail = {"extend": ["io_extend", a, wh, [fresh, v]],
                "iadd": ["io_iadd", a, wh, [fresh, v]],
                "setslice": ["io_setslice", a, wh, 0, 0, [fresh, v]]}[how]
        self._queue = [["io_append", b, wh, v], tail]
        return ["io_remove", a, wh, v]

    def _io_extend(self):
        c, wh = self.any_c(), self._which()
        return ["io_extend", c, wh, self.values_list(self.cont_graph(c), wh == "inputs")]

    def _io_insert(self):
        c, wh = self.any_c(), self._which()
        return ["io_insert", c, wh, self._io_index(c, wh), self._io_value(c, wh)]

    def _io_pop(self):
        c, wh = self.any_c(), self._which()
        return ["io_pop", c, wh, None if self.rng.random() < 0.4 else self._io_index(c, wh)]

    def _io_remove(self):
        c, wh = self.any_c(), self._which()
        return ["io_remove", c, wh, self._io_member(c, wh)]

    def _io_clear(self):
        return ["io_clear", self.any_c(), self._which()]

    def _io_set(self):
        c, wh = self.any_c(), self._which()
        return ["io_set", c, wh, self._io_index(c, wh), self._io_value(c, wh)]

    def _io_setslice(self):
        c, wh = self.any_c(), self._which()
        a = self.small(-2, 3)
        b = a + self.rng.randint(0, 2)
        if self.x():
            a, b = self._far_bounds(c, wh, a, b)
        return ["io_setslice", c, wh, a, b, self.values_list(self.cont_graph(c), wh == "inputs", 2)]

    def _far_bounds(self, c, wh, a, b):
        n = self._io_len(c, wh)
        r = self.rng.randrange(3)
        return (self.far_index(n) if r != 1 else a), (self.far_index(n) if r != 0 else b)

    def _io_setslice3(self):
        c, wh = self.any_c(), self._which()
        n = self._io_len(c, wh)
        step = self.rng.choice([-1, -1, 2, -2, 3])
        a = self.rng.choice([None, None, 0, 1, -1, n])
        b = self.rng.choice([None, None, 0, 1, -1, n])
        if self.x():
            a, b = self._far_bounds(c, wh, a, b)
        conts = self.w.containers()
        o = conts[c % len(conts)]
        sel = len(list(o.inputs if wh == "inputs" else o.outputs)[a:b:step])
        k = sel if not self.h() else max(0, sel + self.rng.choice([-1, 1, 2]))
        g = self.cont_graph(c)
        vs = [self.v_for_graph(g, wh == "inputs") if self.rng.random() < 0.7 else self._io_member(c, wh) for _ in range(k)]
        if vs and self.h():
            vs[self.rng.randrange(len(vs))] = self.any_v()
        return ["io_setslice3", c, wh, a, b, step, vs]

    def _io_delslice3(self):
        c, wh = self.any_c(), self._which()
        n = self._io_len(c, wh)
        a, b = self.rng.choice([None, 0, 1, -1, n]), self.rng.choice([None, 0, -1, n])
        if self.x():
            a, b = self._far_bounds(c, wh, a, b)
        return ["io_delslice3", c, wh, a, b, self.rng.choice([-1, 2, -2])]

    def _io_del(self):
        c, wh = self.any_c(), self._which()
        return ["io_del", c, wh, self._io_index(c, wh)]

    def _io_delslice(self):
        c, wh = self.any_c(), self._which()
        a = self.small(-2, 3)
        b = a + self.rng.randint(0, 2)
        if self.x():
            a, b = self._far_bounds(c, wh, a, b)
        return ["io_delslice", c, wh, a, b]

    def _io_reverse(self):
        return ["io_reverse", self.any_c(), self._which()]

    def _io_iadd(self):
        c, wh = self.any_c(), self._which()
        return ["io_iadd", c, wh, self.values_list(self.cont_graph(c), wh == "inputs", 2)]

    # initializers
    def _init_value(self, g):
        graph = self.w.graphs[g % len(self.w.graphs)]
        r = self.rng.random()
        if r < 0.2 and len(graph.initializers):
            i = _idx(self.w.values, self.rng.choice(list(graph.initializers.values())))
            if i is not None:
                return i
        return self._choose(
            self.w.values,
            lambda v: v.producer() is None and (v.graph is None or v.graph is graph) and bool(v.name),
            self.any_v,
        )

    def _in_set(self):
        g = self.any_g()
        key = None if not self.h() else self.rng.choice(["", "a", "b", "zz", None])
        return ["in_set", g, key, self._init_value(g)]

    def _in_add(self):
        g = self.any_g()
        return ["in_add", g, self._init_value(g)]

    def _in_reg(self):
        g = self.any_g()
        return ["in_reg", g, self._init_value(g)]

    def _in_del(self):
        return ["in_del", self.any_g(), "nope" if self.h() and self.rng.random() < 0.5 else self.rng.randrange(4)]

    def _in_pop(self):
        return ["in_pop", self.any_g(), "nope" if self.h() and self.rng.random() < 0.5 else self.rng.randrange(4)]

    def _in_popitem(self):
        return ["in_popitem", self.any_g()]

    def _in_clear(self):
        return ["in_clear", self.any_g()]

    def _in_update(self):
        g = self.any_g()
        k = self.rng.randint(1, 3)
        vs = [self._init_value(g) for _ in range(k)]
        if self.h():
            vs.insert(self.rng.randrange(len(vs) + 1), self.any_v())
        return ["in_update", g, vs]

    def _in_setdefault(self):
        g = self.any_g()
        return ["in_setdefault", g, self._init_value(g)]

    # names / payload
    def _v_name(self):
        rng, w = self.rng, self.w
        if rng.random() < 0.3:
            # targeted: rename an initializer to the name of a sibling initializer (rejected), of another
            # value of its graph, or to a fresh name - the value is backed by a tensor in most worlds
            cands = []
            for g in w.graphs:
                try:
                    items = list(g.initializers.items())
                except Exception:  # noqa: BLE001
                    continue
                for k, v in items:
                    i = _idx(w.values, v)
                    if i is not None:
                        cands.append((i, [n for n, _ in items if n != k]))
            if cands:
                i, siblings = rng.choice(cands)
                if siblings and rng.random() < 0.7:
                    return ["v_name", i, rng.choice(siblings)]
                return ["v_name", i, self.name()]
        return ["v_name", self.any_v(), self.name()]

    def _n_name(self):
        return ["n_name", self.any_n(), self.rng.choice([None, "n", "m", "node_Add_0"])]

    def _c_rename(self):
        rng = self.rng
        if rng.random() < 0.45:
            targeted = self._c_rename_initializers()
            if targeted is not None:
                return targeted
        k = rng.randint(1, 4)
        vs = [self.any_v() for _ in range(k)]
        if rng.random() < 0.3:
            vs.append(rng.choice(vs))
        names = [self.name() or "z" for _ in range(len(vs) if not (self.h() and rng.random() < 0.2) else k + 1)]
        return ["c_rename", vs, names]

    def _c_rename_initializers(self):
        """A rename set that spans the initializers of several graphs; the element that makes the call
        raise (if any) sits in the LAST graph of the set, after graphs whose part is acceptable."""
        rng, w = self.rng, self.w
        per_graph = []
        for g in w.graphs:
            try:
                idxs = [i for i in (_idx(w.values, v) for v in g.initializers.values()) if i is not None]
            except Exception:  # noqa: BLE001
                idxs = []
            if idxs:
                per_graph.append((g, idxs))
        if not per_graph:
            return None
        rng.shuffle(per_graph)
        per_graph = per_graph[: rng.randint(1, 3)]
        vs, names = [], []
        fresh = iter(["r0", "r1", "r2", "r3", "r4", "r5", "r6", "r7", "r8"])
        for g, idxs in per_graph:
            for i in rng.sample(idxs, min(len(idxs), rng.randint(1, 2))):
                vs.append(i)
                names.append(next(fresh))
        if rng.random() < 0.3:  # a swap / cycle among the chosen values
            cur = [w.values[i].name or "z" for i in vs]
            names = cur[1:] + cur[:1]
        if rng.random() < 0.3:  # plus a non-initializer value
            vs.insert(rng.randrange(len(vs) + 1), self.any_v())
            names.insert(0, next(fresh))
            names = names[: len(vs)]
        if rng.random() < 0.6:
            g, idxs = per_graph[-1]
            last = max(j for j, i in enumerate(vs) if i in idxs)
            others = [k for k, v in g.initializers.items() if _idx(w.values, v) not in vs]
            kind = rng.randrange(4)
            if kind == 0:
                names[last] = ""
            elif kind == 1 and others:
                names[last] = rng.choice(others)
            elif kind == 2 and self.collaborators:
                names[last] = BAD_NAME
            else:
                same = [j for j, i in enumerate(vs) if i in idxs and j != last]
                if same:
                    names[last] = names[same[0]]
                else:
                    names[last] = ""
        return ["c_rename", vs, names]

    def _v_const(self):
        return ["v_const", self.any_v(), self.tensor_idx([None, 0, 1, 2, 3])]

    def _v_type(self):
        return ["v_type", self.any_v(), self.rng.randrange(4)]

    def _v_dtype(self):
        return ["v_dtype", self.any_v(), self.rng.randrange(4)]

    def _v_shape(self):
        return ["v_shape", self.any_v(), self.rng.randrange(4)]

    def _v_doc(self):
        return ["v_doc", self.any_v(), self.rng.choice([None, "d", "e"])]

    def _v_mp(self):
        return ["v_mp", self.any_v(), self.rng.choice(["k1", "k2"]), self.rng.choice(["p", "q"])]

    def _v_meta(self):
        return ["v_meta", self.any_v(), self.rng.choice(["k1", "k2"]), self.rng.choice(["p", "q"])]

    def _n_doc(self):
        return ["n_doc", self.any_n(), self.rng.choice([None, "d", "e"])]

    def _n_mp(self):
        return ["n_mp", self.any_n(), self.rng.choice(["k1", "k2"]), self.rng.choice(["p", "q"])]

    def _n_op(self):
        return ["n_op", self.any_n(), self.rng.choice(["Add", "Mul", "Relu"])]

    def _g_name(self):
        return ["g_name", self.any_g(), self.rng.choice([None, "g", "h"])]

    def _g_mp(self):
        return ["g_mp", self.any_g(), self.rng.choice(["k1", "k2"]), self.rng.choice(["p", "q"])]


DEFAULT_WEIGHTS = {
    "val": 5, "node": 8, "node_it": 1.2, "graph": 2.5, "func": 0.6, "attr_graph": 1, "attr_set": 0.5, "attr_del": 0.5,
    "append": 4, "extend": 3, "ins_before": 3, "ins_after": 3, "remove": 4, "sort": 1.5, "n_prepend": 1, "n_append": 1,
    "rin": 5, "rsz_in": 2, "rsz_out": 3, "rauw": 3, "c_rauw": 2, "c_rnv": 1.5,
    "io_append": 3, "io_extend": 3, "io_readopt": 0.8, "io_insert": 3, "io_pop": 2.5, "io_remove": 2.5, "io_clear": 0.8, "io_set": 3,
    "io_setslice": 2.5, "io_setslice3": 1.6, "io_delslice3": 1.0, "io_del": 2.5, "io_delslice": 2, "io_reverse": 0.7, "io_iadd": 0.5,
    "in_set": 3, "in_add": 3, "in_reg": 2, "in_del": 2, "in_pop": 2, "in_popitem": 1, "in_clear": 0.6, "in_update": 2,
    "in_setdefault": 1.5,
    "v_name": 4, "n_name": 1, "c_rename": 2.5,
    "v_const": 1.5, "v_type": 0.7, "v_dtype": 0.7, "v_shape": 0.7, "v_doc": 0.4, "v_mp": 0.5, "v_meta": 0.4,
    "n_doc": 0.3, "n_mp": 0.4, "n_op": 0.4, "g_name": 0.3, "g_mp": 0.3,
}
