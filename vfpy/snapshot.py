"""Observable-state snapshot of a universe of IR objects (the C06/C13/C14/C20/C03 oracle).

``snapshot(world)`` maps every object label to a dict of all its public observables with
references replaced by labels.  ``identities=True`` additionally records the identity of
mutable sub-objects (type, shape, tensor, metadata containers), which is valid only for
before/after comparisons inside one process.
"""

from __future__ import annotations

import onnx_ir as ir

# public data attributes (properties / slots) accounted for, per class; methods are not state
ACCOUNTED = {
    "Value": {"name", "type", "dtype", "shape", "const_value", "doc_string", "metadata_props", "meta", "graph"},
    "Node": {"name", "domain", "op_type", "overload", "version", "inputs", "outputs", "attributes", "graph",
             "doc_string", "metadata_props", "meta", "device_configurations"},
    "Graph": {"name", "inputs", "outputs", "initializers", "doc_string", "opset_imports", "metadata_props", "meta"},
    "Function": {"name", "domain", "overload", "inputs", "outputs", "attributes", "graph", "doc_string",
                 "opset_imports", "metadata_props", "meta"},
    "Model": {"graph", "functions", "opset_imports", "ir_version", "producer_name", "producer_version", "domain",
              "model_version", "doc_string", "metadata_props", "meta", "device_configurations"},
}


def unaccounted_attributes() -> dict[str, list[str]]:
    """Public non-callable attributes of the IR classes this module does not snapshot."""
    out = {}
    for cname, known in ACCOUNTED.items():
        cls = getattr(ir, cname)
        extra = []
        for a in dir(cls):
            if a.startswith("_") or a in known:
                continue
            attr = getattr(cls, a, None)
            if callable(attr) and not isinstance(attr, property):
                continue
            extra.append(a)
        # instance attributes created in __init__ that are not class-level descriptors cannot be
        # listed from the class; Model uses plain attributes, which are named in ACCOUNTED.
        if extra:
            out[cname] = extra
    return out


def _tensor_desc(t, identities):
    if t is None:
        return None
    d = [type(t).__name__]
    try:
        d += [str(t.dtype), tuple(t.shape), t.name]
    except Exception as e:  # noqa: BLE001
        d.append(f"<{type(e).__name__}>")
    if identities:
        d.append(id(t))
    return tuple(d)


def _shape_desc(s, identities):
    if s is None:
        return None
    dims = []
    for d in s.dims if hasattr(s, "dims") else list(s):
        if isinstance(d, ir.SymbolicDim):
            dims.append(("sym", d.value))
        else:
            dims.append(d)
    try:
        den = tuple(s.get_denotation(i) for i in range(len(dims)))
    except Exception:  # noqa: BLE001
        den = ()
    out = ("shape", tuple(dims), den, getattr(s, "frozen", None))
    return out + ((id(s),) if identities else ())


def _type_desc(t, identities):
    if t is None:
        return None
    out = ("type", repr(t), getattr(t, "denotation", None))
    return out + ((id(t),) if identities else ())


def _mp(obj, private, public):
    """Contents of a lazily created metadata container; None and empty are not distinguishable
    through the public accessor, so both read as ()."""
    sentinel = object()
    d = getattr(obj, private, sentinel)
    if d is sentinel:
        d = getattr(obj, public)
    if d is None:
        return ()
    return _dictish(d)


def _dictish(d):
    try:
        return tuple((k, repr(v)) for k, v in d.items())
    except Exception:  # noqa: BLE001
        return repr(d)


def _attr_desc(w, a, identities):
    if not isinstance(a, ir.Attr):
        return repr(a)
    if a.is_ref():
        val = ("ref", a.ref_attr_name)
    elif a.type == ir.AttributeType.GRAPH:
        val = w.label(a.value)
    elif a.type == ir.AttributeType.GRAPHS:
        val = tuple(w.label(g) for g in a.value)
    elif a.type == ir.AttributeType.TENSOR:
        val = _tensor_desc(a.value, identities)
    elif a.type == ir.AttributeType.TENSORS:
        val = tuple(_tensor_desc(t, identities) for t in a.value)
    else:
        val = repr(a.value)
    out = (a.name, str(a.type), val, a.doc_string)
    return out + ((id(a),) if identities else ())


def _devcfg(w, n):
    out = []
    for dc in getattr(n, "device_configurations", ()) or ():
        try:
            specs = []
            for s in dc.sharding_specs:
                specs.append((w.label(s.value), repr(getattr(s, "device", None)), repr(getattr(s, "sharded_dims", None)),
                              repr(getattr(s, "index_to_device_group_map", None))))
            out.append((id(dc.configuration), tuple(specs), getattr(dc, "pipeline_stage", None)))
        except Exception:  # noqa: BLE001
            out.append(repr(dc))
    return tuple(out)


def snap_value(w, v, identities=True) -> dict:
    d = {
        "name": v.name,
        "type": _type_desc(v.type, identities),
        "shape": _shape_desc(v.shape, identities),
        "const": _tensor_desc(v.const_value, identities),
        "uses": tuple((w.label(u.node), u.idx) for u in v.uses()),
        "producer": w.label(v.producer()),
        "index": v.index(),
        "flags": (v.is_graph_input(), v.is_graph_output(), v.is_initializer()),
        "graph": w.label(v.graph) if (v.graph is None or w.known(v.graph)) else "?graph",
        "doc": v.doc_string,
        "mp": _mp(v, "_metadata_props", "metadata_props"),
        "meta": _mp(v, "_metadata", "meta"),
    }
    return d


def snap_node(w, n, identities=True) -> dict:
    return {
        "name": n.name, "domain": n.domain, "op_type": n.op_type, "overload": n.overload, "version": n.version,
        "inputs": tuple(w.label(v) for v in n.inputs),
        "outputs": tuple(w.label(v) for v in n.outputs),
        "attrs": tuple(_attr_desc(w, a, identities) for a in n.attributes.values()),
        "attr_keys": tuple(n.attributes.keys()),
        "graph": w.label(n.graph),
        "doc": n.doc_string,
        "mp": _mp(n, "_metadata_props", "metadata_props"),
        "meta": _mp(n, "_metadata", "meta"),
        "devcfg": _devcfg(w, n),
    }


def snap_graph(w, g, identities=True, name_authority=True) -> dict:
    d = {
        "name": g.name,
        "nodes": tuple(w.label(n) for n in g),
        "len": len(g),
        "inputs": tuple(w.label(v) for v in g.inputs),
        "outputs": tuple(w.label(v) for v in g.outputs),
        "initializers": tuple((k, w.label(v)) for k, v in g.initializers.items()),
        "doc": g.doc_string,
        "opsets": tuple(g.opset_imports.items()),
        "mp": _mp(g, "_metadata_props", "metadata_props"),
        "meta": _mp(g, "_metadata", "meta"),
    }
    if name_authority:
        na = getattr(g, "_name_authority", None)
        if na is not None:
            try:
                d["name_authority"] = (na._value_counter, na._node_counter,  # noqa: SLF001
                                       tuple(sorted(na._value_names)), tuple(sorted(na._node_names)))  # noqa: SLF001
            except AttributeError:
                d["name_authority"] = "unobserved"
    return d


def snap_function(w, f, identities=True) -> dict:
    return {
        "name": f.name, "domain": f.domain, "overload": f.overload, "graph": w.label(f.graph),
        "attrs": tuple(_attr_desc(w, a, identities) for a in f.attributes.values()),
    }


def snap_model(w, m, identities=True) -> dict:
    return {
        "graph": w.label(m.graph),
        "functions": tuple((k, w.label(f)) for k, f in m.functions.items()),
        "opsets": tuple(m.opset_imports.items()),
        "scalars": (m.ir_version, m.producer_name, m.producer_version, m.domain, m.model_version, m.doc_string),
        "mp": _dictish(m.metadata_props),
        "devcfg": tuple(repr(c) for c in getattr(m, "device_configurations", ()) or ()),
    }


def snapshot(w, identities=True, name_authority=True) -> dict:
    s = {}
    for v in w.values:
        s[w.label(v)] = snap_value(w, v, identities)
    for n in w.nodes:
        if id(n) in getattr(w, "broken", {}):
            s[w.label(n)] = {"unreadable": w.broken[id(n)]}
            continue
        s[w.label(n)] = snap_node(w, n, identities)
    for g in w.graphs:
        try:
            s[w.label(g)] = snap_graph(w, g, identities, name_authority)
        except Exception as e:  # noqa: BLE001
            s[w.label(g)] = {"unreadable": type(e).__name__}
    for f in w.functions:
        s[w.label(f)] = snap_function(w, f, identities)
    for i, m in enumerate(w.models):
        s[f"m{i}"] = snap_model(w, m, identities)
    return s


def diff(s0: dict, s1: dict, limit: int = 12) -> list[tuple]:
    out = []
    for label in s0:
        a, b = s0[label], s1.get(label)
        if b is None:
            out.append((label, "<object>", "present", "missing"))
            continue
        if a == b:
            continue
        for field in a:
            if a[field] != b.get(field):
                out.append((label, field, a[field], b.get(field)))
                if len(out) >= limit:
                    return out
    return out
