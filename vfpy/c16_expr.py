"""C16 helper: twin expression trees.

A tree is JSON: ``["sym", name] | ["int", k] | [unary, t] | [binary, l, r] | ["min"|"max", l, r]``
plus the two forms of a dimension made from a *user-supplied SymPy expression* (the documented
third form of the ``SymbolicDim`` constructor): ``["usym", name, tag]`` - ``SymbolicDim(Symbol(name,
**assumptions[tag]))``, a SymPy object distinct from the symbol the library derives from the text
``name`` unless the tag is ``lib`` - and ``["uexpr", t]`` - ``SymbolicDim(<t computed in SymPy>)``
where ``t`` uses only ring operators (add, sub, mul, neg), whose meaning is not in question.
It is built twice:

* ``build_real`` drives the real ``SymbolicDim`` operator overloads (``operator.add`` ... with
  ints on either side, ``operator.neg``, ``math.floor/ceil/trunc``).  The public API offers no
  ``min``/``max`` on dimensions, so a min/max node is entered the only way a user can enter it: as
  text, ``SymbolicDim("max(<l>, <r>)")``, the operands being rendered fully parenthesised by
  ``render`` below (never from the library's own printing), and is then combined further with
  the operator overloads.
* ``exact`` computes the same tree with ``fractions.Fraction`` (Python's floor division and
  modulo semantics); division by zero is ``OutOfDomain``.

This module does not import ``onnx_ir`` or SymPy; the dimension class and the factory for
user-supplied leaves (``user_leaf(node) -> dimension``) are passed in.
"""

from __future__ import annotations

import math
import operator
from fractions import Fraction
from typing import Any, Callable, Iterator

from vfpy.c16_grammar import OutOfDomain

BINARY = ("add", "sub", "mul", "floordiv", "truediv", "mod")
UNARY = ("neg", "floor", "ceil", "trunc")
TEXTFN = ("min", "max")
RING = ("add", "sub", "mul", "neg")
# assumption sets a user may declare on a symbol that are consistent with positive integer bindings
USER_TAGS = ("plain", "int", "pos", "real", "nonneg-int", "lib")
_BIN_FN = {
    "add": operator.add, "sub": operator.sub, "mul": operator.mul,
    "floordiv": operator.floordiv, "truediv": operator.truediv, "mod": operator.mod,
}
_BIN_TXT = {"add": "+", "sub": "-", "mul": "*", "floordiv": "//", "truediv": "/", "mod": "%"}
_UN_FN = {"neg": operator.neg, "floor": math.floor, "ceil": math.ceil, "trunc": math.trunc}


class NotBuildable(Exception):
    """The tree would not involve a SymbolicDim at this node (harness-side restriction)."""


class UnsupportedReflected(Exception):
    """``int // dim`` or ``int % dim``: the library defines no reflected form (report only)."""

    def __init__(self, op: str):
        super().__init__(op)
        self.op = op


# ------------------------------------------------------------------------------------------------
def is_leaf(t) -> bool:
    return t[0] in ("sym", "int", "usym")


def children(t) -> list:
    return [] if is_leaf(t) else list(t[1:])


def has_sym(t) -> bool:
    return t[0] in ("sym", "usym") or any(has_sym(c) for c in children(t))


def has_user(t) -> bool:
    """Does the tree contain a user-supplied SymPy leaf?"""
    return t[0] in ("usym", "uexpr") or any(has_user(c) for c in children(t))


def symbol_sources(t) -> set[tuple[str, str]]:
    """(name, source) of every symbol occurrence: source is the user tag, or ``lib`` for a symbol
    the library derives from text (a ``sym`` inside ``uexpr`` is the user writing exactly the
    library's symbol, also ``lib``)."""
    if t[0] == "sym":
        return {(t[1], "lib")}
    if t[0] == "usym":
        return {(t[1], t[2])}
    if t[0] == "int":
        return set()
    return set().union(*[symbol_sources(c) for c in children(t)])


def symbols(t) -> list[str]:
    out: list[str] = []

    def walk(n):
        if n[0] in ("sym", "usym"):
            if n[1] not in out:
                out.append(n[1])
        else:
            for c in children(n):
                walk(c)

    walk(t)
    return out


def rename(t, mapping: dict[str, str]):
    """The same tree over other symbol names (``sym`` and ``usym`` leaves; everything else is kept)."""
    k = t[0]
    if k == "sym":
        return ["sym", mapping.get(t[1], t[1])]
    if k == "usym":
        return ["usym", mapping.get(t[1], t[1]), t[2]]
    if k == "int":
        return t
    return [k] + [rename(c, mapping) for c in children(t)]


def n_ops(t) -> int:
    return 0 if is_leaf(t) else 1 + sum(n_ops(c) for c in children(t))


def op_kinds(t) -> set[str]:
    return set() if is_leaf(t) else {t[0]} | set().union(*[op_kinds(c) for c in children(t)])


def shape(t) -> str:
    """Operator skeleton with argument classes: s = symbol, i = int literal (i- if negative)."""
    if t[0] == "sym":
        return "s"
    if t[0] == "usym":
        return "u"
    if t[0] == "int":
        return "i" if t[1] >= 0 else "i-"
    return f"{t[0]}({','.join(shape(c) for c in children(t))})"


def render(t) -> str:
    """Fully parenthesised text of the documented grammar (only for ceil/trunc-free trees)."""
    k = t[0]
    if k == "sym":
        return t[1]
    if k == "int":
        return str(t[1]) if t[1] >= 0 else f"(-{-t[1]})"
    if k in TEXTFN:
        return f"{k}({render(t[1])}, {render(t[2])})"
    if k == "neg":
        return f"(-{render(t[1])})"
    if k == "floor":
        return f"floor({render(t[1])})"
    if k in _BIN_TXT:
        return f"({render(t[1])} {_BIN_TXT[k]} {render(t[2])})"
    raise NotBuildable(f"{k} has no form in the documented grammar")


def pretty(t) -> str:
    """Human-readable Python-like rendering for messages."""
    k = t[0]
    if k == "sym":
        return t[1]
    if k == "int":
        return str(t[1]) if t[1] >= 0 else f"({t[1]})"
    if k == "usym":
        return f"SymbolicDim(sympy.Symbol({t[1]!r}{'' if t[2] == 'plain' else ', <' + t[2] + '>'}))"
    if k == "uexpr":
        return f"SymbolicDim(<sympy: {_pretty_sympy(t[1])}>)"
    if k in TEXTFN:
        return f'SymbolicDim("{render(t)}")'
    if k == "neg":
        return f"-({pretty(t[1])})"
    if k in UNARY:
        return f"math.{k}({pretty(t[1])})"
    return f"({pretty(t[1])} {_BIN_TXT[k]} {pretty(t[2])})"


def _pretty_sympy(t) -> str:
    k = t[0]
    if k == "sym":
        return f"Symbol({t[1]!r}, <lib>)"
    if k == "usym":
        return f"Symbol({t[1]!r}{'' if t[2] == 'plain' else ', <' + t[2] + '>'})"
    if k == "int":
        return str(t[1]) if t[1] >= 0 else f"({t[1]})"
    if k == "neg":
        return f"-({_pretty_sympy(t[1])})"
    if k in _BIN_TXT:
        return f"({_pretty_sympy(t[1])} {_BIN_TXT[k]} {_pretty_sympy(t[2])})"
    return f"{k}({', '.join(_pretty_sympy(c) for c in children(t))})"


# ------------------------------------------------------------------------------------------------
def build_real(t, dim_cls, counts: Callable[[str], None] | None = None, user_leaf=None) -> Any:
    k = t[0]
    if k == "sym":
        return dim_cls(t[1])
    if k == "int":
        return t[1]
    if k in ("usym", "uexpr"):
        if user_leaf is None:
            raise NotBuildable("no factory for user-supplied SymPy leaves")
        if k == "uexpr" and not has_sym(t):
            raise NotBuildable("user expression without a symbol")
        if counts:
            counts(f"leaf_{k}" + (f"({t[2]})" if k == "usym" else ""))
        return user_leaf(t)
    if k in TEXTFN:
        if counts:
            counts(f"op_{k}(text)")
        return dim_cls(render(t))
    if k in UNARY:
        x = build_real(t[1], dim_cls, counts, user_leaf)
        if isinstance(x, int):
            raise NotBuildable("unary operator on an int")
        if counts:
            counts(f"op_{k}")
        return _UN_FN[k](x)
    a = build_real(t[1], dim_cls, counts, user_leaf)
    b = build_real(t[2], dim_cls, counts, user_leaf)
    if isinstance(a, int) and isinstance(b, int):
        raise NotBuildable("both operands are ints")
    form = "int,dim" if isinstance(a, int) else ("dim,int" if isinstance(b, int) else "dim,dim")
    if isinstance(a, int) and k in ("floordiv", "mod"):
        try:
            r = _BIN_FN[k](a, b)
        except TypeError:
            raise UnsupportedReflected(k) from None
    else:
        r = _BIN_FN[k](a, b)
    if counts:
        counts(f"op_{k}({form})")
    return r


def exact(t, b: dict[str, int]) -> Fraction:
    k = t[0]
    if k in ("sym", "usym"):
        return Fraction(b[t[1]])
    if k == "int":
        return Fraction(t[1])
    if k == "uexpr":
        return exact(t[1], b)
    vals = [exact(c, b) for c in children(t)]
    try:
        if k == "add":
            return vals[0] + vals[1]
        if k == "sub":
            return vals[0] - vals[1]
        if k == "mul":
            return vals[0] * vals[1]
        if k == "truediv":
            return vals[0] / vals[1]
        if k == "floordiv":
            return Fraction(vals[0] // vals[1])
        if k == "mod":
            return vals[0] % vals[1]
    except ZeroDivisionError:
        raise OutOfDomain(f"{k} by zero") from None
    if k == "neg":
        return -vals[0]
    if k == "floor":
        return Fraction(math.floor(vals[0]))
    if k == "ceil":
        return Fraction(math.ceil(vals[0]))
    if k == "trunc":
        return Fraction(math.trunc(vals[0]))
    if k == "min":
        return min(vals)
    if k == "max":
        return max(vals)
    raise ValueError(k)


# ------------------------------------------------------------------------------------------------
_INTS = (1, 2, 2, 3, 3, 4, 5, 6, 7, 8, 10, 16, 2, 3, -1, -2, -3, 0)


def gen_tree(rng, depth: int, syms: list[str], text_ok: bool = True, in_text: bool = False):
    """A tree that contains at least one symbol.  ``in_text``: inside a min/max island, where
    only operators with a form in the documented grammar may be used."""
    if depth <= 0 or rng.random() < 0.10:
        return ["sym", rng.choice(syms)]
    r = rng.random()
    if r < 0.24:
        ops = ("neg", "floor") if in_text else ("neg", "floor", "ceil", "trunc", "ceil", "trunc", "floor")
        return [rng.choice(ops), gen_tree(rng, depth - 1, syms, text_ok, in_text)]
    if r < 0.31 and text_ok:
        d = min(depth - 1, 2)
        a = gen_tree(rng, d, syms, True, True)
        b = ["int", rng.choice(_INTS)] if rng.random() < 0.4 else gen_tree(rng, d, syms, True, True)
        if rng.random() < 0.5:
            a, b = b, a
        return [rng.choice(TEXTFN), a, b]
    op = rng.choice(("add", "sub", "mul", "floordiv", "truediv", "mod", "floordiv", "mod", "sub"))
    f = rng.random()
    if f < 0.45:
        a = gen_tree(rng, depth - 1, syms, text_ok, in_text)
        b = gen_tree(rng, depth - 1, syms, text_ok, in_text)
    elif f < 0.78:
        a = gen_tree(rng, depth - 1, syms, text_ok, in_text)
        b = ["int", rng.choice(_INTS)]
    else:
        a = ["int", rng.choice(_INTS)]
        b = gen_tree(rng, depth - 1, syms, text_ok, in_text)
        if op in ("floordiv", "mod") and not in_text and rng.random() < 0.85:
            # int // dim and int % dim are not offered by the library; mostly avoid, sometimes probe
            op = rng.choice(("sub", "truediv", "add", "mul"))
    return [op, a, b]


def _ring_only(t) -> bool:
    return t[0] in ("sym", "int", "usym") or (t[0] in RING and all(_ring_only(c) for c in children(t)))


def userize(rng, t, p_leaf: float = 0.6, p_expr: float = 0.3, inside: bool = False):
    """Replace symbols of ``t`` by user-supplied SymPy symbols (random assumption tag per
    occurrence, so one name may come as several distinct SymPy objects) and ring-only subtrees by
    user-supplied SymPy expressions.  min/max islands are text and stay as they are."""
    k = t[0]
    if k == "int" or k in TEXTFN or k in ("usym", "uexpr"):
        return t
    if k == "sym":
        if rng.random() < (0.85 if inside else p_leaf):
            return ["usym", t[1], rng.choice(USER_TAGS)]
        return t
    if not inside and has_sym(t) and _ring_only(t) and rng.random() < p_expr:
        return ["uexpr", userize(rng, t, p_leaf, p_expr, True)]
    return [k] + [userize(rng, c, p_leaf, p_expr, inside) for c in children(t)]


def enumerate_small_trees() -> Iterator[list]:
    """All trees with one or two operators over a fixed family of operand pairs (unary over
    binary, binary over unary, binary over binary on either side)."""
    N, M = ["sym", "N"], ["sym", "M"]
    pairs = [(N, M), (N, ["int", 2]), (["int", 3], N), (N, ["int", -2]), (N, N)]
    bins = [[op, a, b] for op in BINARY for (a, b) in pairs]
    for u in UNARY:
        yield [u, N]
    yield from bins
    for f in TEXTFN:
        yield [f, N, M]
        yield [f, N, ["int", 2]]
        yield [f, ["int", 3], N]
    for u in UNARY:
        for u2 in UNARY:
            yield [u, [u2, N]]
        for b in bins:
            yield [u, b]
    thirds = [M, ["int", 2], ["int", -3]]
    for op in BINARY:
        for b in bins:
            for c in thirds:
                yield [op, b, c]
                yield [op, c, b]
        for u in UNARY:
            yield [op, [u, N], M]
            yield [op, M, [u, N]]
            yield [op, [u, N], ["int", 2]]
    for f in TEXTFN:
        for op in BINARY:
            yield [op, [f, N, M], ["int", 2]]
            yield [op, ["int", 7], [f, N, ["int", 2]]]
            yield [f, [op, N, ["int", 2]], M]
        for u in UNARY:
            yield [u, [f, N, M]]


# ------------------------------------------------------------------------------------------------
def _positions(t, path=()) -> Iterator[tuple]:
    yield path
    if not is_leaf(t):
        for i, c in enumerate(children(t)):
            yield from _positions(c, path + (i + 1,))


def _get(t, path):
    for i in path:
        t = t[i]
    return t


def _set(t, path, new):
    if not path:
        return new
    t = list(t)
    t[path[0]] = _set(t[path[0]], path[1:], new)
    return t


def shrink_tree(t, fails: Callable[[list], bool], max_tests: int = 60):
    """Greedy shrink: hoist any descendant to the root, hoist a child over an inner node, replace
    an inner subtree by a leaf, make literals small - while ``fails`` stays true."""
    tests = 0
    cur = t
    progress = True

    def attempt(cand) -> bool:
        nonlocal tests
        if cand == cur or not has_sym(cand):
            return False
        tests += 1
        try:
            return bool(fails(cand))
        except NotBuildable:
            return False

    while progress and tests < max_tests:
        progress = False
        paths = sorted(_positions(cur), key=len)
        # 1. a proper subtree as the whole tree (deepest non-leaf first = biggest reduction)
        for p in sorted(paths, key=lambda p: -len(p)):
            sub = _get(cur, p)
            if p and not is_leaf(sub) and attempt(sub):
                cur, progress = sub, True
                break
            if tests >= max_tests:
                return cur
        if progress:
            continue
        # 2. inner node -> one of its children / a leaf
        for p in paths:
            sub = _get(cur, p)
            if is_leaf(sub):
                continue
            cands = [c for c in children(sub)] if p else []
            if p:
                cands += [["sym", "N"], ["int", 2]]
            for c in cands:
                cand = _set(cur, p, c)
                if attempt(cand):
                    cur, progress = cand, True
                    break
                if tests >= max_tests:
                    return cur
            if progress:
                break
        if progress:
            continue
        # 3. literals
        for p in paths:
            sub = _get(cur, p)
            if sub[0] == "int" and sub[1] not in (2,):
                for v in (2, 1, -1):
                    if v != sub[1] and abs(v) <= abs(sub[1]) and attempt(_set(cur, p, ["int", v])):
                        cur, progress = _set(cur, p, ["int", v]), True
                        break
                if progress:
                    break
                if tests >= max_tests:
                    return cur
    return cur
