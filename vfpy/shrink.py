"""ddmin over a list: smallest sub-list (1-minimal) on which ``fails(sublist)`` is still true."""

from __future__ import annotations

from typing import Callable, Sequence, TypeVar

T = TypeVar("T")


def ddmin(items: Sequence[T], fails: Callable[[list[T]], bool], max_tests: int = 2000) -> list[T]:
    items = list(items)
    tests = 0
    n = 2
    while len(items) >= 2:
        chunk = max(1, len(items) // n)
        subsets = [items[i : i + chunk] for i in range(0, len(items), chunk)]
        reduced = False
        # try complements first (removing one chunk), they converge faster for histories
        for i in range(len(subsets)):
            complement = [x for j, s in enumerate(subsets) if j != i for x in s]
            tests += 1
            if tests > max_tests:
                return items
            if complement and fails(complement):
                items = complement
                n = max(n - 1, 2)
                reduced = True
                break
        if not reduced:
            if chunk == 1:
                break
            n = min(len(items), n * 2)
    # final 1-minimality pass
    i = 0
    while i < len(items) and len(items) > 1:
        cand = items[:i] + items[i + 1 :]
        tests += 1
        if tests > max_tests:
            break
        if fails(cand):
            items = cand
        else:
            i += 1
    return items
