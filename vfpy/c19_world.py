"""C19 harness: JSON model specs (main graph + nested subgraphs + a function, values of known and
unknown rank), a builder, the operation alphabet of the property statement as replayable
descriptors, own walks over the model (independent of ``all_nodes()``) and the validity oracle
for annotation requests.

An operation descriptor is a JSON list ``[opname, ...]`` whose object arguments are indices taken
modulo the size of a pool that is recomputed from the *current* model by a deterministic walk,
so every sub-sequence of a history is executable (ddmin) and histories continue naturally on a
clone or on a deserialised model.  The workload is confined as DESIGN.md says: device indices are
always in range, shapes are never edited, value names are non-empty and unique within each graph
(a value of a nested graph MAY carry the name of a value of an enclosing or sibling graph - op
``shadow`` - as long as every by-identity reference is still what an innermost-first lookup of
its name finds), graphs stay topologically sorted (replacement values are drawn from what is visible
*before* the consumer), and a configuration that nodes still refer to is never removed without
cascade (documented to leave dangling references; the statement lists cascade only).

Every operation of the statement is drawn over the argument classes its public signature accepts,
not only the defaults: cloning = ``Model.clone`` (deep_copy False/True), a model re-assembled from
``Graph.clone`` + ``Function.clone`` (deep_copy False/True) with the same registered configurations,
and a nested graph replaced in its node by its own ``clone(allow_outer_scope_values=True)``;
serialise+deserialise = in memory, through bytes, through a file (``ir.save``/``ir.load``);
``add_device_configuration`` with num_devices, device_names or both.
"""

from __future__ import annotations

import dataclasses
import os
import tempfile
from typing import Any

import numpy as np
import onnx
import onnx_ir as ir

FLOAT = ir.DataType.FLOAT
GRAPH_T = ir.AttributeType.GRAPH
GRAPHS_T = ir.AttributeType.GRAPHS

SHAPES: list = [None, None, [], [4], [2, 3], [2, "N", 4], ["B", 8], [1, 2, 3, 4], [6, 6]]
OPS_POOL = ["Add", "Mul", "Relu", "Concat", "Identity", "Sub", "Max"]


# ------------------------------------------------------------------------------------------
# model specs
# ------------------------------------------------------------------------------------------
class _SpecGen:
    def __init__(self, rng):
        self.rng = rng
        self.node_counter = 0

    def node_name(self):
        self.node_counter += 1
        return f"n{self.node_counter}"

    def shape(self):
        return self.rng.choice(SHAPES)

    def graph(self, prefix, outer, depth, n_inputs, n_nodes, inits, call=None):
        rng = self.rng
        inputs = [[f"{prefix}x{i}", self.shape()] for i in range(n_inputs)]
        init_list = [[f"{prefix}w{i}", rng.choice([[4], [3, 3], [2, 2, 2]])] for i in range(inits)]
        visible = list(outer) + [n for n, _ in inputs] + [n for n, _ in init_list]
        nodes = []
        produced = []
        for k in range(n_nodes):
            if not visible:
                ins = []
            else:
                n_in = rng.choice([1, 2, 2, 3])
                ins = [rng.choice(visible) for _ in range(n_in)]
                if n_in >= 2 and rng.random() < 0.25:
                    ins[1] = ins[0]  # the same value twice
                if rng.random() < 0.12:
                    ins[rng.randrange(n_in)] = None
            sub = None
            if depth < 2 and rng.random() < (0.45 if depth == 0 else 0.3):
                sub = self.graph(f"{prefix}s{k}_", visible, depth + 1, rng.choice([0, 1]), rng.choice([1, 2]), 0)
            domain, op = "", rng.choice(OPS_POOL)
            n_out = rng.choice([1, 1, 2])
            if call is not None and k == call["at"]:
                domain, op = call["domain"], call["name"]
                while len(ins) < call["n_in"]:
                    ins.append(rng.choice(visible) if visible else None)
                ins = ins[: max(call["n_in"], 1)]
                n_out = call["n_out"]
            outs = [[f"{prefix}v{k}_{j}", self.shape()] for j in range(n_out)]
            nodes.append({"name": self.node_name(), "domain": domain, "op": op, "ins": ins, "outs": outs, "sub": sub})
            visible += [n for n, _ in outs]
            produced += [n for n, _ in outs]
        outputs = []
        if produced:
            outputs.append(produced[-1])
            if len(produced) > 2 and rng.random() < 0.4:
                other = rng.choice(produced[:-1])
                if other not in outputs:
                    outputs.append(other)
        return {"name": f"{prefix}g", "inputs": inputs, "inits": init_list, "nodes": nodes, "outputs": outputs}


def gen_spec(rng) -> dict:
    """A model with a main graph, at least one subgraph and one function; the function body
    re-uses the main graph's value names (separate namespace) on purpose."""
    sg = _SpecGen(rng)
    f_nodes = rng.choice([1, 2, 3])
    fgraph = sg.graph("m_", [], 1 if rng.random() < 0.5 else 0, rng.choice([1, 2]), f_nodes, 0)
    func = {"domain": "fd", "name": "F0", "graph": fgraph}
    n_main = rng.choice([2, 3, 4, 5])
    call = {"at": rng.randrange(n_main), "domain": "fd", "name": "F0",
            "n_in": len(fgraph["inputs"]), "n_out": max(1, len(fgraph["outputs"]))}
    main = sg.graph("m_", [], 0, rng.choice([1, 2, 3]), n_main, rng.choice([0, 1, 2]), call=call)
    # guarantee one subgraph in the main graph
    if not any(n["sub"] for n in main["nodes"]):
        k = rng.randrange(len(main["nodes"]))
        before = [n for n, _ in main["inputs"]] + [n for n, _ in main["inits"]]
        for node in main["nodes"][:k]:
            before += [n for n, _ in node["outs"]]
        main["nodes"][k]["sub"] = sg.graph(f"m_s{k}_", before, 1, rng.choice([0, 1]), rng.choice([1, 2]), 0)
    return {"ir": rng.choice([11, 11, 12, 13]), "main": main, "funcs": [func]}


def _mkvalue(name, shape, const=False):
    v = ir.Value(name=name, type=ir.TensorType(FLOAT), shape=None if shape is None else ir.Shape(shape))
    if const:
        v.const_value = ir.tensor(np.zeros(shape, dtype=np.float32), name=name)
    return v


def _build_graph(gs, scopes, opsets):
    scope: dict[str, ir.Value] = {}
    inputs = []
    for name, shape in gs["inputs"]:
        scope[name] = _mkvalue(name, shape)
        inputs.append(scope[name])
    inits = []
    for name, shape in gs["inits"]:
        scope[name] = _mkvalue(name, shape, const=True)
        inits.append(scope[name])

    def lookup(name):
        if name is None:
            return None
        for s in [scope] + scopes[::-1]:
            if name in s:
                return s[name]
        raise KeyError(name)

    nodes = []
    for ns in gs["nodes"]:
        attrs = []
        if ns.get("sub"):
            attrs.append(ir.AttrGraph("body", _build_graph(ns["sub"], scopes + [scope], None)))
        node = ir.Node(ns["domain"], ns["op"], [lookup(n) for n in ns["ins"]], attrs,
                       num_outputs=len(ns["outs"]), name=ns["name"])
        for v, (name, shape) in zip(node.outputs, ns["outs"]):
            v.name = name
            v.type = ir.TensorType(FLOAT)
            v.shape = None if shape is None else ir.Shape(shape)
            scope[name] = v
        nodes.append(node)
    outputs = [lookup(n) for n in gs["outputs"]]
    return ir.Graph(inputs, outputs, nodes=nodes, initializers=inits, name=gs["name"],
                    opset_imports=opsets if opsets is not None else {})


def build_model(spec) -> ir.Model:
    main = _build_graph(spec["main"], [], {"": 21, "fd": 1})
    funcs = []
    for fs in spec["funcs"]:
        g = _build_graph(fs["graph"], [], {"": 21})
        funcs.append(ir.Function(fs["domain"], fs["name"], graph=g, attributes=[]))
    return ir.Model(main, ir_version=spec["ir"], functions=funcs)


# ------------------------------------------------------------------------------------------
# own walks
# ------------------------------------------------------------------------------------------
@dataclasses.dataclass
class NodeInfo:
    node: Any
    scope: str          # "main", "main/sub", "func", "func/sub"
    avail: list         # values visible before the node (own and enclosing graphs)
    graph: Any = None   # the graph object the node was found in


class Index:
    def __init__(self, model):
        self.nodes: list[NodeInfo] = []
        self.values: list = []
        self.rauw: dict[int, list] = {}
        self._seen: set[int] = set()
        self.graphs: list = []                       # every graph, outer before inner
        self.chain: dict[int, list] = {}             # id(graph) -> [outermost, ..., graph]
        self.defined: dict[int, list] = {}           # id(graph) -> values defined in it (inputs, initializers, node outputs)
        self.def_graph: dict[int, Any] = {}          # id(value) -> defining graph
        self.node_graph: dict[int, Any] = {}         # id(node) -> graph
        self._walk(model.graph, [], "main", [])
        for f in model.functions.values():
            self._walk(f.graph if hasattr(f, "graph") else f, [], "func", [])

    def _add_value(self, v):
        if v is not None and id(v) not in self._seen:
            self._seen.add(id(v))
            self.values.append(v)

    def _define(self, graph, v):
        if id(v) not in self.def_graph:
            self.def_graph[id(v)] = graph
            self.defined[id(graph)].append(v)

    def _walk(self, graph, outer, scope, chain):
        chain = chain + [graph]
        self.graphs.append(graph)
        self.chain[id(graph)] = chain
        self.defined[id(graph)] = []
        base = list(outer)
        have = {id(v) for v in base}
        own = []
        for v in list(graph.inputs) + list(graph.initializers.values()):
            if id(v) not in have:
                have.add(id(v))
                base.append(v)
                own.append(v)
            self._add_value(v)
            self._define(graph, v)
        for v in own:
            self.rauw[id(v)] = [u for u in base if u is not v]
        running = list(base)
        for node in graph:
            info = NodeInfo(node, scope, list(running), graph)
            self.nodes.append(info)
            self.node_graph[id(node)] = graph
            for attr in node.attributes.values():
                if not isinstance(attr, ir.Attr) or attr.is_ref():
                    continue
                if attr.type == GRAPH_T:
                    self._walk(attr.value, running, scope if scope.endswith("/sub") else scope + "/sub", chain)
                elif attr.type == GRAPHS_T:
                    for g in attr.value:
                        self._walk(g, running, scope if scope.endswith("/sub") else scope + "/sub", chain)
            outs = list(node.outputs)
            for v in outs:
                self._add_value(v)
                self._define(graph, v)
                self.rauw.setdefault(id(v), info.avail + [u for u in outs if u is not v])
            running = running + outs


def _defined_names(idx: Index, override=None):
    """id(graph) -> {name: value}; None when two values of one graph share a name."""
    out = {}
    for g in idx.graphs:
        d: dict = {}
        for v in idx.defined[id(g)]:
            n = override.get(id(v), v.name) if override else v.name
            if n in d and d[n] is not v:
                return None
            d[n] = v
        out[id(g)] = d
    return out


def _resolves(chain, names, value, name) -> bool:
    """Innermost-first lookup of ``name`` along ``chain`` reaches ``value`` (or nothing at all)."""
    for g in reversed(chain):
        hit = names[id(g)].get(name)
        if hit is not None:
            return hit is value
    return True


def resolution_ok(idx: Index, override=None) -> bool:
    """Name-based serialisation is well defined: names are unique within each graph and every node
    input / graph output, looked up by its (possibly overridden) name innermost scope first, is the
    value the node refers to by identity.  Inner values MAY share a name with a value of an
    enclosing or sibling graph (shadowing)."""
    names = _defined_names(idx, override)
    if names is None:
        return False

    def nm(v):
        return override.get(id(v), v.name) if override else v.name
    for info in idx.nodes:
        chain = idx.chain[id(info.graph)]
        for u in info.node.inputs:
            if u is not None and not _resolves(chain, names, u, nm(u)):
                return False
    for g in idx.graphs:
        for u in g.outputs:
            if u is not None and not _resolves(idx.chain[id(g)], names, u, nm(u)):
                return False
    return True


def shadowed_spec_refs(idx: Index) -> int:
    """Number of sharding specs whose value carries a name that an enclosing graph also defines."""
    names = _defined_names(idx)
    if names is None:
        return 0
    n = 0
    for info in idx.nodes:
        for dc in info.node.device_configurations:
            for spec in dc.sharding_specs:
                g = idx.def_graph.get(id(spec.value)) if spec.value is not None else None
                if g is None:
                    continue
                if any(spec.value.name in names[id(o)] for o in idx.chain[id(g)][:-1]):
                    n += 1
    return n


def io_values(node) -> list:
    """Distinct non-None inputs then outputs of a node (by identity)."""
    out, seen = [], set()
    for v in list(node.inputs) + list(node.outputs):
        if v is not None and id(v) not in seen:
            seen.add(id(v))
            out.append(v)
    return out


def on_node(node, value) -> bool:
    return any(v is value for v in node.inputs) or any(v is value for v in node.outputs)


# ------------------------------------------------------------------------------------------
# results and the world
# ------------------------------------------------------------------------------------------
@dataclasses.dataclass
class Result:
    kind: str                    # operation kind for signatures ("rin", "shard", "rmcfg-cascade", ...)
    expect: str | None = None    # "valid" / "invalid" for judged annotation requests, "report" = statement silent
    cls: str | None = None       # class of the request ("repeated-negative-axis", ...)
    exc: BaseException | None = None
    skipped: str | None = None
    info: dict = dataclasses.field(default_factory=dict)

    @property
    def raised(self):
        return self.exc is not None


def rank_of(value):
    return None if value.shape is None else len(value.shape)


def classify_shard(node, value, cfg, axis, num_shards, stage) -> tuple[str, str]:
    """The harness's own reading of the statement: which requests are invalid.  Written
    independently of Node.shard (no code shared); reads only public state."""
    if not on_node(node, value):
        return "invalid", "value-not-on-node"
    if num_shards < 1:
        return "invalid", "num-shards-lt-1"
    rank = rank_of(value)
    if rank is not None and not (-rank <= axis <= rank - 1):
        return "invalid", "axis-out-of-range"
    existing_stage = None
    existing_axes: list[int] = []
    for dc in node.device_configurations:
        if dc.configuration is cfg:
            existing_stage = dc.pipeline_stage
            for spec in dc.sharding_specs:
                if spec.value is value:
                    existing_axes += [d.axis for d in spec.sharded_dims]
    for a in existing_axes:
        if a == axis:
            return "invalid", "repeated-axis"
        if rank is not None and (a % rank) == (axis % rank):
            return "invalid", "repeated-negative-axis"
    if stage is not None and existing_stage is not None and stage != existing_stage:
        return "invalid", "conflicting-stage"
    cls = "valid"
    if axis < 0:
        cls += "-negative-axis"
    cls += "-unknown-rank" if rank is None else "-known-rank"
    if existing_axes:
        cls += "-merge"
    return "valid", cls


class C19World:
    def __init__(self, spec):
        self.spec = spec
        self.model = build_model(spec)
        self.detached: list = []
        self.counter = 0
        self._index: Index | None = None

    # -- pools ------------------------------------------------------------------------------
    def index(self) -> Index:
        if self._index is None:
            self._index = Index(self.model)
        return self._index

    def invalidate(self):
        self._index = None

    def fresh(self, prefix):
        self.counter += 1
        return f"{prefix}{self.counter}"

    def pick_node(self, i):
        nodes = self.index().nodes
        return nodes[i % len(nodes)] if nodes else None

    def pick_cfg(self, i):
        cfgs = self.model.device_configurations
        return cfgs[i % len(cfgs)] if cfgs else None

    def pick_value(self, node, sel):
        how, k = sel
        if how == "io":
            pool = io_values(node)
        else:
            pool = [v for v in self.index().values if not on_node(node, v)]
        return pool[k % len(pool)] if pool else None

    def referenced(self, cfg) -> bool:
        for info in self.index().nodes:
            for dc in info.node.device_configurations:
                if dc.configuration is cfg or (dc.configuration is not None and dc.configuration.name == cfg.name):
                    return True
        return False

    # -- the alphabet -----------------------------------------------------------------------
    def apply(self, op) -> Result:
        try:
            return getattr(self, "_op_" + op[0])(*op[1:])
        finally:
            self.invalidate()

    def _call(self, res: Result, fn, *a, **kw) -> Result:
        try:
            res.info["ret"] = fn(*a, **kw)
        except Exception as e:  # noqa: BLE001 - judged by the monitor
            res.exc = e
        return res

    def _op_addcfg(self, name, ndev, named):
        dup = any(c.name == name for c in self.model.device_configurations)
        res = Result("addcfg", "report" if dup else "valid", "duplicate-name" if dup else "fresh-name")
        kw = {"device_names": tuple(f"dev{i}" for i in range(ndev))} if named else {"num_devices": ndev}
        if named == 2:  # both spellings at once (must agree)
            kw["num_devices"] = ndev
        return self._call(res, self.model.add_device_configuration, name, **kw)

    def _op_shard(self, node_i, sel, cfg_i, axis, num_shards, devs, stage):
        info, cfg = self.pick_node(node_i), self.pick_cfg(cfg_i)
        if info is None or cfg is None:
            return Result("shard", skipped="no node or no configuration")
        value = self.pick_value(info.node, sel)
        if value is None:
            return Result("shard", skipped="no such value")
        expect, cls = classify_shard(info.node, value, cfg, axis, num_shards, stage)
        devices = []
        for d in devs:
            d %= cfg.num_devices
            if d not in devices:
                devices.append(d)
        res = Result("shard", expect, cls, info={"node": info.node, "value": value, "cfg": cfg, "axis": axis,
                                                 "scope": info.scope})
        return self._call(res, info.node.shard, value, configuration=cfg, axis=axis, num_shards=num_shards,
                          device_indices=devices, pipeline_stage=stage)

    def _op_stage(self, node_i, cfg_i, stage):
        info, cfg = self.pick_node(node_i), self.pick_cfg(cfg_i)
        if info is None or cfg is None:
            return Result("stage", skipped="no node or no configuration")
        existing = None
        for dc in info.node.device_configurations:
            if dc.configuration is cfg:
                existing = dc.pipeline_stage
        if existing is not None and existing != stage:
            # documented as "replaces the stage"; the statement says conflicting stages are rejected:
            # either outcome is accepted (report only), but a rejection must be without effect
            res = Result("stage", "report", "different-stage")
        else:
            res = Result("stage", "valid", "new-or-same-stage")
        res.info.update(node=info.node, cfg=cfg, scope=info.scope)
        return self._call(res, info.node.set_pipeline_stage, cfg, stage)

    def _op_rename(self, val_i):
        values = self.index().values
        if not values:
            return Result("rename", skipped="no values")
        v = values[val_i % len(values)]
        res = Result("rename", info={"value": v, "old": v.name})

        def do():
            v.name = self.fresh("r")
        return self._call(res, do)

    def _op_shadow(self, val_i, k):
        """Rename a value to the current name of a value of an enclosing or sibling graph (same
        namespace), keeping names unique within each graph and every by-identity reference
        resolvable by name innermost-first."""
        idx = self.index()
        if not idx.values:
            return Result("rename-shadow", skipped="no values")
        v = idx.values[val_i % len(idx.values)]
        g = idx.def_graph.get(id(v))
        if g is None:
            return Result("rename-shadow", skipped="value not defined in the model")
        root = idx.chain[id(g)][0]
        pool: list[str] = []
        for other in idx.graphs:
            if other is g or idx.chain[id(other)][0] is not root:
                continue
            for u in idx.defined[id(other)]:
                if u.name and u.name != v.name and u.name not in pool:
                    pool.append(u.name)
        for j in range(min(len(pool), 8)):
            name = pool[(k + j) % len(pool)]
            if resolution_ok(idx, {id(v): name}):
                res = Result("rename-shadow", info={"value": v, "old": v.name, "new": name})

                def do(name=name):
                    v.name = name
                return self._call(res, do)
        return Result("rename-shadow", skipped="no shadowing name keeps references resolvable")

    def _op_rin(self, node_i, in_idx, k):
        info = self.pick_node(node_i)
        if info is None or not info.node.inputs:
            return Result("rin", skipped="no inputs")
        index = self.index()
        names = _defined_names(index)
        chain = index.chain[id(info.graph)]
        # a replacement must still be reachable by its name from the node's scope (not shadowed)
        cands = [None] + [v for v in info.avail if names is None or _resolves(chain, names, v, v.name)]
        new = cands[k % len(cands)]
        idx = in_idx % len(info.node.inputs)
        res = Result("rin", info={"node": info.node})
        return self._call(res, info.node.replace_input_with, idx, new)

    def _op_rsi(self, node_i, size):
        info = self.pick_node(node_i)
        if info is None:
            return Result("rsi", skipped="no node")
        return self._call(Result("rsi", info={"node": info.node}), info.node.resize_inputs, size)

    def _op_rso(self, node_i, size):
        info = self.pick_node(node_i)
        if info is None:
            return Result("rso", skipped="no node")
        node = info.node
        if any(v.is_graph_output() for v in node.outputs[size:]):
            return Result("rso", skipped="would orphan a graph output")
        old = len(node.outputs)
        res = self._call(Result("rso", info={"node": node}), node.resize_outputs, size)
        if not res.raised:
            for v in node.outputs[old:]:
                v.name = self.fresh("o")
                v.type = ir.TensorType(FLOAT)
        return res

    def _op_rauw(self, val_i, k, rgo):
        idx = self.index()
        if not idx.values:
            return Result("rauw", skipped="no values")
        v = idx.values[val_i % len(idx.values)]
        cands = idx.rauw.get(id(v)) or []
        names = _defined_names(idx)
        if names is not None:
            chains = [idx.chain[id(idx.node_graph[id(u.node)])] for u in v.uses() if id(u.node) in idx.node_graph]
            cands = [c for c in cands if all(_resolves(ch, names, c, c.name) for ch in chains)]
        if not cands:
            return Result("rauw", skipped="no replacement visible")
        w = cands[k % len(cands)]
        if rgo and not (w.producer() is not None and w.producer().graph is v.graph and not w.is_graph_output()):
            rgo = False
        return self._call(Result("rauw", info={"value": v}), v.replace_all_uses_with, w, replace_graph_outputs=rgo)

    def _op_rm(self, node_i):
        info = self.pick_node(node_i)
        if info is None or info.node.graph is None:
            return Result("rm", skipped="no node")
        node = info.node
        res = self._call(Result("rm", info={"node": node}), node.graph.remove, node, safe=True)
        if not res.raised:
            self.detached.append(node)
        return res

    def _op_clone(self, deep=False, how="model"):
        """``how``: "model" = Model.clone; "parts" = a new Model assembled from Graph.clone and
        Function.clone with the source's registered configurations (what Model.clone documents)."""
        kind = "clone" + ("-parts" if how == "parts" else "") + ("-deep" if deep else "")
        src = self.model

        def do():
            if how == "parts":
                graph = src.graph.clone(deep_copy=bool(deep))
                funcs = [f.clone(deep_copy=bool(deep)) for f in src.functions.values()]
                return ir.Model(graph, ir_version=src.ir_version, functions=funcs,
                                device_configurations=src.device_configurations)
            if deep:
                return src.clone(deep_copy=True)
            return src.clone()
        res = self._call(Result(kind, info={"source": src, "source_detached": list(self.detached)}), do)
        if not res.raised:
            self.model = res.info["ret"]
            self.detached = []
        return res

    def graph_attrs(self):
        """(node info, attribute name, position or None, graph) of every nested graph, walk order."""
        out = []
        for info in self.index().nodes:
            for name, attr in info.node.attributes.items():
                if not isinstance(attr, ir.Attr) or attr.is_ref():
                    continue
                if attr.type == GRAPH_T:
                    out.append((info, name, None, attr.value))
                elif attr.type == GRAPHS_T:
                    out += [(info, name, j, g) for j, g in enumerate(attr.value)]
        return out

    def _op_subclone(self, k, deep):
        """Replace a nested graph by its own clone (outer-scope references kept) in its node."""
        subs = self.graph_attrs()
        if not subs:
            return Result("subclone", skipped="no nested graph")
        info, name, pos, graph = subs[k % len(subs)]

        def do():
            new = graph.clone(allow_outer_scope_values=True, deep_copy=bool(deep))
            if pos is None:
                info.node.attributes[name] = ir.AttrGraph(name, new)
            else:
                graphs = list(info.node.attributes[name].value)
                graphs[pos] = new
                info.node.attributes[name] = ir.AttrGraphs(name, graphs)
            return new
        return self._call(Result("subclone-deep" if deep else "subclone", info={"node": info.node}), do)

    def _op_rmcfg(self, cfg_i, cascade, by_name):
        cfg = self.pick_cfg(cfg_i)
        if cfg is None:
            return Result("rmcfg", skipped="no configuration")
        kind = "rmcfg-cascade" if cascade else "rmcfg-nocascade"
        if by_name:
            kind += "-byname"
        refd = self.referenced(cfg)
        if not cascade and refd:
            return Result(kind, skipped="referenced: removal without cascade is documented to dangle")
        res = Result(kind, "valid", "referenced" if refd else "unreferenced", info={"cfg": cfg})
        return self._call(res, self.model.remove_device_configuration, cfg.name if by_name else cfg, cascade=cascade)

    def _op_rt(self, via):
        """``via``: 0/False in memory, 1/True through bytes, 2 through a file (ir.save / ir.load)."""
        res = Result("roundtrip", info={"source": self.model, "source_detached": list(self.detached)})

        def do():
            if via == 2:
                fd, path = tempfile.mkstemp(suffix=".onnx", dir=os.environ.get("VF_SHARD_TMP") or None)
                os.close(fd)
                try:
                    ir.save(self.model, path)
                    return ir.load(path)
                finally:
                    os.unlink(path)
            proto = ir.to_proto(self.model)
            if via:
                data = proto.SerializeToString()
                proto = onnx.ModelProto()
                proto.ParseFromString(data)
            return ir.from_proto(proto)
        self._call(res, do)
        if not res.raised:
            self.model = res.info["ret"]
            self.detached = []
        return res


# ------------------------------------------------------------------------------------------
# generator of operation descriptors
# ------------------------------------------------------------------------------------------
WEIGHTS = {"addcfg": 5, "shard": 34, "stage": 8, "rename": 7, "shadow": 5, "rin": 10, "rsi": 4, "rso": 6, "rauw": 5, "rm": 2,
           "clone": 5, "subclone": 2, "rmcfg": 4, "rt": 6}


class OpGen:
    def __init__(self, rng, world: C19World, hostile: float):
        self.rng, self.w, self.hostile = rng, world, hostile
        self.kinds = list(WEIGHTS)
        self.weights = [WEIGHTS[k] for k in self.kinds]
        self.initial_shadows = rng.choice([0, 0, 1, 2, 3])   # models that start with shadowed names

    def op(self) -> list:
        rng, w = self.rng, self.w
        if self.initial_shadows > 0:
            self.initial_shadows -= 1
            return ["shadow", rng.randrange(256), rng.randrange(64)]
        cfgs = w.model.device_configurations
        if not cfgs and rng.random() < 0.7:
            kind = "addcfg"
        else:
            kind = rng.choices(self.kinds, self.weights)[0]
        R = rng.randrange
        if kind == "addcfg":
            taken = {c.name for c in cfgs}
            free = [f"c{i}" for i in range(6) if f"c{i}" not in taken]
            name = rng.choice(free) if free and rng.random() > 0.05 * self.hostile else f"c{R(6)}"
            return ["addcfg", name, rng.choice([1, 2, 2, 3, 4]), rng.choice([0, 0, 1, 1, 2])]
        if kind == "shard":
            return self._shard()
        if kind == "stage":
            return ["stage", self._annotated_node_or_any(), R(8), rng.choice([0, 0, 1, 2, 3])]
        if kind == "rename":
            return ["rename", self._annotated_value_or_any()]
        if kind == "shadow":
            return ["shadow", self._annotated_value_or_any(), R(64)]
        if kind == "rin":
            return ["rin", self._annotated_node_or_any(), R(4), R(40)]
        if kind == "rsi":
            return ["rsi", self._annotated_node_or_any(), rng.choice([0, 1, 1, 2, 3, 4])]
        if kind == "rso":
            return ["rso", self._annotated_node_or_any(), rng.choice([0, 1, 1, 2, 3])]
        if kind == "rauw":
            return ["rauw", self._annotated_value_or_any(), R(40), rng.random() < 0.3]
        if kind == "rm":
            return ["rm", self._annotated_node_or_any()]
        if kind == "clone":
            return ["clone", rng.random() < 0.45, "parts" if rng.random() < 0.3 else "model"]
        if kind == "subclone":
            return ["subclone", R(16), rng.random() < 0.5]
        if kind == "rmcfg":
            return ["rmcfg", R(8), rng.random() < 0.8, rng.random() < 0.4]
        return ["rt", rng.choice([0, 0, 1, 1, 2])]

    # bias edits towards annotated nodes/values, where the property has something to say
    def _annotated_node_or_any(self):
        nodes = self.w.index().nodes
        if nodes and self.rng.random() < 0.6:
            ann = [i for i, info in enumerate(nodes) if info.node.device_configurations]
            if ann:
                return self.rng.choice(ann)
        return self.rng.randrange(64)

    def _annotated_value_or_any(self):
        idx = self.w.index()
        if idx.values and self.rng.random() < 0.6:
            ann = set()
            for info in idx.nodes:
                for dc in info.node.device_configurations:
                    for spec in dc.sharding_specs:
                        ann.add(id(spec.value))
            hits = [i for i, v in enumerate(idx.values) if id(v) in ann]
            if hits:
                return self.rng.choice(hits)
        return self.rng.randrange(256)

    def _shard(self):
        rng, w = self.rng, self.w
        nodes = w.index().nodes
        cfgs = w.model.device_configurations
        node_i = self._annotated_node_or_any() if rng.random() < 0.5 else rng.randrange(64)
        cfg_i = rng.randrange(8)
        sel = ["io", rng.randrange(8)] if rng.random() > 0.12 * self.hostile else ["foreign", rng.randrange(64)]
        axis = rng.choice([0, 1, -1, -2, 2])
        num_shards = rng.choice([1, 2, 2, 3, 4])
        stage = None
        info = w.pick_node(node_i)
        cfg = w.pick_cfg(cfg_i)
        if info is not None and cfg is not None:
            value = w.pick_value(info.node, sel)
            if value is not None:
                rank = rank_of(value)
                have, have_stage = [], None
                for dc in info.node.device_configurations:
                    if dc.configuration is cfg:
                        have_stage = dc.pipeline_stage
                        for spec in dc.sharding_specs:
                            if spec.value is value:
                                have += [d.axis for d in spec.sharded_dims]
                r = rng.random()
                h = self.hostile
                if r < 0.12 * h and rank is not None:
                    axis = rng.choice([rank, -rank - 1, rank + 3, -rank - 4])          # out of range
                elif r < 0.27 * h and have:
                    axis = rng.choice(have)                                             # repeated, same literal
                elif r < 0.45 * h and have and rank:
                    a = rng.choice(have)
                    axis = a - rank if a >= 0 else a + rank                              # repeated through the alias
                elif rank:
                    used = {a % rank for a in have}
                    free = [a for a in range(rank) if a not in used]
                    if free and rng.random() < 0.85:
                        a = rng.choice(free)
                        axis = a - rank if rng.random() < 0.45 else a
                    else:
                        axis = rng.randrange(-rank, rank)
                elif rank is None:
                    axis = rng.choice([0, 1, 2, 5, -1, -2, -3])
                if rng.random() < 0.09 * h:
                    num_shards = rng.choice([0, -1, -3])
                s = rng.random()
                if s < 0.12:
                    stage = have_stage if have_stage is not None else rng.choice([0, 1, 2])
                elif s < 0.12 + 0.14 * h and have_stage is not None:
                    stage = have_stage + rng.choice([1, 2])                              # conflicting
                elif s < 0.35:
                    stage = rng.choice([0, 1, 2, 3])
        del nodes, cfgs
        return ["shard", node_i, sel, cfg_i, axis, num_shards, [rng.randrange(8) for _ in range(rng.choice([0, 1, 2, 3]))], stage]
