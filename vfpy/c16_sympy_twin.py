"""C16 helper, used for *attribution* and for *constructing inputs* (never for a verdict).

Inputs: ``user_symbol``/``user_expr`` make what a user hands to ``SymbolicDim(<sympy.Expr>)`` - a
symbol with the assumptions the user chose, or a ring expression (+, -, *, unary minus) over
such symbols and integers.

Attribution: translate a tree / a Python AST
of the documented grammar faithfully into SymPy (symbols declared integer and positive, exactly
as the library documents them; ``a // b`` = ``floor(a / b)``, ``a % b`` = ``Mod(a, b)``) and ask
SymPy for the value.  When SymPy itself returns the same wrong value for the faithful
translation, the disagreement is rooted in SymPy's automatic evaluation (and is named so);
otherwise it is specific to how ``onnx_ir`` built, parsed, printed or substituted."""

from __future__ import annotations

import ast
from fractions import Fraction

import sympy


def _sym(name: str):
    return sympy.Symbol(name, integer=True, positive=True)


# what a user may declare on a symbol without contradicting a positive integer binding
USER_ASSUMPTIONS = {
    "plain": {},
    "int": {"integer": True},
    "pos": {"positive": True},
    "real": {"real": True},
    "nonneg-int": {"integer": True, "nonnegative": True},
    "lib": {"integer": True, "positive": True},  # the very object the library makes from text
}


def user_symbol(name: str, tag: str):
    return sympy.Symbol(name, **USER_ASSUMPTIONS[tag])


def user_expr(t):
    """The SymPy expression of a ``usym`` / ``uexpr`` node (ring operators only)."""
    return from_tree(t)


def from_tree(t):
    k = t[0]
    if k == "sym":
        return _sym(t[1])
    if k == "usym":
        return user_symbol(t[1], t[2])
    if k == "uexpr":
        return sympy.sympify(from_tree(t[1]))
    if k == "int":
        return sympy.Integer(t[1])
    a = [from_tree(c) for c in t[1:]]
    if k == "add":
        return a[0] + a[1]
    if k == "sub":
        return a[0] - a[1]
    if k == "mul":
        return a[0] * a[1]
    if k == "truediv":
        return a[0] / a[1]
    if k == "floordiv":
        return sympy.floor(a[0] / a[1])
    if k == "mod":
        return sympy.Mod(a[0], a[1])
    if k == "neg":
        return -a[0]
    if k == "floor":
        return sympy.floor(a[0])
    if k == "ceil":
        return sympy.ceiling(a[0])
    if k == "trunc":
        return sympy.sign(a[0]) * sympy.floor(sympy.Abs(a[0]))
    if k == "min":
        return sympy.Min(*a)
    if k == "max":
        return sympy.Max(*a)
    raise ValueError(k)


_FUNCS = {
    "max": sympy.Max, "Max": sympy.Max, "min": sympy.Min, "Min": sympy.Min, "floor": sympy.floor,
    "sqrt": sympy.sqrt, "mod": sympy.Mod, "Mod": sympy.Mod, "ceiling": sympy.ceiling,
    "Abs": sympy.Abs, "sign": sympy.sign,
}


def from_ast(node, names: dict[str, str]):
    """``names``: alias used in the Python text -> real symbol name."""
    if isinstance(node, ast.Expression):
        return from_ast(node.body, names)
    if isinstance(node, ast.Constant):
        return sympy.Integer(node.value)
    if isinstance(node, ast.Name):
        return _sym(names.get(node.id, node.id))
    if isinstance(node, ast.UnaryOp):
        return -from_ast(node.operand, names)
    if isinstance(node, ast.BinOp):
        l, r = from_ast(node.left, names), from_ast(node.right, names)
        op = node.op
        if isinstance(op, ast.Add):
            return l + r
        if isinstance(op, ast.Sub):
            return l - r
        if isinstance(op, ast.Mult):
            return l * r
        if isinstance(op, ast.Div):
            return l / r
        if isinstance(op, ast.FloorDiv):
            return sympy.floor(l / r)
        if isinstance(op, ast.Mod):
            return sympy.Mod(l, r)
        if isinstance(op, ast.Pow):
            return l**r
    if isinstance(node, ast.Call):
        return _FUNCS[node.func.id](*[from_ast(a, names) for a in node.args])
    raise ValueError(type(node).__name__)


def value(expr, bindings: dict[str, int], order: list[str] | None = None) -> Fraction | None:
    """Substitute by symbol name (optionally one symbol at a time in ``order``); a rational
    result as Fraction, anything else (unevaluated, complex, infinite) as None."""
    # several distinct symbols may carry one name (user-supplied ones with other assumptions)
    if order:
        for name in order:
            if name in bindings:
                expr = expr.subs({s: bindings[name] for s in expr.free_symbols if str(s) == name})
    expr = expr.subs({s: bindings[str(s)] for s in expr.free_symbols if str(s) in bindings})
    if getattr(expr, "is_Rational", False):
        return Fraction(int(expr.p), int(expr.q))
    return None


def simplified(expr):
    return sympy.simplify(expr)


ARITH = {
    "d+1": lambda x: x + 1,
    "3-d": lambda x: 3 - x,
    "d*2": lambda x: x * 2,
    "-d": lambda x: -x,
    "d//2": lambda x: sympy.floor(x / 2),
    "d%3": lambda x: sympy.Mod(x, 3),
    "d*1": lambda x: x * 1,
}
