"""Apply property-breaking patches (mutants/*.patch, seeded/<id>/patch.diff) to a scratch copy of
the repository outside /repo and /verif and require the named check to report a violation."""

from __future__ import annotations

import json
import os
import shutil
import subprocess
import tempfile
from pathlib import Path

ROOT = Path(os.environ.get("VF_ROOT") or Path(__file__).resolve().parent.parent)
REPO = os.environ.get("VF_REPO", "/repo")


def _cases(kind: str):
    if kind in ("all", "mutants"):
        for p in sorted((ROOT / "mutants").glob("*.patch")):
            # file name: C09-notify-one.patch
            yield p.stem, p.stem.split("-")[0].upper(), p
    if kind in ("all", "seeded"):
        for d in sorted((ROOT / "seeded").glob("*/")):
            meta = d / "meta.json"
            patch = d / "patch.diff"
            if meta.exists() and patch.exists():
                m = json.loads(meta.read_text())
                yield d.name, m["property"].upper(), patch


def _one(name, prop, patch, tier):
    scratch = Path(tempfile.mkdtemp(prefix="vf-selftest-"))
    wt = scratch / "repo"
    try:
        subprocess.check_call(
            ["git", "-C", REPO, "worktree", "add", "--detach", "--force", str(wt)],
            stdout=subprocess.DEVNULL, stderr=subprocess.DEVNULL,
        )
        # carry over uncommitted working-tree changes of the observed repository
        diff = subprocess.run(["git", "-C", REPO, "diff", "HEAD"], capture_output=True).stdout
        if diff.strip():
            subprocess.run(["git", "-C", str(wt), "apply"], input=diff, check=True)
        ap = subprocess.run(["git", "-C", str(wt), "apply", str(patch)], capture_output=True, text=True)
        if ap.returncode != 0:
            return name, prop, False, f"patch does not apply: {ap.stderr[-300:]}"
        env = dict(os.environ, VF_REPO=str(wt))
        proc = subprocess.run([str(ROOT / "vf"), "check", prop, tier], env=env, capture_output=True, text=True)
        caught = proc.returncode == 1 and "VIOLATION property=" in proc.stdout
        tail = "" if caught else "rc=%d " % proc.returncode + " | ".join(proc.stdout.strip().splitlines()[-4:])[-600:]
        return name, prop, caught, tail
    finally:
        subprocess.run(["git", "-C", REPO, "worktree", "remove", "--force", str(wt)],
                       stdout=subprocess.DEVNULL, stderr=subprocess.DEVNULL)
        shutil.rmtree(scratch, ignore_errors=True)


def main(names: list[str], tier: str, kind: str) -> int:
    from concurrent.futures import ThreadPoolExecutor

    jobs = int(os.environ.get("VF_SELFTEST_JOBS", "1"))
    todo = [(n, p, f) for n, p, f in _cases(kind)
            if not names or any(x.lower() in (n.lower(), p.lower()) for x in names)]
    failed = []
    with ThreadPoolExecutor(max_workers=max(1, jobs)) as ex:
        for name, prop, caught, tail in ex.map(lambda t: _one(t[0], t[1], t[2], tier), todo):
            print(f"[selftest] {name:60s} {prop} -> {'CAUGHT' if caught else 'MISSED'}", flush=True)
            if not caught:
                failed.append(name)
                print("    " + tail, flush=True)
    subprocess.run(["git", "-C", REPO, "worktree", "prune"])
    print(f"[selftest] ran={len(todo)} missed={len(failed)} {failed}")
    return 1 if failed else 0
