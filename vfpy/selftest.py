"""Apply property-breaking patches (mutants/*.patch, seeded/<id>/patch.diff) to a scratch copy of
the repository outside /repo and /verif and require the named check to report a violation."""

from __future__ import annotations

import json
import os
import shutil
import subprocess
import tempfile
from pathlib import Path

ROOT = Path(os.environ.get("VF_ROOT") or Path(__file__).resolve().parent.parent)
REPO = os.environ.get("VF_REPO", "/repo")


def _cases(kind: str):
    if kind in ("all", "mutants"):
        for p in sorted((ROOT / "mutants").glob("*.patch")):
            # file name: C09-notify-one.patch
            yield p.stem, p.stem.split("-")[0].upper(), p
    if kind in ("all", "seeded"):
        for d in sorted((ROOT / "seeded").glob("*/")):
            meta = d / "meta.json"
            patch = d / "patch.diff"
            if meta.exists() and patch.exists():
                m = json.loads(meta.read_text())
                yield d.name, m["property"].upper(), patch


def main(names: list[str], tier: str, kind: str) -> int:
    failed = []
    ran = 0
    for name, prop, patch in _cases(kind):
        if names and not any(n.lower() in (name.lower(), prop.lower()) for n in names):
            continue
        ran += 1
        scratch = Path(tempfile.mkdtemp(prefix="vf-selftest-"))
        try:
            subprocess.check_call(
                ["git", "-C", REPO, "worktree", "add", "--detach", "--force", str(scratch / "repo")],
                stdout=subprocess.DEVNULL, stderr=subprocess.DEVNULL,
            )
            wt = scratch / "repo"
            # carry over uncommitted working-tree changes of the observed repository
            diff = subprocess.run(["git", "-C", REPO, "diff", "HEAD"], capture_output=True).stdout
            if diff.strip():
                subprocess.run(["git", "-C", str(wt), "apply"], input=diff, check=True)
            subprocess.check_call(["git", "-C", str(wt), "apply", str(patch)])
            env = dict(os.environ, VF_REPO=str(wt))
            proc = subprocess.run(
                [str(ROOT / "vf"), "check", prop, tier], env=env, capture_output=True, text=True
            )
            caught = proc.returncode == 1 and "VIOLATION property=" in proc.stdout
            print(f"[selftest] {name:45s} {prop} -> {'CAUGHT' if caught else 'MISSED rc=%d' % proc.returncode}")
            if not caught:
                failed.append(name)
                print("    " + "\n    ".join(proc.stdout.strip().splitlines()[-6:]))
        finally:
            subprocess.run(["git", "-C", REPO, "worktree", "remove", "--force", str(scratch / "repo")],
                           stdout=subprocess.DEVNULL, stderr=subprocess.DEVNULL)
            shutil.rmtree(scratch, ignore_errors=True)
            subprocess.run(["git", "-C", REPO, "worktree", "prune"])
    print(f"[selftest] ran={ran} missed={len(failed)} {failed}")
    return 1 if failed else 0
