"""C03 helpers: models that were LOADED from a proto and then edited through the public API.

The statement quantifies over "any IR model built or edited through the public API".  A model that came
out of `from_proto` is such a model, and it differs from a freshly constructed one in what stands behind
its objects: tensors are proto-backed (`TensorProtoTensor` keeps the `TensorProto` it was read from),
metadata mappings / doc strings / names were initialised from proto fields.  What is serialised next must
be the IR state as the public accessors show it, not what the backing proto still holds.

Workload pieces (all through public API, all randomness from the rng handed in):

  * `decorate_tensors`  - tensors of every class (initializer payloads, TENSOR / TENSORS attributes) get
                          `metadata_props` entries and, where the class allows, a doc string;
  * `reload`            - to_proto -> (optionally bytes) -> from_proto: the model the edits start from;
  * `scrub`             - post-load edits: metadata mappings cleared / keys popped one by one / deleted /
                          re-valued / extended / replaced, doc strings emptied or changed, names of nodes,
                          graphs, tensors and values changed, model header fields reset, value types and
                          shapes dropped or replaced, initializer payloads replaced by a fresh tensor.

`tensor_observables` is the oracle-side description of every tensor of a model (for the "serialising
changes nothing" clause, which the universe snapshot covers only down to the tensor's identity and name).
"""

from __future__ import annotations

import hashlib

import numpy as np
import onnx
import onnx_ir as ir

from vfpy import c03_scopes

META_KEYS = ["origin", "k", "pkg.source", "quantized", "key2", "namespace", "ünicode"]
META_VALUES = ["v", "", "value 2", "checkpoint-17", "no", "line1\nline2"]
DOCS = [None, "", "edited doc", "doc"]
SIMPLE_NP = (np.float32, np.int64, np.int32, np.uint8, np.int8, np.float16, np.float64, np.bool_)


# ---- walking ------------------------------------------------------------------------------------------
def tensors(model: ir.Model) -> list[tuple[str, object, bool]]:
    """[(role, tensor, is_initializer_payload)] for every tensor reachable from the model, each object once
    (a tensor that is both an initializer payload and an attribute value is reported as initializer payload)."""
    found: dict[int, list] = {}

    def add(role, t, init):
        if t is None:
            return
        e = found.get(id(t))
        if e is None:
            found[id(t)] = [role, t, init]
        elif init and not e[2]:
            e[0], e[2] = role, True

    for g, _ in c03_scopes.scope_tree(model):
        for v in g.initializers.values():
            add("initializer", v.const_value, True)
        for n in g:
            for a in n.attributes.values():
                if isinstance(a, ir.Attr) and not a.is_ref() and a.value is not None:
                    if a.type == ir.AttributeType.TENSOR:
                        add("attribute", a.value, False)
                    elif a.type == ir.AttributeType.TENSORS:
                        for t in a.value:
                            add("attribute", t, False)
    return [tuple(e) for e in found.values()]


def _payload_digest(t) -> str:
    try:
        if t.dtype == ir.DataType.STRING:
            data = b"\0".join(bytes(x) for x in t.string_data()) if hasattr(t, "string_data") else \
                b"\0".join(bytes(x) for x in np.asarray(t.numpy()).flatten().tolist())
        else:
            data = t.tobytes()
        return hashlib.sha1(data).hexdigest()[:12]
    except Exception as e:  # noqa: BLE001 - a tensor that cannot be read is described by that fact
        return f"<{type(e).__name__}>"


def tensor_observables(model: ir.Model) -> list[tuple[str, dict]]:
    """Public observables of every tensor of the model, in walking order.  The own name of an initializer
    payload is left out (serialising may align it with the value's name; the universe snapshot judges that)."""
    out = []
    for role, t, init in tensors(model):
        d = {"class": type(t).__name__, "dtype": str(t.dtype), "shape": tuple(t.shape),
             "doc_string": t.doc_string, "metadata_props": dict(t.metadata_props), "payload": _payload_digest(t)}
        if not init:
            d["name"] = t.name
        out.append((role, d))
    return out


# ---- before loading: metadata on tensors -------------------------------------------------------------
def _entries(rng, n=None) -> dict[str, str]:
    return {rng.choice(META_KEYS): rng.choice(META_VALUES) for _ in range(n or rng.randint(1, 3))}


def decorate_tensors(model: ir.Model, rng, p=0.5) -> int:
    made = 0
    for _, t, _ in tensors(model):
        if rng.random() < p:
            t.metadata_props.update(_entries(rng))
            made += 1
        if rng.random() < 0.2:
            try:
                t.doc_string = rng.choice(["tensor doc", "another\ntensor doc"])
                made += 1
            except AttributeError:
                pass  # proto-backed tensors expose the proto's doc string read-only
    return made


# ---- loading -----------------------------------------------------------------------------------------
def reload(model: ir.Model, rng):
    """The model as a user gets it from a file / proto: `from_proto(to_proto(model))`, half of the time
    through the serialised bytes.  None if the library refuses (the caller then judges `model` itself)."""
    through_bytes = rng.random() < 0.5
    try:
        proto = ir.to_proto(model)
        if through_bytes:
            proto = onnx.ModelProto.FromString(proto.SerializeToString())
        return ir.from_proto(proto)
    except Exception:  # noqa: BLE001
        return None


# ---- after loading: edits ----------------------------------------------------------------------------
def _edit_mapping(m, rng, counts, what) -> None:
    had = len(m)
    ops = ["clear", "pop_all", "pop_one", "del_one", "revalue", "add", "replace"] if had else ["add", "replace", "clear"]
    op = rng.choice(ops)
    if op == "clear":
        m.clear()
    elif op == "pop_all":
        for k in list(m):
            m.pop(k)
    elif op == "pop_one":
        m.pop(rng.choice(sorted(m)))
    elif op == "del_one":
        del m[rng.choice(sorted(m))]
    elif op == "revalue":
        k = rng.choice(sorted(m))
        m[k] = m[k] + " (edited)" if rng.random() < 0.7 else ""
    elif op == "add":
        m[rng.choice(META_KEYS) + rng.choice(["", "_new"])] = rng.choice(META_VALUES)
    else:
        new = _entries(rng)
        m.clear()
        m.update(new)
    counts[f"{what}.metadata_props:{op}"] = counts.get(f"{what}.metadata_props:{op}", 0) + 1
    if had and not len(m):
        counts[f"{what}.metadata_props emptied"] = counts.get(f"{what}.metadata_props emptied", 0) + 1


def _edit_doc(obj, rng, counts, what) -> None:
    new = rng.choice(DOCS)
    try:
        obj.doc_string = new
    except AttributeError:
        counts[f"{what}.doc_string read-only"] = counts.get(f"{what}.doc_string read-only", 0) + 1
        return
    k = f"{what}.doc_string:" + ("emptied" if not new else "changed")
    counts[k] = counts.get(k, 0) + 1


def _new_type(rng):
    den = "TENSOR" if rng.random() < 0.15 else None
    r = rng.random()
    base = ir.TensorType(rng.choice([ir.DataType.FLOAT, ir.DataType.INT64, ir.DataType.BOOL, ir.DataType.BFLOAT16,
                                     ir.DataType.STRING]), denotation=den)
    if r < 0.75:
        return base
    if r < 0.9:
        return ir.SequenceType(base)
    return ir.OptionalType(base)


def _new_shape(rng):
    rank = rng.choice([0, 1, 2, 3])
    dims = [rng.choice([1, 2, 5, "M", "batch", None]) for _ in range(rank)]
    den = [rng.choice([None, "DATA_BATCH", "DATA_FEATURE"]) for _ in dims] if dims and rng.random() < 0.3 else None
    return ir.Shape(dims, denotations=den)


def scrub(model: ir.Model, rng, intensity=None) -> dict[str, int]:
    """Edit a (loaded) model through the public API; returns counts by edit kind.  Value renames are kept
    only while every reference keeps resolving lexically (c03_scopes.lexical_problems)."""
    counts: dict[str, int] = {}
    p = intensity if intensity is not None else rng.choice([0.15, 0.3, 0.6])
    tree = c03_scopes.scope_tree(model)
    graphs = [g for g, _ in tree]
    bodies = {id(f.graph) for f in model.functions.values()}

    # -- metadata mappings and doc strings of every holder
    holders: list[tuple[str, object]] = [("model", model)]
    holders += [("function", f) for f in model.functions.values()]
    for g in graphs:
        if id(g) not in bodies:
            holders.append(("graph", g))
        holders += [("node", n) for n in g]
        holders += [("value", v) for v in c03_scopes.owned(g) if v.name]
    tens = tensors(model)
    for what, obj in holders:
        if rng.random() < p:
            _edit_mapping(obj.metadata_props, rng, counts, what)
        if rng.random() < p / 2:
            _edit_doc(obj, rng, counts, what)
    for _, t, _ in tens:
        backed = "proto_tensor" if isinstance(t, ir.serde.TensorProtoTensor) else "tensor"
        if rng.random() < max(p, 0.5):
            _edit_mapping(t.metadata_props, rng, counts, backed)
        if rng.random() < p / 2:
            _edit_doc(t, rng, counts, backed)
        if rng.random() < p / 2:
            t.name = rng.choice([None, "", "renamed_tensor", "tname"])
            counts[f"{backed}.name"] = counts.get(f"{backed}.name", 0) + 1
    for g in graphs:
        for n in g:
            for a in n.attributes.values():
                if isinstance(a, ir.Attr) and rng.random() < p / 3:
                    _edit_doc(a, rng, counts, "attr")

    # -- names of nodes and graphs, header fields of the model
    for g in graphs:
        if id(g) not in bodies and rng.random() < p / 2:
            g.name = rng.choice([None, "", "renamed_graph"])
            counts["graph.name"] = counts.get("graph.name", 0) + 1
        for n in g:
            if rng.random() < p / 3:
                n.name = rng.choice([None, "", "renamed_node", "dupname"])
                counts["node.name"] = counts.get("node.name", 0) + 1
    for field, choices in (("producer_name", [None, "", "other"]), ("producer_version", [None, "", "2.0"]),
                           ("domain", [None, "", "other.dom"]), ("model_version", [None, 0, 7])):
        if rng.random() < p / 2:
            setattr(model, field, rng.choice(choices))
            counts["model." + field] = counts.get("model." + field, 0) + 1

    # -- types and shapes of values that are not initializers (an initializer's are implied by its tensor)
    for g in graphs:
        for v in c03_scopes.owned(g):
            if not v.name or v.is_initializer() or rng.random() >= p / 3:
                continue
            r = rng.random()
            if r < 0.35:
                v.shape = None
                v.type = None
                kind = "dropped"
            elif r < 0.7:
                v.type = _new_type(rng)
                v.shape = _new_shape(rng) if rng.random() < 0.7 else None
                kind = "replaced"
            elif v.type is not None:
                v.shape = _new_shape(rng) if rng.random() < 0.7 else None
                kind = "shape_only"
            else:
                continue
            counts["value.type_shape:" + kind] = counts.get("value.type_shape:" + kind, 0) + 1

    # -- initializer payloads replaced by a freshly built tensor of the same dtype and shape
    for g in graphs:
        for v in list(g.initializers.values()):
            t = v.const_value
            if t is None or rng.random() >= p / 4:
                continue
            try:
                arr = np.array(t.numpy())
            except Exception:  # noqa: BLE001
                continue
            if arr.dtype.type not in SIMPLE_NP or t.dtype.numpy() != arr.dtype:
                continue
            if arr.size:
                flat = arr.reshape(-1)
                flat[0] = (not flat[0]) if arr.dtype == np.bool_ else flat[0] + 1
            new = ir.Tensor(arr, name=rng.choice([v.name, None, "fresh_payload"]),
                            doc_string=rng.choice([None, "fresh doc"]),
                            metadata_props=_entries(rng) if rng.random() < 0.4 else None)
            v.const_value = new
            counts["initializer.payload replaced"] = counts.get("initializer.payload replaced", 0) + 1

    # -- value renames (fresh names; kept while the model stays representable)
    named = [v for g in graphs for v in c03_scopes.owned(g) if v.name]
    for i in range(rng.choice([0, 0, 1, 2, 3]) if named and not c03_scopes.lexical_problems(model) else 0):
        v = rng.choice(named)
        old, new = v.name, f"renamed_{i}_{rng.randrange(1000)}"
        try:
            v.name = new
        except ValueError:
            continue
        if c03_scopes.lexical_problems(model):
            v.name = old
        else:
            counts["value.name"] = counts.get("value.name", 0) + 1
    return counts


def stale_backing(model: ir.Model) -> dict[str, int]:
    """Counting only (never a verdict): proto-backed tensors whose public state differs from what the
    backing TensorProto holds - the states in which "serialise the IR, not the proto" matters."""
    out = {"proto_backed_tensors": 0, "metadata_emptied_vs_backing": 0, "metadata_differs_from_backing": 0}
    for _, t, _ in tensors(model):
        if not isinstance(t, ir.serde.TensorProtoTensor):
            continue
        out["proto_backed_tensors"] += 1
        held = {e.key: e.value for e in t.raw.metadata_props}
        now = dict(t.metadata_props)
        if held and not now:
            out["metadata_emptied_vs_backing"] += 1
        if held != now:
            out["metadata_differs_from_backing"] += 1
    return out
