"""Generator of WELL-FORMED ONNX protos built directly with protobuf (shared by C02, C17, C03).

Nothing here imports ``onnx_ir``; the protos are assembled field by field from ``onnx``'s generated
message classes, so they do not depend on the serializer under test.

Quick use::

    proto, used = gen_model(rng)                       # ModelProto, set of feature names used
    proto, used = gen_tensor(rng, features={"tensor_meta", "lowbit"}, ir_version=13)
    g = ProtoGen(rng, force={"functions", "overloads"}); m = g.model(); g.used; g.carriers

Every ``gen_*`` function draws an IR version in 3..13 (unless given) and toggles each *feature*
independently: a feature is enabled for the case with probability ``p_feature`` (always when listed
in ``force``, never when not in ``features`` or when the IR version predates it, see
``FEATURE_MIN_IR``), and an enabled feature is then applied at each site where it fits with a site
probability (>= 0.9 for forced features).  ``used`` contains the features that were actually applied somewhere in the returned
proto; ``ProtoGen.carriers`` the carrier kinds that occur in it (model, graph, function, node,
tensor, attribute, value_info, type).

Supported feature set (= what ``onnx_ir.serde`` supports; sparse tensors, map/opaque types,
training info and tensor segments are *not* generated): all attribute kinds except sparse tensors,
all 25 element types through every legal storage field (raw_data, float_data, int32_data with the
bit-cast fp16/bf16/fp8 and packed 4-bit/2-bit conventions, int64_data, uint64_data, double_data,
string_data), tensor doc strings / metadata, external_data entries (location/offset/length; nothing
is ever written to disk or read), tensor / sparse-tensor / sequence / optional types nested to depth
3 with the shape in the leaf, dims with dim_value / dim_param / neither and denotations, type
denotations at every level, nested subgraphs (GRAPH and GRAPHS attributes) capturing outer values,
sibling subgraphs reusing local names, model-local functions with overloads, attribute names,
attribute_proto defaults and ref_attr_name reference attributes, value_info, doc strings and
metadata_props on every carrier, quantization annotations, device configurations and node device
configurations (IR >= 11).

Well-formedness guaranteed by construction: value names unique per model (except the deliberate
sibling-subgraph reuse), node/attribute/metadata keys unique per owner, nodes in topological order,
every node input defined in a visible scope (stand-alone nodes/attributes/graphs may name outer
values that are not part of the message), every tensor type carries ``elem_type``, tensor payloads
have the element count implied by ``dims``, initializers are named, initializers are graph inputs
when IR < 4, value-info types of initializers agree with the tensor, fields are only used from the
IR version that introduced them.
"""

from __future__ import annotations

import math
import random
from typing import Iterable

import onnx

__all__ = [
    "KINDS", "ALL_FEATURES", "FEATURE_MIN_IR", "OUTSIDE_BACKEND_CORPUS", "DTYPES", "ProtoGen",
    "gen_model", "gen_graph", "gen_function", "gen_node", "gen_tensor", "gen_attribute",
    "gen_value_info", "gen_type",
]

#: message kinds ``ProtoGen.build`` can produce (the kinds ir.from_proto accepts)
KINDS = ("ModelProto", "GraphProto", "FunctionProto", "NodeProto", "TensorProto", "AttributeProto",
         "ValueInfoProto", "TypeProto")

TP = onnx.TensorProto
AP = onnx.AttributeProto

# name -> (enum value, first IR version, bit width, typed storage field, feature group)
DTYPES: dict[str, tuple[int, int, int, str, str]] = {
    "FLOAT": (1, 3, 32, "float_data", "base"),
    "UINT8": (2, 3, 8, "int32_data", "base"),
    "INT8": (3, 3, 8, "int32_data", "base"),
    "UINT16": (4, 3, 16, "int32_data", "base"),
    "INT16": (5, 3, 16, "int32_data", "base"),
    "INT32": (6, 3, 32, "int32_data", "base"),
    "INT64": (7, 3, 64, "int64_data", "base"),
    "STRING": (8, 3, 0, "string_data", "string_tensor"),
    "BOOL": (9, 3, 8, "int32_data", "base"),
    "FLOAT16": (10, 3, 16, "int32_data", "halfs"),
    "DOUBLE": (11, 3, 64, "double_data", "base"),
    "UINT32": (12, 3, 32, "uint64_data", "base"),
    "UINT64": (13, 3, 64, "uint64_data", "base"),
    "COMPLEX64": (14, 3, 64, "float_data", "complex"),
    "COMPLEX128": (15, 3, 128, "double_data", "complex"),
    "BFLOAT16": (16, 4, 16, "int32_data", "halfs"),
    "FLOAT8E4M3FN": (17, 9, 8, "int32_data", "float8"),
    "FLOAT8E4M3FNUZ": (18, 9, 8, "int32_data", "float8"),
    "FLOAT8E5M2": (19, 9, 8, "int32_data", "float8"),
    "FLOAT8E5M2FNUZ": (20, 9, 8, "int32_data", "float8"),
    "UINT4": (21, 10, 4, "int32_data", "lowbit"),
    "INT4": (22, 10, 4, "int32_data", "lowbit"),
    "FLOAT4E2M1": (23, 11, 4, "int32_data", "lowbit"),
    "FLOAT8E8M0": (24, 12, 8, "int32_data", "float8"),
    "UINT2": (25, 13, 2, "int32_data", "lowbit"),
    "INT2": (26, 13, 2, "int32_data", "lowbit"),
}
_DT_BY_ENUM = {v[0]: (k, *v) for k, v in DTYPES.items()}

ATTR_KINDS = {
    "attr_float": AP.FLOAT, "attr_int": AP.INT, "attr_string": AP.STRING, "attr_tensor": AP.TENSOR,
    "attr_graph": AP.GRAPH, "attr_floats": AP.FLOATS, "attr_ints": AP.INTS, "attr_strings": AP.STRINGS,
    "attr_tensors": AP.TENSORS, "attr_graphs": AP.GRAPHS, "attr_type_proto": AP.TYPE_PROTO,
    "attr_type_protos": AP.TYPE_PROTOS,
}

#: feature -> first IR version in which the construct exists (default 3)
FEATURE_MIN_IR: dict[str, int] = {
    "quant_annotation": 5, "sequence_type": 6, "optional_type": 8, "sparse_type": 8,
    "functions": 8, "ref_attrs": 8, "func_doc": 8, "func_attr_params": 8, "func_multi_opset": 8,
    "func_attr_defaults": 9, "float8": 9,
    "overloads": 10, "lowbit": 10, "tensor_meta": 10, "node_meta": 10, "graph_meta": 10,
    "func_meta": 10, "vi_meta": 10, "func_value_info": 10,
    "device_config": 11, "node_device_config": 11,
}

ALL_FEATURES: tuple[str, ...] = (
    # model
    "model_doc", "model_meta", "producer", "model_domain", "model_version", "ai_onnx_alias",
    "custom_domain", "functions", "overloads", "func_attr_params", "func_attr_defaults", "ref_attrs",
    "func_value_info", "func_doc", "func_meta", "func_multi_opset", "device_config",
    # graph
    "graph_doc", "graph_meta", "value_info", "vi_doc", "vi_meta", "untyped_value",
    "unreferenced_value_info", "quant_annotation", "initializers", "init_value_info", "init_as_input",
    "captures", "sibling_name_reuse", "passthrough_output", "shuffled_keyed_lists",
    # node
    "node_name", "node_doc", "node_meta", "optional_inputs", "empty_outputs",
    "trailing_empty_outputs", "node_device_config", "attr_doc",
    # attribute kinds
    *ATTR_KINDS, "attr_empty_lists", "nan_inf",
    # tensors
    "tensor_doc", "tensor_meta", "external", "typed_storage", "raw_storage", "lowbit", "float8",
    "halfs", "complex", "string_tensor", "empty_tensor", "scalar_tensor",
    # types
    "sparse_type", "sequence_type", "optional_type", "nested_type", "type_denotation",
    "dim_denotation", "dim_param", "dim_unknown", "no_shape", "scalar_shape",
)

#: features the ONNX backend corpus (what tests/serde_roundtrip_test.py covers) does not contain
OUTSIDE_BACKEND_CORPUS = frozenset({
    "tensor_meta", "overloads", "type_denotation", "dim_denotation", "nested_shape", "device_config",
    "node_device_config", "lowbit", "attr_doc", "node_meta", "graph_meta", "func_meta", "vi_meta",
    "quant_annotation", "ref_attrs", "func_value_info", "external", "tensor_doc", "vi_doc",
})

_OPS = ("Add", "Mul", "Relu", "Concat", "Split", "Identity", "Cast", "Clip", "Gemm", "Foo", "If", "Loop")
_TYPE_DENOTATIONS = ("TENSOR", "IMAGE", "AUDIO", "TEXT", "vendor.custom")
_DIM_DENOTATIONS = ("DATA_BATCH", "DATA_CHANNEL", "DATA_TIME", "DATA_FEATURE", "FILTER_IN_CHANNEL")
_DIM_PARAMS = ("N", "batch", "seq_len", "H", "W", "unk__1", "a*b", "n + 1")
_WORDS = ("alpha", "beta", "gamma", "delta", "kappa", "lambda", "omega", "sigma", "tau", "zeta")
_BINARY = (b"key\x00", b"\x00", b"\x00lead", b"mid\x00dle", b"two\x00\x00", b"\xff\xfe", b"a\x00b\x00")
_TEXT = ("", "x", "doc", "Some documentation.", "line1\nline2", "café 日本", "  spaced  ", "a\tb")


class ProtoGen:
    """One generation context: random source, IR version, enabled features, name allocator.

    Public builders (each returns a fresh message): ``build(kind)`` for a stand-alone message of
    any kind, or ``model()``, ``graph()``, ``function()``, ``node()``, ``tensor()``, ``attribute()``,
    ``value_info()``, ``type()`` to compose messages sharing one name allocator.
    After building, ``used`` is the set of features applied and ``carriers`` the carrier kinds
    present.
    """

    def __init__(
        self,
        rng: random.Random,
        features: Iterable[str] | None = None,
        *,
        force: Iterable[str] = (),
        ir_version: int | None = None,
        p_feature: float = 0.6,
        max_depth: int = 2,
    ) -> None:
        self.rng = rng
        if ir_version is None:
            # most constructs exist from IR 10 on; still visit every version
            ir_version = rng.randint(10, 13) if rng.random() < 0.6 else rng.randint(3, 9)
        self.ir_version = ir_version
        allowed = set(ALL_FEATURES if features is None else features)
        force = set(force)
        self.forced: set[str] = force
        self.enabled: set[str] = set()
        for f in ALL_FEATURES:  # fixed order: determinism
            draw = rng.random()
            if f not in allowed and f not in force:
                continue
            if FEATURE_MIN_IR.get(f, 3) > ir_version:
                continue
            if f in force or draw < p_feature:
                self.enabled.add(f)
        self.used: set[str] = set()
        self.carriers: set[str] = set()
        self.max_depth = max_depth
        self._counter = 0
        # context
        self._func_attrs: list[tuple[str, int]] | None = None  # inside a function body
        self._functions: list[dict] = []                       # callable model-local functions
        self._configs: list[str] = []                          # model device configuration names
        self._domains: dict[str, int] = {}                     # operator domains used -> version

    # ---- small helpers --------------------------------------------------------------------------
    def on(self, feature: str, p: float = 0.7) -> bool:
        """Site-level decision: apply an enabled feature here?  Forced features apply with p >= 0.9."""
        if feature in self.forced:
            p = max(p, 0.9)
        if feature in self.enabled and self.rng.random() < p:
            self.used.add(feature)
            return True
        return False

    def name(self, prefix: str = "v") -> str:
        self._counter += 1
        style = self._counter % 5
        n = self._counter
        return (f"{prefix}{n}", f"{prefix}_{n}", f"{prefix}.{n}", f"{prefix}:{n}", f"{prefix}/{n}")[style]

    def text(self) -> str:
        t = self.rng.choice(_TEXT)
        return t if t else f"doc {self.rng.randint(0, 999)}"

    def _meta(self, container, feature: str, p: float = 0.7) -> None:
        if not self.on(feature, p):
            return
        keys = self.rng.sample(_WORDS, self.rng.randint(1, 3))
        for k in keys:  # random (unsorted) order on purpose
            e = container.add()
            e.key = k
            e.value = self.rng.choice(_TEXT)

    def _dtypes(self, allow_string: bool = True) -> list[str]:
        groups = {"base"}
        for g in ("halfs", "complex", "float8", "lowbit", "string_tensor"):
            if g in self.enabled:
                groups.add(g)
        if not allow_string:
            groups.discard("string_tensor")
        return [k for k, v in DTYPES.items() if v[4] in groups and v[1] <= self.ir_version]

    def _pick_dtype(self, allow_string: bool = True) -> str:
        names = self._dtypes(allow_string)
        by_group: dict[str, list[str]] = {}
        for n in names:
            by_group.setdefault(DTYPES[n][4], []).append(n)
        forced = sorted(g for g in by_group if g in self.forced)
        draw = self.rng.random()
        group = self.rng.choice(forced) if forced and draw < 0.85 else self.rng.choice(sorted(by_group))
        if group != "base":
            self.used.add(group)
        return self.rng.choice(by_group[group])

    def _domain(self) -> str:
        """Operator domain of a plain node: default domain (spelled '' or the alias) or a custom one."""
        if self.on("custom_domain", 0.25):
            d = self.rng.choice(("com.example", "vendor.ops"))
            self._domains.setdefault(d, self.rng.randint(1, 5))
            return d
        self._domains.setdefault("", self.rng.randint(13, 23))
        if self.on("ai_onnx_alias", 0.5):
            return "ai.onnx"
        return ""

    # ---- types ----------------------------------------------------------------------------------
    def type(self, *, depth: int = 0, tensor_only: bool = False) -> onnx.TypeProto:
        tp = onnx.TypeProto()
        self._type_into(tp, depth=depth, tensor_only=tensor_only)
        return tp

    def _type_into(self, tp: onnx.TypeProto, *, depth: int = 0, tensor_only: bool = False, wrapped: bool = False) -> None:
        self.carriers.add("type")
        if self.on("type_denotation", 0.5):
            tp.denotation = self.rng.choice(_TYPE_DENOTATIONS)
        wrappers = []
        if not tensor_only and (depth == 0 or "nested_type" in self.enabled) and depth < 3:
            if "sequence_type" in self.enabled:
                wrappers.append("sequence_type")
            if "optional_type" in self.enabled:
                wrappers.append("optional_type")
        if wrappers and self.rng.random() < (0.45 if depth == 0 else 0.4):
            w = self.rng.choice(wrappers)
            self.used.add(w)
            if depth >= 1:
                self.used.add("nested_type")
            self._type_into(getattr(tp, w).elem_type, depth=depth + 1, wrapped=True)
            return
        if not tensor_only and self.on("sparse_type", 0.3):
            leaf = tp.sparse_tensor_type
        else:
            leaf = tp.tensor_type
        leaf.elem_type = DTYPES[self._pick_dtype()][0]
        if self.on("no_shape", 0.3):
            return
        if wrapped:
            self.used.add("nested_shape")
        self._shape_into(leaf.shape)

    def _shape_into(self, shape: onnx.TensorShapeProto) -> None:
        rank = 0 if self.on("scalar_shape", 0.25) else self.rng.randint(1, 4)
        shape.SetInParent()  # a rank-0 shape is present but empty
        for _ in range(rank):
            d = shape.dim.add()
            if self.on("dim_param", 0.4):
                d.dim_param = self.rng.choice(_DIM_PARAMS)
            elif self.on("dim_unknown", 0.3):
                pass  # neither dim_value nor dim_param
            else:
                d.dim_value = self.rng.choice((0, 1, 2, 3, 7, 64, 224, 2**33))
            if self.on("dim_denotation", 0.5):
                d.denotation = self.rng.choice(_DIM_DENOTATIONS)

    # ---- value info -----------------------------------------------------------------------------
    def value_info(self, name: str | None = None) -> onnx.ValueInfoProto:
        vi = onnx.ValueInfoProto()
        self._value_info_into(vi, name or self.name(), may_be_untyped=True)
        return vi

    def _value_info_into(self, vi: onnx.ValueInfoProto, name: str, *, for_tensor: onnx.TensorProto | None = None,
                         may_be_untyped: bool = False) -> None:
        """``may_be_untyped``: graph inputs/outputs may be declared by name only; an entry of a
        ``value_info`` list always carries a type (a name-only entry says nothing about the value)."""
        self.carriers.add("value_info")
        vi.name = name
        if for_tensor is not None:
            # type/shape of an initializer: must agree with the tensor
            tt = vi.type.tensor_type
            tt.elem_type = for_tensor.data_type
            tt.shape.SetInParent()
            for d in for_tensor.dims:
                dim = tt.shape.dim.add()
                dim.dim_value = d
                if self.on("dim_denotation", 0.3):
                    dim.denotation = self.rng.choice(_DIM_DENOTATIONS)
            if self.on("type_denotation", 0.3):
                vi.type.denotation = "TENSOR"
        elif not (may_be_untyped and self.on("untyped_value", 0.15)):
            self._type_into(vi.type)
        if self.on("vi_doc", 0.5):
            vi.doc_string = self.text()
        self._meta(vi.metadata_props, "vi_meta", 0.5)

    # ---- tensors --------------------------------------------------------------------------------
    def tensor(self, name: str | None = None, *, named: bool = True, allow_external: bool = True) -> onnx.TensorProto:
        t = onnx.TensorProto()
        self._tensor_into(t, name if name is not None else (self.name("t") if named else None),
                          allow_external=allow_external)
        return t

    def _tensor_into(self, t: onnx.TensorProto, name: str | None, *, allow_external: bool = True) -> None:
        rng = self.rng
        self.carriers.add("tensor")
        if name:
            t.name = name
        dt_name = self._pick_dtype()
        enum, _min_ir, bits, typed_field, _group = DTYPES[dt_name]
        t.data_type = enum
        if self.on("scalar_tensor", 0.3):
            dims: list[int] = []
        else:
            dims = [rng.randint(1, 3) for _ in range(rng.randint(1, 3))]
            if self.on("empty_tensor", 0.2):
                dims[rng.randrange(len(dims))] = 0
        t.dims.extend(dims)
        n = math.prod(dims)
        if self.on("tensor_doc", 0.5):
            t.doc_string = self.text()
        self._meta(t.metadata_props, "tensor_meta", 0.6)

        if dt_name == "STRING":
            for _ in range(n):
                if rng.random() < 0.35:
                    # string tensors hold BYTES: trailing / leading / interior NULs, non-UTF-8
                    t.string_data.append(rng.choice(_BINARY))
                else:
                    t.string_data.append(rng.choice(_TEXT).encode("utf-8"))
            return
        if allow_external and self.on("external", 0.25):
            t.data_location = TP.EXTERNAL
            entries = [("location", rng.choice(("weights.bin", "data/w.bin", f"ext_{rng.randint(0, 99)}.data")))]
            if rng.random() < 0.7:
                entries.append(("offset", str(rng.choice((0, 64, 4096, rng.randint(1, 10**6))))))
            if rng.random() < 0.7:
                # an empty tensor legitimately records length 0 (onnx.save_model with external data does)
                entries.append(("length", str((n * max(bits, 1) + 7) // 8)))
            if self.on("shuffled_keyed_lists", 0.5):
                rng.shuffle(entries)
            for k, v in entries:
                e = t.external_data.add()
                e.key = k
                e.value = v
            return
        typed_ok = "typed_storage" in self.enabled
        raw_ok = "raw_storage" in self.enabled or not typed_ok
        p_typed = 0.9 if "typed_storage" in self.forced and "raw_storage" not in self.forced else 0.5
        use_typed = typed_ok and (not raw_ok or rng.random() < p_typed)
        if use_typed:
            self.used.add("typed_storage")
            self._typed_payload(t, dt_name, n)
        else:
            self.used.add("raw_storage")
            t.raw_data = rng.randbytes((n * bits + 7) // 8) if n else b""
            if dt_name == "BOOL":
                t.raw_data = bytes(b & 1 for b in t.raw_data)

    def _float_values(self, count: int) -> list[float]:
        rng = self.rng
        pool = [0.0, 1.0, -1.5, 0.1, 3.4e38, 1e-42, 65504.0, -123456.789]
        if self.on("nan_inf", 0.6):
            pool += [float("nan"), float("inf"), float("-inf"), -0.0]
        return [rng.choice(pool) if rng.random() < 0.6 else rng.uniform(-1e3, 1e3) for _ in range(count)]

    def _typed_payload(self, t: onnx.TensorProto, dt_name: str, n: int) -> None:
        rng = self.rng
        _enum, _ir, bits, field, _group = DTYPES[dt_name]
        if field == "float_data":
            count = n * (2 if dt_name == "COMPLEX64" else 1)
            vals = self._float_values(count)  # stored as float32 by protobuf
            t.float_data.extend(vals)
        elif field == "double_data":
            t.double_data.extend(self._float_values(n * (2 if dt_name == "COMPLEX128" else 1)))
        elif field == "int64_data":
            t.int64_data.extend(rng.choice((0, 1, -1, 2**63 - 1, -(2**63), rng.randint(-10**9, 10**9))) for _ in range(n))
        elif field == "uint64_data":
            hi = 2**32 - 1 if dt_name == "UINT32" else 2**64 - 1
            t.uint64_data.extend(rng.choice((0, 1, hi, rng.randint(0, hi))) for _ in range(n))
        elif field == "int32_data":
            if bits in (2, 4):
                self.used.add("lowbit")
                count = (n * bits + 7) // 8        # packed: 8/bits elements per byte, one byte per entry
                t.int32_data.extend(rng.randint(0, 255) for _ in range(count))
            elif dt_name == "BOOL":
                t.int32_data.extend(rng.randint(0, 1) for _ in range(n))
            elif dt_name == "INT32":
                t.int32_data.extend(rng.choice((0, -1, 2**31 - 1, -(2**31), rng.randint(-10**6, 10**6))) for _ in range(n))
            elif dt_name in ("INT8", "INT16"):
                lim = 2 ** (bits - 1)
                t.int32_data.extend(rng.randint(-lim, lim - 1) for _ in range(n))
            else:  # unsigned ints and bit-cast fp16 / bf16 / fp8
                t.int32_data.extend(rng.randint(0, 2**bits - 1) for _ in range(n))
        else:  # pragma: no cover
            raise AssertionError(field)

    # ---- attributes -----------------------------------------------------------------------------
    def _attr_kinds(self, depth: int) -> list[str]:
        kinds = [k for k in ATTR_KINDS if k in self.enabled]
        if depth >= self.max_depth:
            kinds = [k for k in kinds if k not in ("attr_graph", "attr_graphs")]
        return kinds

    def attribute(self, name: str | None = None, kind: str | None = None, *, depth: int = 0,
                  visible: list[str] | None = None) -> onnx.AttributeProto:
        """One AttributeProto.  ``kind`` is a key of ``ATTR_KINDS`` (default: random enabled kind;
        falls back to ``attr_int`` when none is enabled)."""
        a = onnx.AttributeProto()
        kinds = self._attr_kinds(depth)
        if kind is None:
            kind = self.rng.choice(kinds) if kinds else "attr_int"
        self._attribute_into(a, name or self.rng.choice(_WORDS), kind, depth=depth, visible=visible or [])
        return a

    def _attribute_into(self, a: onnx.AttributeProto, name: str, kind: str, *, depth: int, visible: list[str]) -> None:
        rng = self.rng
        self.carriers.add("attribute")
        self.used.add(kind)
        a.name = name
        a.type = ATTR_KINDS[kind]
        if self.on("attr_doc", 0.6):
            a.doc_string = self.text()
        empty = self.on("attr_empty_lists", 0.15)
        if kind == "attr_float":
            a.f = self._float_values(1)[0] if rng.random() < 0.8 else 0.0
        elif kind == "attr_int":
            a.i = rng.choice((0, 1, -1, 2**63 - 1, -(2**63), rng.randint(-1000, 1000)))
        elif kind == "attr_string":
            a.s = rng.choice(_TEXT).encode("utf-8")
        elif kind == "attr_floats":
            if not empty:
                a.floats.extend(self._float_values(rng.randint(1, 4)))
        elif kind == "attr_ints":
            if not empty:
                a.ints.extend(rng.randint(-5, 2**40) for _ in range(rng.randint(1, 4)))
        elif kind == "attr_strings":
            if not empty:
                a.strings.extend(rng.choice(_TEXT).encode("utf-8") for _ in range(rng.randint(1, 3)))
        elif kind == "attr_tensor":
            self._tensor_into(a.t, self.name("c") if rng.random() < 0.5 else None)
        elif kind == "attr_tensors":
            if not empty:
                for _ in range(rng.randint(1, 2)):
                    self._tensor_into(a.tensors.add(), self.name("c") if rng.random() < 0.5 else None)
        elif kind == "attr_graph":
            self._graph_into(a.g, depth=depth + 1, outer=visible)
        elif kind == "attr_graphs":
            if not empty:
                self._sibling_graphs([a.graphs.add() for _ in range(rng.randint(1, 2))], depth, visible)
        elif kind == "attr_type_proto":
            self._type_into(a.tp)
        elif kind == "attr_type_protos":
            if not empty:
                for _ in range(rng.randint(1, 3)):
                    self._type_into(a.type_protos.add())
        else:  # pragma: no cover
            raise AssertionError(kind)

    def _sibling_graphs(self, graphs: list[onnx.GraphProto], depth: int, visible: list[str]) -> None:
        """Subgraphs of one node; with ``sibling_name_reuse`` they reuse the same local names."""
        reuse = len(graphs) > 1 and self.on("sibling_name_reuse", 0.6)
        start = self._counter
        high = start
        for g in graphs:
            if reuse:
                self._counter = start
            self._graph_into(g, depth=depth + 1, outer=visible)
            high = max(high, self._counter)
        self._counter = high

    # ---- nodes ----------------------------------------------------------------------------------
    def node(self, *, visible: list[str] | None = None, depth: int = 0) -> onnx.NodeProto:
        n = onnx.NodeProto()
        if visible is None:
            visible = [self.name("x") for _ in range(self.rng.randint(0, 3))]
        self._node_into(n, visible=visible, depth=depth)
        return n

    def _node_into(self, n: onnx.NodeProto, *, visible: list[str], depth: int) -> list[str]:
        rng = self.rng
        self.carriers.add("node")
        call = None
        if self._functions and rng.random() < 0.4:
            call = rng.choice(self._functions)
            self.used.add("functions")
            n.op_type = call["name"]
            if call["domain"]:
                n.domain = call["domain"]
            if call["overload"]:
                n.overload = call["overload"]
                self.used.add("overloads")
            self._domains.setdefault(call["domain"], 1)
        else:
            n.op_type = rng.choice(_OPS)
            d = self._domain()
            if d:
                n.domain = d
        if self.on("node_name", 0.7):
            n.name = self.name("node")
        if self.on("node_doc", 0.5):
            n.doc_string = self.text()
        self._meta(n.metadata_props, "node_meta", 0.5)

        n_in = call["n_in"] if call else rng.randint(0, 3)
        inputs = []
        for _ in range(n_in):
            if visible and not self.on("optional_inputs", 0.2):
                inputs.append(rng.choice(visible))
            elif "optional_inputs" in self.enabled:
                self.used.add("optional_inputs")
                inputs.append("")  # an omitted optional input
        n.input.extend(inputs)
        n_out = call["n_out"] if call else rng.randint(1, 3)
        outs = [self.name() for _ in range(max(1, n_out))]
        listed = list(outs)
        if len(listed) >= 2 and self.on("empty_outputs", 0.3):
            k = rng.randrange(len(listed) - 1)
            listed[k] = ""
            outs = [o for o in listed if o]
        if self.on("trailing_empty_outputs", 0.3):
            listed += [""] * rng.randint(1, 2)
        n.output.extend(listed)

        # attributes (unique names per node)
        kinds = self._attr_kinds(depth)
        names = rng.sample(_WORDS, rng.randint(0, 3)) if kinds or self._func_attrs else []
        for an in names:
            if self._func_attrs and self.on("ref_attrs", 0.5):
                ref, ty = rng.choice(self._func_attrs)
                a = n.attribute.add()
                self.carriers.add("attribute")
                a.name = an
                a.ref_attr_name = ref
                a.type = ty
                if self.on("attr_doc", 0.5):
                    a.doc_string = self.text()
            elif kinds:
                self._attribute_into(n.attribute.add(), an, rng.choice(kinds), depth=depth, visible=visible)
        if self._configs and self.on("node_device_config", 0.5):
            self._node_device_configs(n, [x for x in inputs if x] + outs)
        return outs

    def _node_device_configs(self, n: onnx.NodeProto, tensors: list[str]) -> None:
        rng = self.rng
        for cid in rng.sample(self._configs, rng.randint(1, len(self._configs))):
            c = n.device_configurations.add()
            c.configuration_id = cid
            if rng.random() < 0.6:
                c.pipeline_stage = rng.randint(0, 3)
            for tname in rng.sample(tensors, min(len(tensors), rng.randint(0, 2))):
                s = c.sharding_spec.add()
                s.tensor_name = tname
                s.device.extend(rng.choice((0, 1, 2, -1)) for _ in range(rng.randint(0, 3)))
                for _ in range(rng.randint(0, 2)):
                    e = s.index_to_device_group_map.add()
                    e.key = rng.randint(-3, -1)
                    e.value.extend(rng.randint(0, 3) for _ in range(rng.randint(0, 3)))
                for axis in rng.sample(range(-2, 3), rng.randint(0, 2)):
                    sd = s.sharded_dim.add()
                    sd.axis = axis
                    for _ in range(rng.randint(0, 2)):
                        ss = sd.simple_sharding.add()
                        r = rng.random()
                        if r < 0.4:
                            ss.dim_value = rng.choice((0, 4, 1024))
                        elif r < 0.7:
                            ss.dim_param = rng.choice(_DIM_PARAMS)
                        ss.num_shards = rng.randint(1, 4)

    # ---- graphs ---------------------------------------------------------------------------------
    def graph(self, *, outer: list[str] | None = None, depth: int = 0) -> onnx.GraphProto:
        g = onnx.GraphProto()
        self._graph_into(g, depth=depth, outer=outer or [])
        return g

    def _graph_into(self, g: onnx.GraphProto, *, depth: int, outer: list[str]) -> None:
        rng = self.rng
        self.carriers.add("graph")
        g.name = self.name("graph")
        if self.on("graph_doc", 0.5):
            g.doc_string = self.text()
        self._meta(g.metadata_props, "graph_meta", 0.5)
        local: list[str] = []
        inputs: list[str] = []
        for _ in range(rng.randint(1 if depth == 0 else 0, 3 if depth == 0 else 2)):
            nm = self.name("in")
            self._value_info_into(g.input.add(), nm, may_be_untyped=True)
            inputs.append(nm)
            local.append(nm)
        init_names: list[str] = []
        annotatable: list[str] = list(inputs)
        if self.on("initializers", 0.8):
            for _ in range(rng.randint(1, 3)):
                nm = self.name("w")
                t = g.initializer.add()
                self._tensor_into(t, nm)
                init_names.append(nm)
                local.append(nm)
                annotatable.append(nm)
                if self.ir_version < 4 or self.on("init_as_input", 0.3):
                    # IR 3 requires initializers to be graph inputs
                    self._value_info_into(g.input.add(), nm, for_tensor=t)
                    inputs.append(nm)
                elif self.on("init_value_info", 0.5):
                    self._value_info_into(g.value_info.add(), nm, for_tensor=t)
        visible_outer = list(outer) if (outer and "captures" in self.enabled) else []
        if visible_outer:
            self.used.add("captures")
        node_outs: list[str] = []
        for _ in range(rng.randint(1, 4 if depth == 0 else 2)):
            outs = self._node_into(g.node.add(), visible=visible_outer + local, depth=depth)
            node_outs.extend(outs)
            local.extend(outs)
        graph_outs = rng.sample(node_outs, min(len(node_outs), rng.randint(1, 2)))
        for nm in graph_outs:
            self._value_info_into(g.output.add(), nm, may_be_untyped=True)
        with_entry = {v.name for v in g.value_info}
        passable = inputs + [nm for nm in init_names if nm not in inputs and nm not in with_entry]
        if passable and self.on("passthrough_output", 0.3):
            # a graph output that is directly a graph input or an initializer
            pick = rng.choice(passable)
            if pick in inputs:
                src = next(v for v in g.input if v.name == pick)
                g.output.add().CopyFrom(src)  # the same value: identical declaration
            else:
                tensor = next(t for t in g.initializer if t.name == pick)
                self._value_info_into(g.output.add(), pick, for_tensor=tensor)
        annotatable += node_outs
        for nm in node_outs:
            if nm not in graph_outs and self.on("value_info", 0.5):
                self._value_info_into(g.value_info.add(), nm)
        if self.on("unreferenced_value_info", 0.4):
            self._value_info_into(g.value_info.add(), self.name("ghost"))
        if len(g.value_info) > 1:
            order = list(g.value_info)
            rng.shuffle(order)
            copies = [onnx.ValueInfoProto() for _ in order]
            for c, o in zip(copies, order):
                c.CopyFrom(o)
            del g.value_info[:]
            g.value_info.extend(copies)
        if annotatable and self.on("quant_annotation", 0.7):
            chosen = [nm for nm in annotatable if rng.random() < 0.4] or [annotatable[0]]
            chosen = list(dict.fromkeys(chosen))
            shuffle = self.on("shuffled_keyed_lists", 0.5)
            if shuffle:
                rng.shuffle(chosen)
            for nm in chosen:
                ann = g.quantization_annotation.add()
                ann.tensor_name = nm
                keys = rng.sample(("SCALE_TENSOR", "ZERO_POINT_TENSOR", "AXIS_HINT"), rng.randint(1, 3))
                if not shuffle:
                    keys.sort()
                for k in keys:
                    e = ann.quant_parameter_tensor_names.add()
                    e.key = k
                    e.value = rng.choice(init_names) if init_names and rng.random() < 0.6 else f"{nm}_{k.lower()}"

    # ---- functions ------------------------------------------------------------------------------
    def function(self, *, domain: str | None = None, name: str | None = None, overload: str = "") -> onnx.FunctionProto:
        f = onnx.FunctionProto()
        self._function_into(f, domain if domain is not None else self.rng.choice(("custom.fn", "local", "com.example")),
                            name or self.name("Fn").replace("/", "_").replace(":", "_"), overload)
        return f

    def _function_into(self, f: onnx.FunctionProto, domain: str, name: str, overload: str) -> dict:
        rng = self.rng
        self.carriers.add("function")
        f.name = name
        if domain:
            f.domain = domain
        if overload:
            f.overload = overload
            self.used.add("overloads")
        if self.on("func_doc", 0.6):
            f.doc_string = self.text()
        self._meta(f.metadata_props, "func_meta", 0.6)
        inputs = [self.name("fi") for _ in range(rng.randint(0, 3))]
        f.input.extend(inputs)
        attr_names = rng.sample(("axis", "mode", "scale", "body", "kind", "eps"), rng.randint(0, 4))
        func_attrs: list[tuple[str, int]] = []
        kinds = [k for k in self._attr_kinds(self.max_depth)] or ["attr_int"]
        for an in attr_names:
            if self.on("func_attr_defaults", 0.5):
                kind = rng.choice(kinds)
                self._attribute_into(f.attribute_proto.add(), an, kind, depth=self.max_depth, visible=[])
                func_attrs.append((an, ATTR_KINDS[kind]))
            elif self.on("func_attr_params", 0.8):
                f.attribute.append(an)
                func_attrs.append((an, rng.choice(list(ATTR_KINDS.values()))))
        saved = (self._func_attrs, self._domains)
        self._func_attrs = func_attrs or None
        self._domains = {}
        local = list(inputs)
        node_outs: list[str] = []
        for _ in range(rng.randint(1, 3)):
            outs = self._node_into(f.node.add(), visible=local, depth=0)
            node_outs.extend(outs)
            local.extend(outs)
        f.output.extend(rng.sample(node_outs, min(len(node_outs), rng.randint(1, 2))))
        if inputs and self.on("passthrough_output", 0.2):
            f.output.append(rng.choice(inputs))  # a function output that is directly an input
        domains = self._domains
        self._func_attrs, self._domains = saved
        domains.setdefault("", rng.randint(13, 23))
        if self.on("func_multi_opset", 0.5):
            domains.setdefault("com.extra", rng.randint(1, 3))
        self._opsets_into(f.opset_import, domains)
        if "func_value_info" in self.enabled:
            for nm in inputs + node_outs:
                if self.on("func_value_info", 0.5):
                    self._value_info_into(f.value_info.add(), nm)
            if f.value_info and self.on("unreferenced_value_info", 0.3):
                self._value_info_into(f.value_info.add(), self.name("ghost"))
        return {"domain": domain, "name": name, "overload": overload, "n_in": len(inputs), "n_out": len(f.output)}

    def _opsets_into(self, container, domains: dict[str, int]) -> None:
        items = list(domains.items())
        self.rng.shuffle(items)
        for d, v in items:
            e = container.add()
            if d == "" and self.on("ai_onnx_alias", 0.5):
                e.domain = "ai.onnx"
            elif d:
                e.domain = d
            e.version = v

    # ---- model ----------------------------------------------------------------------------------
    def model(self) -> onnx.ModelProto:
        rng = self.rng
        m = onnx.ModelProto()
        self.carriers.add("model")
        m.ir_version = self.ir_version
        if self.on("producer", 0.8):
            m.producer_name = rng.choice(("vfpy", "pytorch", "tf2onnx"))
            m.producer_version = rng.choice(("1.0", "2.7.1+cu121", "0"))
        if self.on("model_domain", 0.7):
            m.domain = rng.choice(("com.example.models", "ai.vision"))
        if self.on("model_version", 0.7):
            m.model_version = rng.choice((1, 7, 2**40))
        if self.on("model_doc", 0.7):
            m.doc_string = self.text()
        self._meta(m.metadata_props, "model_meta", 0.8)
        if self.on("device_config", 0.8):
            for cname in rng.sample(("mesh2", "pipeline", "tp4"), rng.randint(1, 2)):
                c = m.configuration.add()
                c.name = cname
                c.num_devices = rng.randint(1, 4)
                if rng.random() < 0.6:
                    c.device.extend(f"dev{i}" for i in range(c.num_devices))
                self._configs.append(cname)
        if self.on("functions", 0.8):
            ids: list[tuple[str, str, str]] = []
            for _ in range(rng.randint(1, 3)):
                if ids and self.on("overloads", 0.6):
                    d, nm, _ov = rng.choice(ids)
                    ov = rng.choice([o for o in ("v2", "fp16", "b") if (d, nm, o) not in ids])
                else:
                    d = rng.choice(("custom.fn", "local", "com.example"))
                    nm = f"Fn{len(ids)}"
                    ov = "a" if self.on("overloads", 0.3) else ""
                ids.append((d, nm, ov))
                info = self._function_into(m.functions.add(), d, nm, ov)
                self._functions.append(info)
                self._domains.setdefault(d, 1)
        self._graph_into(m.graph, depth=0, outer=[])
        self._domains.setdefault("", rng.randint(13, 23))
        self._opsets_into(m.opset_import, self._domains)
        return m

    # ---- any kind -------------------------------------------------------------------------------
    def build(self, kind: str):
        """A stand-alone message of the given kind (one of ``KINDS``)."""
        rng = self.rng
        if kind == "ModelProto":
            return self.model()
        if kind == "GraphProto":
            return self.graph(outer=[self.name("outer") for _ in range(rng.randint(0, 2))])
        if kind == "FunctionProto":
            return self.function(overload="ov1" if self.on("overloads", 0.6) else "")
        if kind == "NodeProto":
            if self.on("node_device_config", 1.0):
                self._configs = ["mesh2", "tp4"]  # stand-alone node: the ids name no model
            return self.node()
        if kind == "TensorProto":
            return self.tensor(named=rng.random() < 0.8)
        if kind == "AttributeProto":
            if self.ir_version >= 8 and rng.random() < 0.15:  # a reference attribute on its own
                a = onnx.AttributeProto()
                a.name = rng.choice(_WORDS)
                a.ref_attr_name = rng.choice(("axis", "mode", "body"))
                a.type = rng.choice(list(ATTR_KINDS.values()))
                if self.on("attr_doc", 0.6):
                    a.doc_string = self.text()
                self.used.add("ref_attrs")
                self.carriers.add("attribute")
                return a
            return self.attribute(visible=[self.name("outer") for _ in range(2)])
        if kind == "ValueInfoProto":
            return self.value_info()
        if kind == "TypeProto":
            return self.type()
        raise ValueError(f"unknown message kind {kind!r}; expected one of {KINDS}")



# ---- functional API -----------------------------------------------------------------------------


def _gen(kind: str, rng, features, force, ir_version):
    g = ProtoGen(rng, features, force=force, ir_version=ir_version)
    return g.build(kind), g.used


def gen_model(rng: random.Random, features: Iterable[str] | None = None, *, force: Iterable[str] = (),
              ir_version: int | None = None) -> tuple[onnx.ModelProto, set[str]]:
    """A well-formed ModelProto and the set of features used in it.  ``features`` restricts the
    features that may be drawn (default: all), ``force`` switches features on for sure,
    ``ir_version`` fixes the IR version (default: drawn from 3..13)."""
    return _gen("ModelProto", rng, features, force, ir_version)


def gen_graph(rng, features=None, *, force=(), ir_version=None) -> tuple[onnx.GraphProto, set[str]]:
    """A stand-alone GraphProto (may name up to two outer values it does not define)."""
    return _gen("GraphProto", rng, features, force, ir_version)


def gen_function(rng, features=None, *, force=(), ir_version=None) -> tuple[onnx.FunctionProto, set[str]]:
    return _gen("FunctionProto", rng, features, force, ir_version)


def gen_node(rng, features=None, *, force=(), ir_version=None) -> tuple[onnx.NodeProto, set[str]]:
    """A stand-alone NodeProto; its inputs name values outside the message."""
    return _gen("NodeProto", rng, features, force, ir_version)


def gen_tensor(rng, features=None, *, force=(), ir_version=None) -> tuple[onnx.TensorProto, set[str]]:
    return _gen("TensorProto", rng, features, force, ir_version)


def gen_attribute(rng, features=None, *, force=(), ir_version=None) -> tuple[onnx.AttributeProto, set[str]]:
    """An AttributeProto of a random enabled kind, or (15 % from IR 8) a reference attribute."""
    return _gen("AttributeProto", rng, features, force, ir_version)


def gen_value_info(rng, features=None, *, force=(), ir_version=None) -> tuple[onnx.ValueInfoProto, set[str]]:
    return _gen("ValueInfoProto", rng, features, force, ir_version)


def gen_type(rng, features=None, *, force=(), ir_version=None) -> tuple[onnx.TypeProto, set[str]]:
    return _gen("TypeProto", rng, features, force, ir_version)
