"""Child of the C10 strace observer: executes read cases (no truth, no judging) inside an
existing sandbox; the parent attributes the traced opens to cases through marker stats."""

from __future__ import annotations

import json
import logging
import os
import sys

import onnx_ir  # noqa: F401

from vfpy.c10_lib import AUDIT, Sandbox
from vfpy.props.c10 import exec_read

MARK = "/__c10_case__/"


def main(argv: list[str]) -> int:
    root, cases_p, out_p = argv
    logging.getLogger("onnx_ir").setLevel(logging.ERROR)
    sb = Sandbox(root, build=False)
    AUDIT.install()
    with open(cases_p) as f:
        specs = json.load(f)
    results = []
    for i, spec in enumerate(specs):
        try:
            os.stat(f"{MARK}{i}")
        except OSError:
            pass
        outcome, events = exec_read(sb, spec)
        n_inv = sum(1 for ev in events if ev[0] == "open" and (ev[1], ev[2]) in sb.inv)
        if outcome[0] == "bytes":
            data = outcome[1]
            head = data[:4096]
            if any(data[4096:]):  # never the case for bytes of the sparse sandbox files
                head = data
            results.append({"kind": "bytes", "hex": head.hex(), "zeros": len(data) - len(head),
                            "audit_events": n_inv})
        else:
            results.append({"kind": "raised", "exc": type(outcome[1]).__name__, "audit_events": n_inv})
    try:
        os.stat(f"{MARK}end")
    except OSError:
        pass
    with open(out_p, "w") as f:
        json.dump(results, f)
    return 0


if __name__ == "__main__":
    sys.exit(main(sys.argv[1:]))
