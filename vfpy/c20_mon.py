"""C20 monitors: class-attribute census, sys.monitoring call log (ground truth for 'instrumented
call'), entry/call matching, and the executor that runs a marked history inside real, nested
``with Journal()`` blocks that are left normally or by real exceptions.

Independence: the set of instrumented functions is *observed* (class attributes that differ
inside a journal from before), not read from the wrapper module's own table; calls are seen
by the interpreter (PY_START / PY_RETURN / PY_UNWIND on the code objects of the original
functions); entries are read through the public ``Journal.entries``.
"""

from __future__ import annotations

import contextlib
import copy
import dataclasses
import heapq
import inspect
import io
import re
import sys

import onnx_ir as ir
from onnx_ir import _core, _graph_containers, serde, tensor_adapters
from onnx_ir import journaling

from vfpy import histories

Journal = journaling.Journal
MAX_DEPTH = 3

# =============================================================================================
# census of class attributes
# =============================================================================================


def ir_classes() -> list[type]:
    out = []
    # serde / tensor_adapters: the tensor classes defined outside _core (subclasses of instrumented classes)
    for m in (_core, _graph_containers, serde, tensor_adapters):
        for name, c in vars(m).items():
            if inspect.isclass(c) and c.__module__ in (m.__name__, "onnx_ir") and c.__name__ == name and c not in out:
                out.append(c)
    return out


CLASSES = ir_classes()
_CLS_ALL = {c.__name__: c for c in CLASSES}


def _desc(v):
    if isinstance(v, property):
        return ("property", v.fget, v.fset, v.fdel, v.__doc__, v)
    if isinstance(v, (classmethod, staticmethod)):
        return (type(v).__name__, v.__func__, v)
    return ("object", v, v)


# class attributes the interpreter / standard library create lazily on first use (copyreg's slot-name
# cache when an instance is first copied or pickled, typing's protocol caches, lazily materialised
# annotations): they appear once per process whenever the triggering call first happens, inside a
# journal or not, and are not the journal's doing
INTERPRETER_CACHES = {"__slotnames__", "__annotations__", "__protocol_attrs__", "__non_callable_proto_members__",
                      "_is_runtime_protocol", "__abstractmethods__", "_abc_impl"}


def census() -> dict:
    """(class name, attribute) -> descriptor of the raw class-dict entry.  Holds strong references,
    so identities cannot be recycled while a census is alive."""
    out = {}
    for c in CLASSES:
        for k, v in list(vars(c).items()):
            if k not in INTERPRETER_CACHES:
                out[(c.__name__, k)] = _desc(v)
    return out


def _same(a, b) -> list[str]:
    """Facets in which two descriptors differ.  Functions and other objects by identity;
    properties by identity of fget/fset/fdel and equal doc (the restore code builds new property
    objects, which is accepted)."""
    if a[0] != b[0]:
        return [f"kind {a[0]} -> {b[0]}"]
    if a[0] == "property":
        names = ("fget", "fset", "fdel")
        out = [n for n, x, y in zip(names, a[1:4], b[1:4]) if x is not y]
        if a[4] != b[4]:
            out.append("doc")
        return out
    return [] if a[1] is b[1] else ["identity"]


def force_restore(baseline: dict) -> int:
    """Put every class attribute back to the baseline (after a violation was reported, so that the
    following cases of the shard are judged independently).  Returns the number of repairs."""
    n = 0
    now = census()
    for (cname, attr), b in baseline.items():
        a = now.get((cname, attr))
        if a is None or _same(b, a):
            setattr(_CLS_ALL[cname], attr, b[-1])
            n += 1
    for (cname, attr) in now.keys() - baseline.keys():
        try:
            delattr(_CLS_ALL[cname], attr)
            n += 1
        except Exception:  # noqa: BLE001
            pass
    return n


def census_diff(c0: dict, c1: dict, ignore=()) -> list[tuple[str, str, str]]:
    out = []
    for key in c0.keys() | c1.keys():
        if key in ignore:
            continue
        a, b = c0.get(key), c1.get(key)
        if a is None:
            out.append((key[0], key[1], "attribute added"))
        elif b is None:
            out.append((key[0], key[1], "attribute removed"))
        else:
            for facet in _same(a, b):
                out.append((key[0], key[1], facet))
    return sorted(out)


# =============================================================================================
# what the journal instruments, and how an entry names it
# =============================================================================================
# key -> (operation recorded, classes of the recorded object)
TABLE = {
    "TensorBase.__init__": ("init", ("TensorBase",)),
    "Node.__init__": ("init", ("Node",)),
    "Node.name.fset": ("set_name", ("Node",)),
    "Node.domain.fset": ("set_domain", ("Node",)),
    "Node.version.fset": ("set_version", ("Node",)),
    "Node.op_type.fset": ("set_op_type", ("Node",)),
    "Node.overload.fset": ("set_overload", ("Node",)),
    "Node.resize_inputs": ("resize_inputs", ("Node",)),
    "Node.prepend": ("prepend", ("Node",)),
    "Node.append": ("append", ("Node",)),
    "Node.resize_outputs": ("resize_outputs", ("Node",)),
    "Node.graph.fset": ("set_graph", ("Node",)),
    "Value.__init__": ("init", ("Value",)),
    "Value.name.fset": ("set_name", ("Value",)),
    "Value.type.fset": ("set_type", ("Value",)),
    "Value.shape.fset": ("set_shape", ("Value",)),
    "Value.const_value.fset": ("set_const_value", ("Value",)),
    "Value.replace_all_uses_with": ("replace_all_uses_with", ("Value",)),
    "Value.merge_shapes": ("merge_shapes", ("Value",)),
    "Graph.__init__": ("init", ("Graph",)),
    "Graph.register_initializer": ("register_initializer", ("Graph",)),
    "Graph.append": ("append", ("Graph",)),
    "Graph.extend": ("extend", ("Graph",)),
    "Graph.remove": ("remove", ("Graph",)),
    "Graph.insert_after": ("insert_after", ("Graph",)),
    "Graph.insert_before": ("insert_before", ("Graph",)),
    "Graph.sort": ("sort", ("Graph",)),
    "Model.__init__": ("init", ("Model",)),
    "Function.__init__": ("init", ("Function",)),
    "Function.name.fset": ("set_name", ("Function",)),
    "Function.domain.fset": ("set_domain", ("Function",)),
    "Function.overload.fset": ("set_overload", ("Function",)),
    "Attr.__init__": ("init", ("Attr",)),
    "_GraphIO.append": ("append_io", ("Graph",)),
    "_GraphIO.extend": ("extend_io", ("Graph",)),
    "_GraphIO.insert": ("insert_io", ("Graph",)),
    "_GraphIO.pop": ("pop_io", ("Graph",)),
    "_GraphIO.remove": ("remove_io", ("Graph",)),
    "_GraphIO.clear": ("clear_io", ("Graph",)),
    "_GraphIO.__setitem__": ("set_io", ("Graph",)),
    "GraphInitializers.__setitem__": ("set_initializer", ("Graph",)),
    "GraphInitializers.__delitem__": ("delete_initializer", ("Graph",)),
    "Attributes.__setitem__": ("set_attribute", ("Node", "Function")),
}
CONTAINER_KEYS = {k for k in TABLE if k.split(".")[0] in ("_GraphIO", "GraphInitializers", "Attributes")}
_CLS = {c.__name__: c for c in CLASSES}


def discover_instrumented() -> dict:
    """code object of each original function the journal replaces -> key.  Observed by entering a
    probe journal and diffing the census (so a wrapper the table above does not know is noticed)."""
    c0 = census()
    with Journal():
        c1 = census()
    c2 = census()
    leftover = census_diff(c0, c2)
    code_to_key = {}
    unknown = []
    for cname, attr, facet in census_diff(c0, c1):
        before = c0.get((cname, attr))
        if before is None:
            unknown.append(f"{cname}.{attr} ({facet})")
            continue
        if before[0] == "property":
            if facet not in ("fget", "fset", "fdel"):
                unknown.append(f"{cname}.{attr} ({facet})")
                continue
            key = f"{cname}.{attr}.{facet}"
            fn = before[1 + ("fget", "fset", "fdel").index(facet)]
        else:
            key = f"{cname}.{attr}"
            fn = before[1]
        code = getattr(fn, "__code__", None)
        if key not in TABLE or code is None:
            unknown.append(key)
            continue
        code_to_key[code] = key
    if leftover:
        force_restore(c0)  # the probe itself was not undone: reported by the caller; later cases start clean
    return {"code_to_key": code_to_key, "unknown": unknown, "probe_leftover": leftover, "baseline": c0}


# =============================================================================================
# call log
# =============================================================================================
class CallLog:
    """Logical-clock log of the calls of the watched code objects.

    calls: list of [key, target_id, self_id, t_start, t_end, completed]; t_end None while running."""

    TOOL = 4

    def __init__(self, code_to_key: dict):
        self.code_to_key = code_to_key
        self.clock = 0
        self.calls: list[list] = []
        self.open: dict = {}  # code -> stack of indices into calls
        self.enabled = False

    # -- callbacks
    def _start(self, code, offset):
        key = self.code_to_key.get(code)
        if key is None:
            return sys.monitoring.DISABLE
        self.clock += 1
        try:
            f = sys._getframe(1)  # noqa: SLF001 - the frame of the watched function
            me = f.f_locals.get(code.co_varnames[0]) if f.f_code is code else None
        except Exception:  # noqa: BLE001
            me = None
        self.calls.append([key, None, id(me) if me is not None else None, self.clock, None, False])
        self.open.setdefault(code, []).append(len(self.calls) - 1)
        return None

    def _finish(self, code, completed):
        stack = self.open.get(code)
        if not stack:
            return
        self.clock += 1
        rec = self.calls[stack.pop()]
        rec[4] = self.clock
        rec[5] = completed

    def _return(self, code, offset, retval):
        if code in self.code_to_key:
            self._finish(code, True)

    def _unwind(self, code, offset, exc):
        if code in self.code_to_key:
            self._finish(code, False)

    # -- control
    def start(self):
        mon = sys.monitoring
        mon.use_tool_id(self.TOOL, "vf-c20")
        ev = mon.events
        mon.register_callback(self.TOOL, ev.PY_START, self._start)
        mon.register_callback(self.TOOL, ev.PY_RETURN, self._return)
        mon.register_callback(self.TOOL, ev.PY_UNWIND, self._unwind)
        for code in self.code_to_key:
            mon.set_local_events(self.TOOL, code, ev.PY_START | ev.PY_RETURN)
        mon.set_events(self.TOOL, ev.PY_UNWIND)  # not a local event in 3.12
        self.enabled = True

    def stop(self):
        mon = sys.monitoring
        if not self.enabled:
            return
        mon.set_events(self.TOOL, 0)
        for code in self.code_to_key:
            mon.set_local_events(self.TOOL, code, 0)
        for e in (mon.events.PY_START, mon.events.PY_RETURN, mon.events.PY_UNWIND):
            mon.register_callback(self.TOOL, e, None)
        mon.free_tool_id(self.TOOL)
        self.enabled = False

    def reset(self):
        self.clock = 0
        self.calls = []
        self.open = {}


# =============================================================================================
# entries against calls
# =============================================================================================
def entry_key(e) -> str | None:
    for key, (operation, cls_names) in TABLE.items():
        if e.operation == operation and isinstance(e.class_, type) and any(
            issubclass(e.class_, _CLS[c]) for c in cls_names if c in _CLS
        ):
            return key
    return None


def match_entries(entries, calls, t0, t1, unmapped=False, extra_credits=None, fault_clock=None, hook_ranges=(),
                  repr_raised_ranges=()):
    """Judge the entries of one journal activation against the calls with t0 < start, end <= t1.

    Reading of the statement: every completed call has exactly one entry of its kind on its object;
    entries for calls that raised are tolerated (one per raised call at most); two completed calls
    that did not overlap must appear in call order.  Exact feasibility test for that reading
    (interval order + labels): scan the entries; a completed call is *available* when every
    completed call that ended before it started is already matched; match each entry to the
    available unmatched call of its kind that ends first.

    ``repr_raised_ranges``: clock ranges of client calls that the client saw *raise from the journaling layer
    itself* (while it was taking the repr() of an object for the entry).  The wrappers of constructors call
    the original first, so the original may have completed although the client's call did not: for the client
    that operation is not a completed one.  The last call of such a range (nothing started after it ended),
    when no entry can be its entry, is not judged (``report_only_completed_original_of_operation_whose_entry_repr_raised``);
    the exception itself is what the differential monitor reports.

    ``extra_credits``: key -> number of entries of operations that raised because a *hook* of this
    journal raised while the entry was being recorded (the client saw the operation raise; whether the
    original ran depends on whether the wrapper records before or after it): tolerated like the entry of
    any call that raised.  ``fault_clock`` / ``hook_ranges`` only refine the name of a missing-entry
    problem (the call started after a hook of this journal had raised / was made by a hook).

    Returns (problems, stats); problems = list of (kind, key, text)."""
    problems = []
    completed, credits = [], dict(extra_credits or {})
    for c in calls:
        key, _, self_id, ts, te, done = c
        if ts <= t0 or te is None or te > t1:
            continue
        # the recorded object of a container call is the container's owner, which has no public
        # accessor from the container: any object id matches (None)
        tid = None if key in CONTAINER_KEYS else self_id
        if done:
            completed.append([key, tid, ts, te, False, any(a < ts and te <= b for a, b in hook_ranges)])
        else:
            credits[key] = credits.get(key, 0) + 1
    not_judged = 0
    for a, b in repr_raised_ranges:
        inside = [c for c in completed if a < c[2] and c[3] <= b and not c[5]]
        if not inside:
            continue
        last = max(inside, key=lambda c: c[3])
        if any(a < c[3] <= b and c[3] > last[3] for c in calls):
            continue  # something else began after it ended: it is not the call whose wrapper raised
        same = sum(1 for c in completed if c[0] == last[0] and c[1] == last[1])
        have = sum(1 for e in entries if entry_key(e) == last[0] and (last[1] is None or e.object_id == last[1]))
        if have < same:
            completed.remove(last)
            not_judged += 1
    by_key: dict[str, list] = {}
    for c in completed:
        by_key.setdefault(c[0], []).append(c)
    # A call made by a hook runs between the recording of an operation and (for a wrapper that records
    # first) the operation's own original: for the client it lies *inside* that operation, whatever the
    # intervals of the originals say.  Such calls need their entry like any other but do not constrain
    # the position of other entries, and their own entry may stand anywhere.
    ends = [(c[3], i) for i, c in enumerate(completed) if not c[5]]
    heapq.heapify(ends)

    def e_min():
        while ends and completed[ends[0][1]][4]:
            heapq.heappop(ends)
        return ends[0][0] if ends else float("inf")

    matched = tolerated = unexplained = 0
    for pos, e in enumerate(entries):
        key = entry_key(e)
        if key is None and unmapped:
            # the journal instruments an attribute the table has no row for: its entries cannot be
            # matched, so an unnamed entry is not judged (the census and the differential still are)
            unexplained += 1
            continue
        if key is None:
            problems.append(("unexplained-entry", f"{e.operation}/{e.class_name}",
                             f"entry #{pos} {e.operation} on {e.class_name} names no instrumented operation"))
            continue
        lim = e_min()
        best = blocked = None
        for c in by_key.get(key, ()):
            if c[4] or not (c[1] is None or c[1] == e.object_id):
                continue
            if c[5] or c[2] < lim:
                if best is None or c[3] < best[3]:
                    best = c
            elif blocked is None:
                blocked = c
        if best is not None:
            best[4] = True
            matched += 1
        elif credits.get(key, 0) > 0:
            credits[key] -= 1  # the tolerated entry of a call that raised
            tolerated += 1
        elif blocked is not None:
            problems.append(("order", key, f"entry #{pos} ({e.operation} on {e.class_name}) is recorded before the entry "
                             f"of a completed call that ended before this {key} call started"))
            blocked[4] = True
        else:
            problems.append(("extra-entry", key, f"entry #{pos} ({e.operation} on {e.class_name}): every completed "
                             f"{key} call on that object already has its entry"))
    for c in completed:
        if not c[4]:
            kind, where = "missing-entry", ""
            if c[5]:
                kind, where = "missing-entry-of-call-made-by-hook", " (the call was made by a hook of a journal)"
            elif fault_clock is not None and c[2] > fault_clock:
                kind, where = "missing-entry-after-hook-raised", " (it started after a hook of this journal had raised once)"
            problems.append((kind, c[0], f"a completed {c[0]} call (clock {c[2]}..{c[3]}) has no entry{where}"))
    stats = {"completed": len(completed), "matched": matched, "tolerated": tolerated,
             "report_only_entries_of_unmapped_operations": unexplained,
             "report_only_completed_original_of_operation_whose_entry_repr_raised": not_judged,
             "raised": sum(1 for c in calls if c[3] > t0 and c[4] is not None and c[4] <= t1 and not c[5])}
    return problems, stats


# =============================================================================================
# results, normalised so that two runs in different worlds are comparable
# =============================================================================================
_ADDR = re.compile(r"0x[0-9a-fA-F]{6,}")
_ANON = re.compile(r"(anonymous\w*):\d+")
_ID = re.compile(r"\b\d{9,}\b")  # id() values; no number of the workload has nine digits


def norm_text(s: str) -> str:
    return _ID.sub("<id>", _ANON.sub(r"\1:<id>", _ADDR.sub("0x<addr>", s)))


def raise_line(exc):
    """(file, line) of the innermost onnx_ir frame: identifies the raise statement."""
    tb, out = exc.__traceback__, None
    while tb is not None:
        fn = tb.tb_frame.f_code.co_filename.replace("\\", "/")
        if "/onnx_ir/" in fn:
            out = (fn.rsplit("/onnx_ir/", 1)[1], tb.tb_lineno)
        tb = tb.tb_next
    return out


def repr_for_entry(exc) -> bool:
    """Localisation: was the exception raised while the *journal* was taking the repr()/str() of an object for
    an entry (the frame that follows the innermost journaling frame is a __repr__ / __str__ / __format__)?"""
    tb, frames = exc.__traceback__, []
    while tb is not None:
        frames.append(tb.tb_frame.f_code)
        tb = tb.tb_next
    last = max((k for k, c in enumerate(frames) if "/onnx_ir/journaling/" in c.co_filename.replace("\\", "/")), default=None)
    return last is not None and last + 1 < len(frames) and frames[last + 1].co_name in ("__repr__", "__str__", "__format__")


def norm_result(w, res):
    if res.skipped:
        return ("skip",)
    if res.raised:
        try:
            text = norm_text(w.norm(str(res.exc)))
        except Exception as e:  # noqa: BLE001 - e.g. the message embeds a half-constructed node
            text = f"<message unprintable: {type(e).__name__}>"
        return ("exc", type(res.exc).__name__, text, histories.raise_site(res.exc), raise_line(res.exc),
                repr_for_entry(res.exc))
    r = res.ret
    if isinstance(r, str):
        return ("ret", w.norm(r))
    if r is None or isinstance(r, (int, float, bool)):
        return ("ret", r)
    if w.known(r):
        return ("ret", w.label(r))
    try:
        return ("ret", type(r).__name__, norm_text(w.norm(repr(r))))
    except Exception as e:  # noqa: BLE001
        return ("ret", type(r).__name__, f"<repr failed: {type(e).__name__}>")


# =============================================================================================
# executor
# =============================================================================================
class _Leave(Exception):
    """Thrown by the harness from inside a ``with Journal()`` block."""


class Observed:
    """What one run of a marked history produced."""

    def __init__(self):
        self.results: list = []       # per history item (markers -> ("marker",))
        self.checkpoints: dict = {}   # item index -> (snapshot, extra_state)
        self.problems: list = []      # (category, key, text) from the journal monitors
        self.journals: list = []      # every Journal object used
        self.kept: list = []          # what the client kept from looking at the journals (lists of entries, strings)
        self.last_exit: dict = {}     # id(journal) -> how it was last left ("normal" / "exception"); the journals are in .journals
        self.stats: dict = {}

    def add(self, k, n=1):
        self.stats[k] = self.stats.get(k, 0) + n


# Client-boundary expectation: history items that ARE one public instrumented call on one known object.
# The harness made the call itself and saw it return, so - independently of what sys.monitoring saw of the
# original functions (a wrapper that never reaches the original leaves no trace there) - the innermost
# active journal must have gained an entry of that operation on that object.
#   op kind -> (operation name, pool accessor of the target, index of the target in the descriptor)
CLIENT_CALLS = {
    "v_name": ("set_name", "V", 1), "n_name": ("set_name", "N", 1), "v_type": ("set_type", "V", 1),
    "v_shape": ("set_shape", "V", 1), "v_const": ("set_const_value", "V", 1), "v_const_x": ("set_const_value", "V", 1),
    "n_op": ("set_op_type", "N", 1), "n_domain": ("set_domain", "N", 1), "n_version": ("set_version", "N", 1),
    "n_overload": ("set_overload", "N", 1), "f_name": ("set_name", "F", 1), "f_domain": ("set_domain", "F", 1),
    "f_overload": ("set_overload", "F", 1), "rsz_in": ("resize_inputs", "N", 1), "rsz_out": ("resize_outputs", "N", 1),
    "rauw": ("replace_all_uses_with", "V", 1), "kw_rauw": ("replace_all_uses_with", "V", 1),
    "pos_rauw": ("replace_all_uses_with", "V", 1),
}


# History items after which the caller can "handle the hook's exception and repeat the call" without the
# repetition being visible in the IR: one public instrumented call on an existing object whose second
# application leaves the state of the first (so the comparison with the plain run does not depend on
# whether a wrapper records before or after calling the original).  v_const is left out only because
# the world builds the tensor (an instrumented constructor) while *forming* the call.
FAULTABLE = frozenset(CLIENT_CALLS) - {"v_const"}
MAX_HOOKS = 4


class _HookFault(Exception):
    """Raised by the harness's fault hook from inside ``Journal.record``."""


class HookShared:
    """State shared by the hooks of one run."""

    def __init__(self, log):
        self.log = log
        self.armed_jid = None     # id of the journal whose fault hook raises at its next top-level notification
        self.fired = None         # (journal id, table key of the entry, clock)
        self.touch_busy = 0
        self.touches = 0
        self.touch_ranges: list = []
        self.notified = 0

    def call_in_flight(self) -> bool:
        return any(self.log.open.values())


class ObserveHook:
    """Notes which entries it was told about (ids only: the journal keeps the entries alive)."""

    def __init__(self, shared, journal):
        self.shared = shared
        self.seen: set = set()
        self.checked = len(journal.entries)

    def __call__(self, entry):
        self.shared.notified += 1
        self.seen.add(id(entry))


class FaultHook:
    """Raises once when armed - but never in the middle of an IR call: not while an original instrumented
    function is running (a nested notification) and not while another hook is performing IR calls."""

    def __init__(self, shared, journal):
        self.shared, self.jid = shared, id(journal)

    def __call__(self, entry):
        s = self.shared
        if s.armed_jid != self.jid or s.touch_busy or s.call_in_flight():
            return
        s.armed_jid = None
        s.fired = (self.jid, entry_key(entry), s.log.clock)
        raise _HookFault("the hook rejects this operation")


class TouchHook:
    """A hook that uses the IR itself (on an object of its own), guarded against its own notifications."""

    def __init__(self, shared, journal):
        self.shared = shared

    def __call__(self, entry):
        s = self.shared
        if s.touch_busy:
            return
        s.touch_busy += 1
        c0 = s.log.clock
        try:
            v = ir.Value(name="hook_scratch")
            v.name = "hook_scratch_seen"
            s.touches += 1
        finally:
            s.touch_busy -= 1
            s.touch_ranges.append((c0, s.log.clock))


HOOK_CLASSES = {"observe": ObserveHook, "fault": FaultHook, "touch": TouchHook}


# =============================================================================================
# the client looks at a journal (public accessors of JournalEntry / Journal only)
# =============================================================================================
def _public_data_attributes(cls) -> list[str]:
    """Public names of a class that are read, not called: dataclass fields, properties and the like."""
    names = {f.name for f in dataclasses.fields(cls)} if dataclasses.is_dataclass(cls) else set()
    for name in dir(cls):
        if not name.startswith("_") and not inspect.isroutine(inspect.getattr_static(cls, name)):
            names.add(name)
    return sorted(n for n in names if not n.startswith("_"))


ENTRY_PUBLIC = _public_data_attributes(journaling.JournalEntry)
JOURNAL_PUBLIC = _public_data_attributes(Journal)
PER_ENTRY_CAP = 60


def _some(entries):
    n = len(entries)
    return entries if n <= PER_ENTRY_CAP else [entries[i * n // PER_ENTRY_CAP] for i in range(PER_ENTRY_CAP)]


def _i_ref(j, entries, keep):
    for e in _some(entries):
        if e.ref is not None:
            e.ref()


def _i_obj(j, entries, keep):
    for e in _some(entries):
        e.obj  # noqa: B018


def _i_details(j, entries, keep):
    keep.append([e.details for e in _some(entries)])  # strings: the client may keep them


def _i_public(j, entries, keep):
    for e in _some(entries):
        for name in ENTRY_PUBLIC:
            getattr(e, name)
    for name in JOURNAL_PUBLIC:
        getattr(j, name)


def _i_entry_display(j, entries, keep):
    with contextlib.redirect_stdout(io.StringIO()):
        for e in _some(entries):
            e.display()


def _i_journal_display(j, entries, keep):
    with contextlib.redirect_stdout(io.StringIO()):
        j.display()


def _i_filter(j, entries, keep):
    # the documented way to filter: a comprehension over Journal.entries; the client keeps the result
    if entries:
        op, cn = entries[len(entries) // 2].operation, entries[len(entries) // 2].class_name
        keep.append([e for e in j.entries if e.operation == op and e.class_name == cn])
        keep.append([e for e in j.entries if e.class_ is not None and e.operation.startswith("set_")])


def _i_repr_eq_copy(j, entries, keep):
    some = _some(entries)
    for a, b in zip(some, some[1:] + some[:1]):
        repr(a)
        a == b  # noqa: B015
    keep.append([copy.copy(e) for e in some[:10]])
    keep.append([dataclasses.replace(e, details=None) for e in some[:10]])


INSPECTORS = {
    "entry.ref()": _i_ref, "entry.obj": _i_obj, "entry.details": _i_details, "entry.public-attributes": _i_public,
    "entry.display()": _i_entry_display, "Journal.display()": _i_journal_display,
    "filter-by-operation-and-class": _i_filter, "repr/eq/copy": _i_repr_eq_copy,
}


class Runner:
    """Executes a marked history on a world.  ``journaled=False`` ignores the markers (plain run)."""

    def __init__(self, world, items, journaled, calllog, snap, volatile=(), checkpoint_at=(), unmapped=False):
        self.w, self.items, self.journaled = world, items, journaled
        self.unmapped = unmapped
        self.log, self.snap = calllog, snap
        self.volatile = volatile
        self.checkpoint_at = set(checkpoint_at)
        self.obs = Observed()
        self.last_exc = None
        self.pending = None          # [exception object, levels still to unwind, resume index]
        self.last_closed = None
        self.armed = 0
        self.closed: list = []       # (journal, number of entries when it was left)
        self.active: list = []
        self.shared = HookShared(calllog)
        self.hooks: dict = {}        # id(journal) -> hooks added through add_hook, in order
        self.fault_next = False
        self.faults: dict = {}       # id(journal) -> [(table key of the entry, clock)] of the current activation
        self.first_fault: dict = {}  # id(journal) -> clock of the first hook fault ever
        self.repr_raised: list = []  # clock ranges of client calls that raised from the repr() taken for an entry

    # -- hooks
    def add_hook(self, j, kind):
        hs = self.hooks.setdefault(id(j), [])
        if len(hs) >= MAX_HOOKS and not (kind == "fault" and not any(isinstance(h, FaultHook) for h in hs)):
            return None
        h = HOOK_CLASSES[kind](self.shared, j)
        j.add_hook(h)
        hs.append(h)
        self.obs.add("hooks_added:" + kind)
        return h

    def account_observers(self, j, n_faults):
        """report only (the statement does not speak of hooks): entries an attached hook was not told about,
        beyond those whose notification round was cut short by a hook that raised."""
        entries = list(j.entries)
        for h in self.hooks.get(id(j), ()):
            if isinstance(h, ObserveHook):
                part = entries[h.checked:]
                unseen = sum(1 for e in part if id(e) not in h.seen)
                h.checked = len(entries)
                self.obs.add("hook_notifications_checked", len(part))
                if unseen > n_faults:
                    self.obs.add("report_only_hook_not_notified_of_entry", unseen - n_faults)

    # -- the client looks at the journals used so far
    def inspect(self, names):
        obs = self.obs
        obs.add("inspections")
        obs.add("inspections_inside_a_journal" if self.active else "inspections_after_the_last_exit")
        for j in obs.journals[-4:]:
            entries = list(j.entries)
            obs.add("entries_inspected_while_object_alive",
                    sum(1 for e in _some(entries) if e.ref is not None and e.ref() is not None))
            for name in names:
                fn = INSPECTORS.get(name)
                if fn is None:
                    continue
                obs.add("inspect:" + name)
                try:
                    fn(j, entries, obs.kept)
                except Exception as e:  # noqa: BLE001 - the statement does not speak of the display helpers
                    obs.add(f"report_only_inspector_raised:{name}:{type(e).__name__}")
            entries = None

    # -- one history item
    def step(self, i):
        op = self.items[i]
        if self.journaled and op[0] in ("io_del", "io_delslice", "io_delslice3"):
            # `del lst[i]` / `del lst[a:b]` on graph inputs/outputs, by position relative to journals
            self.obs.add("del_io_inside_a_journal" if self.active else
                         ("del_io_outside_after_a_journal" if self.closed else "del_io_before_any_journal"))
        expect = CLIENT_CALLS.get(op[0]) if (self.journaled and self.active) else None
        target = n0 = None
        if expect is not None:
            try:
                target = getattr(self.w, expect[1])(op[expect[2]])
                n0 = len(self.active[-1].entries)
            except Exception:  # noqa: BLE001 - empty pool: the call cannot be formed
                expect = None
        sh = self.shared
        c0 = self.log.clock
        arm, self.fault_next = self.fault_next, False
        if arm and self.journaled and self.active and op[0] in FAULTABLE:
            j = self.active[-1]
            if not any(isinstance(h, FaultHook) for h in self.hooks.get(id(j), ())):
                self.add_hook(j, "fault")
            sh.armed_jid, sh.fired = id(j), None
        else:
            arm = False
        res = self.w.apply(op)
        if arm:
            sh.armed_jid = None
            if sh.fired is None:
                self.obs.add("hook_fault_armed_but_no_top_level_notification")
            else:
                # The hook's exception surfaced from the IR operation being recorded; the caller handles it
                # and repeats the call (FAULTABLE: repeating is not visible in the IR).
                jid, key, clock = sh.fired
                sh.fired = None
                self.obs.add("hook_faults_injected")
                self.obs.add(f"hook_fault_at_depth_{len(self.active)}")
                if not isinstance(res.exc, _HookFault):
                    self.obs.add("report_only_hook_exception_did_not_surface")
                self.faults.setdefault(jid, []).append((key, clock))
                self.first_fault.setdefault(jid, clock)
                res = None
                if expect is not None:
                    n0 = len(self.active[-1].entries)
                res = self.w.apply(op)
                if isinstance(res.exc, _HookFault):
                    raise RuntimeError("the fault hook fired although it was not armed")
        if expect is not None and res.exc is None and not res.skipped:
            self.obs.add("client_calls_checked")
            new = list(self.active[-1].entries)[n0:]
            if not any(e.operation == expect[0] and e.object_id == id(target) for e in new):
                after = "-after-hook-raised" if id(self.active[-1]) in self.first_fault else ""
                self.obs.problems.append((
                    "entries:client-call-without-entry" + after, expect[0],
                    f"step {i} {op}: the call returned inside a journal (depth {len(self.active)}) but the innermost journal "
                    f"recorded no '{expect[0]}' entry for the object ({len(new)} new entries: "
                    f"{[e.operation for e in new][:6]})"
                    + ("; a hook of this journal had raised once before (handled by the caller)" if after else "")))
        if self.journaled and res.exc is not None and repr_for_entry(res.exc):
            self.repr_raised.append((c0, self.log.clock))
            self.obs.add("client_calls_that_raised_from_the_repr_taken_for_an_entry")
        self.last_exc = res.exc
        self.obs.results.append(norm_result(self.w, res))
        if i in self.checkpoint_at:
            self.obs.checkpoints[i] = self.snap(self.w)

    # -- journal boundaries
    def on_exit(self, j, pre, prev_current, start_len, t0, how, depth):
        obs = self.obs
        obs.add("journal_exits")
        obs.add("exit_" + how)
        obs.add(f"exit_from_depth_{depth}")
        obs.last_exit[id(j)] = how
        d = census_diff(pre, census(), self.volatile)
        for cname, attr, facet in d:
            obs.problems.append(("class-not-restored", f"{cname}.{attr}:{facet}",
                                 f"after leaving a journal ({how}, depth {depth}) {cname}.{attr} differs from before entering: {facet}"))
        if journaling.get_current_journal() is not prev_current:
            obs.problems.append(("current-journal-not-restored", how,
                                 f"get_current_journal() after leaving ({how}, depth {depth}) is not the journal that was current before entering"))
        entries = list(j.entries)[start_len:]
        t1 = self.log.clock
        faults = self.faults.pop(id(j), [])
        credits: dict = {}
        for key, _ in faults:
            if key is not None:
                credits[key] = credits.get(key, 0) + 1
        problems, stats = match_entries(entries, self.log.calls, t0, t1, self.unmapped, extra_credits=credits,
                                        fault_clock=self.first_fault.get(id(j)), hook_ranges=self.shared.touch_ranges,
                                        repr_raised_ranges=self.repr_raised)
        if self.hooks.get(id(j)):
            obs.add("journal_exits_with_hooks")
            if faults:
                obs.add("journal_exits_after_hook_fault")
                obs.add("calls_completed_after_hook_fault",
                        sum(1 for c in self.log.calls if c[5] and c[3] > faults[0][1] and c[4] is not None and c[4] <= t1))
            self.account_observers(j, len(faults))
        if depth == 1:
            for c in self.log.calls:
                if c[3] > t0 and c[4] is not None and c[4] <= t1:
                    obs.add("calls:" + c[0])
        for k, v in stats.items():
            if v or not k.startswith("report_only"):
                obs.add(k if k.startswith("report_only") else "calls_" + k, v)
        obs.add("entries_seen", len(entries))
        for e in entries:
            if e.operation == "init":
                obs.add("init_entries:" + e.class_name)
        if stats["completed"] >= 5:
            obs.add("journals_with_5+_completed_calls")
        for kind, key, text in problems:
            obs.problems.append(("entries:" + kind, key, f"{text} [journal at depth {depth}, left: {how}]"))
        self.closed.append((j, len(j.entries)))
        self.last_closed = j

    def run_block(self, i, depth):
        """Run items[i:] at nesting depth ``depth``; returns the index to continue with one level up."""
        items, n = self.items, len(self.items)
        while i < n:
            it = items[i]
            if it[0] in ("J_enter", "J_exit"):
                self.armed = 0
                self.fault_next = False
            if it[0] == "J_enter" and self.journaled:
                self.obs.results.append(("marker",))
                if depth >= MAX_DEPTH:
                    i += 1
                    continue
                reuse = len(it) > 1 and it[1] and self.last_closed is not None and self.last_closed not in self.active
                j = self.last_closed if reuse else Journal()
                if reuse:
                    self.obs.add("journal_object_reentered")
                    self.closed = [(a, b) for a, b in self.closed if a is not j]
                else:
                    self.obs.journals.append(j)
                pre = census()
                prev_current = journaling.get_current_journal()
                start_len = len(j.entries)
                t0 = self.log.clock
                self.active.append(j)
                try:
                    with j:
                        self.obs.add("journal_enters")
                        self.obs.add(f"enter_at_depth_{depth + 1}")
                        i = self.run_block(i + 1, depth + 1)
                except BaseException as e:  # noqa: BLE001 - only the exception this harness threw is handled
                    self.active.pop()
                    if self.pending is None or e is not self.pending[0]:
                        raise
                    self.on_exit(j, pre, prev_current, start_len, t0, "exception", depth + 1)
                    self.pending[1] -= 1
                    if self.pending[1] > 0:
                        self.obs.add("exception_crossed_nested_journal")
                        raise
                    i = self.pending[2]
                    self.pending = None
                else:
                    self.active.pop()
                    if self.pending is not None:
                        # an exception was thrown inside the block and did not come out of it
                        self.obs.problems.append((
                            "exit-suppressed-exception", f"depth {depth + 1}",
                            f"{type(self.pending[0]).__name__} thrown inside a `with Journal()` block at depth {depth + 1} "
                            "was swallowed by Journal.__exit__ (a truthy return value); without a journal it propagates"))
                        self.on_exit(j, pre, prev_current, start_len, t0, "exception", depth + 1)
                        exc = self.pending[0]
                        self.pending[1] -= 1
                        if self.pending[1] > 0:
                            raise exc  # keep unwinding the outer journals as the plan says
                        i = self.pending[2]
                        self.pending = None
                    else:
                        self.on_exit(j, pre, prev_current, start_len, t0, "normal", depth + 1)
            elif it[0] == "J_exit" and self.journaled:
                self.obs.results.append(("marker",))
                if depth == 0:
                    i += 1
                    continue
                mode, levels = it[1], max(1, min(int(it[2]), depth))
                if mode == "normal":
                    return i + 1
                if mode == "op_exc" and self.last_exc is None:
                    # leave with the exception of the next IR call of this block that raises
                    # (cancelled by the next marker)
                    self.armed = levels
                    i += 1
                    continue
                if mode == "op_exc":
                    exc = self.last_exc
                    self.obs.add("left_by_rethrown_ir_exception")
                else:
                    exc = _Leave()
                self.last_exc = None
                self.pending = [exc, levels, i + 1]
                raise exc
            elif it[0] == "J_inspect":
                self.obs.results.append(("marker",))
                if self.journaled and self.obs.journals:
                    self.inspect(it[1])
                i += 1
                continue
            elif it[0] in ("J_hook", "J_hook_clear", "J_fault"):
                self.obs.results.append(("marker",))
                if self.journaled and self.active:
                    j = self.active[-1]
                    if it[0] == "J_hook":
                        self.add_hook(j, it[1])
                    elif it[0] == "J_hook_clear":
                        self.account_observers(j, len(self.faults.get(id(j), ())))
                        j.clear_hooks()
                        self.hooks[id(j)] = []
                        self.obs.add("hooks_cleared")
                    else:
                        self.fault_next = True
                i += 1
                continue
            else:
                if it[0] in ("J_enter", "J_exit"):
                    self.obs.results.append(("marker",))
                else:
                    self.step(i)
                    if self.armed and self.last_exc is not None and depth > 0:
                        exc, levels = self.last_exc, max(1, min(self.armed, depth))
                        self.armed = 0
                        self.last_exc = None
                        self.obs.add("left_by_rethrown_ir_exception")
                        self.pending = [exc, levels, i + 1]
                        raise exc
                i += 1
        return i

    def run(self):
        self.run_block(0, 0)
        self.last_exc = None
        self.obs.add("hook_touch_rounds", self.shared.touches)
        self.obs.add("hook_notifications", self.shared.notified)
        for j in self.obs.journals:  # the hooks are the harness's: detach them before the journals are judged for liveness
            j.clear_hooks()
        self.hooks = {}
        # a journal that was left must not record any more
        for j, n_at_exit in self.closed:
            if len(j.entries) != n_at_exit:
                self.obs.problems.append(("records-after-exit", "entries grew",
                                          f"a journal recorded {len(j.entries) - n_at_exit} entries after it was left"))
        return self.obs
