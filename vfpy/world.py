"""Universe of IR objects + the public editing alphabet, as replayable operation descriptors.

An operation descriptor is a JSON list ``[opname, arg, ...]`` whose object arguments are integer
indices into the world's pools, taken modulo the pool size at execution time, so every
sub-sequence of a history is still executable (this is what makes ddmin shrinking trivial).
Only the public editing API of onnx_ir is used, with type-correct arguments.
"""

from __future__ import annotations

import numpy as np
import onnx_ir as ir
from onnx_ir import convenience as irc


class Skip(Exception):
    """The operation cannot be formed in this world (empty pool); it is a no-op."""


NAMES = [None, "", "a", "b", "c", "x", "y", "w", "val_0", "val_1", "val_2", "val_3",
         "node_Add_0", "node_Add_1", "node_Relu_2", "k", "a_1", "b_1"]
# a str that no protobuf string field accepts (a lone surrogate, which os.fsdecode / surrogateescape produce):
# renaming a value backed by a proto-backed tensor to it makes the tensor's own name setter raise
BAD_NAME = "s\udcff"
SPECIAL_TENSOR_BASE = 100  # tensor indices >= this select the collaborator tensors below
OPTYPES = ["Add", "Relu", "Identity", "If", "Concat", "Split", "Custom"]
DTYPES = [ir.DataType.FLOAT, ir.DataType.INT64, ir.DataType.FLOAT16, ir.DataType.BOOL]


class PickyTensor(ir.Tensor):
    """A user-defined tensor class (any TensorProtocol implementation may back a value) that validates
    the name it is given: a collaborator that can reject a rename in the middle of an IR call."""

    @property
    def name(self):
        return ir.Tensor.name.fget(self)

    @name.setter
    def name(self, value):
        if value is not None and not (isinstance(value, str) and value.isidentifier()):
            raise ValueError(f"PickyTensor: {value!r} is not an acceptable tensor name")
        ir.Tensor.name.fset(self, value)


def _special_tensor(k: int):
    if k % 2 == 0:
        import onnx.numpy_helper
        return ir.serde.TensorProtoTensor(onnx.numpy_helper.from_array(np.arange(3, dtype=np.float32), name="tp"))
    return PickyTensor(np.arange(2, dtype=np.float32), name="picky")


class Result:
    __slots__ = ("exc", "ret", "skipped")

    def __init__(self, exc=None, ret=None, skipped=False):
        self.exc = exc
        self.ret = ret
        self.skipped = skipped

    @property
    def raised(self) -> bool:
        return self.exc is not None


class World:
    def __init__(self) -> None:
        self.graphs: list[ir.Graph] = []
        self.functions: list[ir.Function] = []
        self.nodes: list[ir.Node] = []
        self.values: list[ir.Value] = []
        self.models: list[ir.Model] = []
        self.tensors: list = []
        self.special_tensors: dict = {}
        self.keepalive: list = []
        self._labels: dict[int, str] = {}
        self.broken: dict[int, str] = {}  # id(object) -> why its accessors cannot be read

    # ---- registry ---------------------------------------------------------------------------
    def _add(self, pool: list, prefix: str, obj) -> None:
        if id(obj) in self._labels:
            return
        self._labels[id(obj)] = f"{prefix}{len(pool)}"
        pool.append(obj)

    def add_graph(self, g):
        self._add(self.graphs, "g", g)

    def add_function(self, f):
        self._add(self.functions, "f", f)

    def add_node(self, n):
        self._add(self.nodes, "n", n)

    def add_value(self, v):
        self._add(self.values, "v", v)

    def label(self, obj) -> str:
        if obj is None:
            return "None"
        lab = self._labels.get(id(obj))
        if lab is not None:
            return lab
        return f"?{type(obj).__name__}"

    def known(self, obj) -> bool:
        return id(obj) in self._labels

    def containers(self) -> list:
        return self.graphs + self.functions

    def discover(self) -> None:
        """Add every object reachable from the universe through public accessors."""
        changed = True
        rounds = 0
        while changed and rounds < 6:
            rounds += 1
            before = len(self._labels)
            for g in list(self.graphs):
                try:
                    for n in list(g):
                        self.add_node(n)
                    for v in list(g.inputs):
                        self.add_value(v)
                    for v in list(g.outputs):
                        self.add_value(v)
                    for v in list(g.initializers.values()):
                        self.add_value(v)
                except Exception:  # noqa: BLE001 - a broken graph is the walker's business
                    pass
            for f in list(self.functions):
                self.add_graph(f.graph)
            for n in list(self.nodes):
                if id(n) in self.broken:
                    continue
                try:
                    for v in n.outputs:
                        self.add_value(v)
                    for v in n.inputs:
                        if v is not None:
                            self.add_value(v)
                    g = n.graph
                    if isinstance(g, ir.Graph):
                        self.add_graph(g)
                    for attr in list(n.attributes.values()):
                        if isinstance(attr, ir.Attr) and not attr.is_ref():
                            if attr.type == ir.AttributeType.GRAPH:
                                self.add_graph(attr.value)
                            elif attr.type == ir.AttributeType.GRAPHS:
                                for sg in attr.value:
                                    self.add_graph(sg)
                except AttributeError as e:
                    # a half-constructed node (its constructor raised) that is still reachable,
                    # e.g. through value.uses(): the monitors report it, the harness must not crash
                    self.broken[id(n)] = f"{type(e).__name__}: {e}"
            for v in list(self.values):
                p = v.producer()
                if p is not None:
                    self.add_node(p)
                for u in v.uses():
                    self.add_node(u.node)
                g = v.graph
                if isinstance(g, ir.Graph) and _graph_usable(g):
                    self.add_graph(g)
            changed = len(self._labels) != before

    def adopt_model(self, model: ir.Model) -> None:
        self.models.append(model)
        self.add_graph(model.graph)
        for f in model.functions.values():
            self.add_function(f)
            self.add_graph(f.graph)
        self.discover()

    # ---- argument resolution ------------------------------------------------------------------
    @staticmethod
    def _pick(pool: list, idx):
        if idx is None:
            return None
        if not pool:
            raise Skip()
        return pool[idx % len(pool)]

    def G(self, i):  # noqa: N802
        return self._pick(self.graphs, i)

    def C(self, i):  # noqa: N802
        return self._pick(self.containers(), i)

    def N(self, i):  # noqa: N802
        return self._pick(self.nodes, i)

    def V(self, i):  # noqa: N802
        return self._pick(self.values, i)

    def Vs(self, idxs):  # noqa: N802
        return [self.V(i) for i in idxs]

    def Ns(self, idxs):  # noqa: N802
        return [self.N(i) for i in idxs]

    def tensor(self, i):
        if i is None:
            return None
        if i >= SPECIAL_TENSOR_BASE:
            k = (i - SPECIAL_TENSOR_BASE) % 2
            if k not in self.special_tensors:
                self.special_tensors[k] = _special_tensor(k)
            return self.special_tensors[k]
        while len(self.tensors) <= (i % 4):
            k = len(self.tensors)
            self.tensors.append(ir.tensor(np.arange(k + 1, dtype=np.float32), name=f"t{k}"))
        return self.tensors[i % 4]

    # ---- execution ----------------------------------------------------------------------------
    def apply(self, op: list) -> Result:
        fn = OPS[op[0]]
        try:
            thunk = fn(self, *op[1:])
        except Skip:
            return Result(skipped=True)
        try:
            ret = thunk()
            res = Result(ret=ret)
        except Exception as e:  # noqa: BLE001 - any exception is a 'rejected call'
            res = Result(exc=e)
        self.discover()
        return res


def _graph_usable(g) -> bool:
    try:
        g.inputs, g.outputs, g.initializers  # noqa: B018
        len(g)
        return True
    except Exception:  # noqa: BLE001
        return False


# =============================================================================================
# Operation table.  Each entry resolves its arguments (may raise Skip) and returns a thunk that
# performs exactly one public call.
# =============================================================================================
OPS: dict = {}


def op(name):
    def deco(fn):
        OPS[name] = fn
        return fn
    return deco


def _mk_type(mode):
    if mode == 0:
        return None, None
    if mode == 1:
        return ir.TensorType(ir.DataType.FLOAT), ir.Shape([2, "N"])
    if mode == 2:
        return ir.TensorType(ir.DataType.INT64), None
    return ir.SequenceType(ir.TensorType(ir.DataType.FLOAT)), ir.Shape([None, 3])


@op("val")
def _val(w, name, const_idx, tmode):
    t = w.tensor(const_idx)
    ty, sh = _mk_type(tmode)

    def run():
        v = ir.Value(name=name, type=ty, shape=sh, const_value=t)
        w.add_value(v)
        return w.label(v)
    return run


@op("node")
def _node(w, op_type, ins, num_outputs, outs, cont, name, attr_graph):
    inputs = [w.V(i) for i in ins]
    outputs = None if outs is None else [w.V(i) for i in outs]
    c = w.C(cont) if cont is not None else None
    attrs = []
    if attr_graph is not None:
        attrs.append(ir.AttrGraph("body", w.G(attr_graph)))

    def run():
        n = ir.Node("", op_type, inputs, attrs, num_outputs=num_outputs, outputs=outputs, graph=c, name=name)
        w.add_node(n)
        return w.label(n)
    return run


@op("node_it")
def _node_it(w, op_type, ins, num_outputs, outs, cont, name, attr_graph):
    """The same constructor call with one-shot iterables where the signature says Iterable/Sequence:
    a generator of inputs, an iterator of attributes, a tuple of outputs."""
    inputs = [w.V(i) for i in ins]
    outputs = None if outs is None else tuple(w.V(i) for i in outs)
    c = w.C(cont) if cont is not None else None
    attrs = []
    if attr_graph is not None:
        attrs.append(ir.AttrGraph("body", w.G(attr_graph)))

    def run():
        n = ir.Node("", op_type, (v for v in inputs), iter(attrs), num_outputs=num_outputs, outputs=outputs, graph=c, name=name)
        w.add_node(n)
        return w.label(n)
    return run


@op("graph")
def _graph(w, ins, outs, nodes, inits, name):
    a, b, c, d = w.Vs(ins), w.Vs(outs), w.Ns(nodes), w.Vs(inits)

    def run():
        g = ir.Graph(a, b, nodes=c, initializers=d, name=name)
        w.add_graph(g)
        return w.label(g)
    return run


@op("func")
def _func(w, g, name):
    graph = w.G(g)
    if any(f.graph is graph for f in w.functions):
        raise Skip()

    def run():
        f = ir.Function("dom", name, graph=graph, attributes=[])
        w.add_function(f)
        return w.label(f)
    return run


@op("attr_graph")
def _attr_graph(w, n, g, key):
    node, graph = w.N(n), w.G(g)
    return lambda: node.attributes.add(ir.AttrGraph(key, graph))


@op("attr_set")
def _attr_set(w, n, key, val):
    node = w.N(n)
    return lambda: node.attributes.add(ir.AttrInt64(key, val))


@op("attr_del")
def _attr_del(w, n, key):
    node = w.N(n)
    return lambda: node.attributes.pop(key)


# ---- node sequence ------------------------------------------------------------------------------
@op("append")
def _append(w, c, n):
    cont, node = w.C(c), w.N(n)
    return lambda: cont.append(node)


@op("extend")
def _extend(w, c, ns):
    cont, nodes = w.C(c), w.Ns(ns)
    return lambda: cont.extend(nodes)


def _one_or_many(nodes, single):
    return nodes[0] if (single and len(nodes) == 1) else nodes


@op("ins_before")
def _ins_before(w, c, anchor, ns, single):
    cont, a, nodes = w.C(c), w.N(anchor), w.Ns(ns)
    return lambda: cont.insert_before(a, _one_or_many(nodes, single))


@op("ins_after")
def _ins_after(w, c, anchor, ns, single):
    cont, a, nodes = w.C(c), w.N(anchor), w.Ns(ns)
    return lambda: cont.insert_after(a, _one_or_many(nodes, single))


@op("remove")
def _remove(w, c, ns, single, safe):
    cont, nodes = w.C(c), w.Ns(ns)
    return lambda: cont.remove(_one_or_many(nodes, single), safe=safe)


@op("sort")
def _sort(w, c):
    cont = w.C(c)
    return lambda: cont.sort()


@op("n_prepend")
def _n_prepend(w, n, ns, single):
    node, nodes = w.N(n), w.Ns(ns)
    return lambda: node.prepend(_one_or_many(nodes, single))


@op("n_append")
def _n_append(w, n, ns, single):
    node, nodes = w.N(n), w.Ns(ns)
    return lambda: node.append(_one_or_many(nodes, single))


# ---- connections --------------------------------------------------------------------------------
@op("rin")
def _rin(w, n, index, v):
    node, val = w.N(n), w.V(v)
    return lambda: node.replace_input_with(index, val)


@op("rsz_in")
def _rsz_in(w, n, k):
    node = w.N(n)
    return lambda: node.resize_inputs(k)


@op("rsz_out")
def _rsz_out(w, n, k):
    node = w.N(n)
    return lambda: node.resize_outputs(k)


@op("rauw")
def _rauw(w, v, v2, rgo):
    a, b = w.V(v), w.V(v2)
    return lambda: a.replace_all_uses_with(b, replace_graph_outputs=rgo)


@op("c_rauw")
def _c_rauw(w, vs, v2s, rgo):
    a, b = w.Vs(vs), w.Vs(v2s)
    return lambda: irc.replace_all_uses_with(a, b, replace_graph_outputs=rgo)


@op("c_rnv")
def _c_rnv(w, c, ip, old_ns, new_ns, old_vs, new_vs):
    cont, p = w.C(c), w.N(ip)
    on, nn, ov, nv = w.Ns(old_ns), w.Ns(new_ns), w.Vs(old_vs), w.Vs(new_vs)
    return lambda: irc.replace_nodes_and_values(cont, p, on, nn, ov, nv)


# ---- graph inputs / outputs -----------------------------------------------------------------------
def _io(w, c, which):
    cont = w.C(c)
    return cont.inputs if which == "inputs" else cont.outputs


@op("io_append")
def _io_append(w, c, which, v):
    lst, val = _io(w, c, which), w.V(v)
    return lambda: lst.append(val)


@op("io_extend")
def _io_extend(w, c, which, vs):
    lst, vals = _io(w, c, which), w.Vs(vs)
    return lambda: lst.extend(vals)


@op("io_insert")
def _io_insert(w, c, which, i, v):
    lst, val = _io(w, c, which), w.V(v)
    return lambda: lst.insert(i, val)


@op("io_pop")
def _io_pop(w, c, which, i):
    lst = _io(w, c, which)
    return (lambda: w.label(lst.pop())) if i is None else (lambda: w.label(lst.pop(i)))


@op("io_remove")
def _io_remove(w, c, which, v):
    lst, val = _io(w, c, which), w.V(v)
    return lambda: lst.remove(val)


@op("io_clear")
def _io_clear(w, c, which):
    lst = _io(w, c, which)
    return lambda: lst.clear()


@op("io_set")
def _io_set(w, c, which, i, v):
    lst, val = _io(w, c, which), w.V(v)

    def run():
        lst[i] = val
    return run


@op("io_setslice")
def _io_setslice(w, c, which, a, b, vs):
    lst, vals = _io(w, c, which), w.Vs(vs)

    def run():
        lst[a:b] = vals
    return run


@op("io_setslice3")
def _io_setslice3(w, c, which, a, b, step, vs):
    lst, vals = _io(w, c, which), w.Vs(vs)

    def run():
        lst[a:b:step] = vals
    return run


@op("io_delslice3")
def _io_delslice3(w, c, which, a, b, step):
    lst = _io(w, c, which)

    def run():
        del lst[a:b:step]
    return run


@op("io_del")
def _io_del(w, c, which, i):
    lst = _io(w, c, which)

    def run():
        del lst[i]
    return run


@op("io_delslice")
def _io_delslice(w, c, which, a, b):
    lst = _io(w, c, which)

    def run():
        del lst[a:b]
    return run


@op("io_reverse")
def _io_reverse(w, c, which):
    lst = _io(w, c, which)
    return lambda: lst.reverse()


@op("io_iadd")
def _io_iadd(w, c, which, vs):
    lst, vals = _io(w, c, which), w.Vs(vs)

    def run():
        nonlocal lst
        lst += vals
    return run


# ---- initializers ---------------------------------------------------------------------------------
def _key(g, k):
    keys = list(g.initializers.keys())
    if isinstance(k, str):
        return k
    if not keys:
        return "missing"
    return keys[k % len(keys)]


@op("in_set")
def _in_set(w, g, key, v):
    graph, val = w.G(g), w.V(v)
    k = key if key is not None else (val.name if val.name is not None else "k")

    def run():
        graph.initializers[k] = val
    return run


@op("in_add")
def _in_add(w, g, v):
    graph, val = w.G(g), w.V(v)
    return lambda: graph.initializers.add(val)


@op("in_reg")
def _in_reg(w, g, v):
    graph, val = w.G(g), w.V(v)
    return lambda: graph.register_initializer(val)


@op("in_del")
def _in_del(w, g, k):
    graph = w.G(g)
    key = _key(graph, k)

    def run():
        del graph.initializers[key]
    return run


@op("in_pop")
def _in_pop(w, g, k):
    graph = w.G(g)
    key = _key(graph, k)
    return lambda: w.label(graph.initializers.pop(key))


@op("in_popitem")
def _in_popitem(w, g):
    graph = w.G(g)
    return lambda: graph.initializers.popitem()[0]


@op("in_clear")
def _in_clear(w, g):
    graph = w.G(g)
    return lambda: graph.initializers.clear()


@op("in_update")
def _in_update(w, g, vs):
    graph, vals = w.G(g), w.Vs(vs)
    return lambda: graph.initializers.update([(v.name if v.name is not None else "k", v) for v in vals])


@op("in_setdefault")
def _in_setdefault(w, g, v):
    graph, val = w.G(g), w.V(v)
    return lambda: w.label(graph.initializers.setdefault(val.name if val.name is not None else "k", val))


# ---- names and payload ------------------------------------------------------------------------------
@op("v_name")
def _v_name(w, v, name):
    val = w.V(v)

    def run():
        val.name = name
    return run


@op("n_name")
def _n_name(w, n, name):
    node = w.N(n)

    def run():
        node.name = name
    return run


@op("c_rename")
def _c_rename(w, vs, names):
    vals = w.Vs(vs)
    return lambda: irc.rename_values(vals, list(names))


@op("v_const")
def _v_const(w, v, t):
    val, ten = w.V(v), w.tensor(t)

    def run():
        val.const_value = ten
    return run


@op("v_type")
def _v_type(w, v, mode):
    val = w.V(v)
    ty, _ = _mk_type(mode)

    def run():
        val.type = ty
    return run


@op("v_dtype")
def _v_dtype(w, v, d):
    val = w.V(v)

    def run():
        val.dtype = DTYPES[d % len(DTYPES)]
    return run


@op("v_shape")
def _v_shape(w, v, mode):
    val = w.V(v)
    _, sh = _mk_type(mode)

    def run():
        val.shape = sh
    return run


@op("v_doc")
def _v_doc(w, v, s):
    val = w.V(v)

    def run():
        val.doc_string = s
    return run


@op("v_mp")
def _v_mp(w, v, k, s):
    val = w.V(v)

    def run():
        val.metadata_props[k] = s
    return run


@op("v_meta")
def _v_meta(w, v, k, s):
    val = w.V(v)

    def run():
        val.meta[k] = s
    return run


@op("n_doc")
def _n_doc(w, n, s):
    node = w.N(n)

    def run():
        node.doc_string = s
    return run


@op("n_mp")
def _n_mp(w, n, k, s):
    node = w.N(n)

    def run():
        node.metadata_props[k] = s
    return run


@op("n_op")
def _n_op(w, n, op_type):
    node = w.N(n)

    def run():
        node.op_type = op_type
    return run


@op("g_name")
def _g_name(w, g, s):
    graph = w.G(g)

    def run():
        graph.name = s
    return run


@op("g_mp")
def _g_mp(w, g, k, s):
    graph = w.G(g)

    def run():
        graph.metadata_props[k] = s
    return run


CONSTRUCTORS = {"val", "node", "node_it", "graph", "func"}
PAYLOAD = {"v_const", "v_type", "v_dtype", "v_shape", "v_doc", "v_mp", "v_meta", "n_doc", "n_mp", "n_op",
           "g_name", "g_mp", "attr_set", "attr_del", "n_name"}
