"""Child of the C17 strace observer: re-derives cases from (seed, case number) and runs the C17 judge
in-process while bracketing every observation window with marker syscalls (a failing ``stat`` of
``/__c17_mark__/<case>/<phase>:b`` ... ``:e``).  It judges nothing itself: the parent attributes the
file syscalls that ``strace -e trace=%file`` logged between the markers."""

from __future__ import annotations

import json
import logging
import sys

import onnx_ir  # noqa: F401

from vfpy.ctx import Ctx
from vfpy.props import c17


def main(argv: list[str]) -> int:
    cases_p, out_p = argv
    logging.getLogger("onnx_ir").setLevel(logging.ERROR)
    with open(cases_p) as f:
        spec = json.load(f)
    ctx = Ctx("C17", spec["tier"], int(spec["seed"]), 0, 1, 1, 1e9)
    c17.setup()
    corpus = c17._corpus_paths()

    def marker(tag: str, label: str) -> None:
        try:
            c17._ORIG_STAT(f"{c17.MARK}{tag}/{label}")
        except OSError:
            pass

    done = []
    # everything (imports, corpus listing) that is not the code under observation happens before the
    # markers; the judge itself only opens windows around library calls
    protos = []
    for case in spec["cases"]:
        _base, kind, _origin, proto, applied = c17.derive_case(ctx, case, corpus)
        protos.append((case, kind, proto, len(applied)))
    c17.FS.marker = marker
    for case, kind, proto, n in protos:
        events, info = c17.judge(proto, kind, tag=str(case))
        done.append({"case": case, "kind": kind, "mutations": n, "in_process_events": [e["core"] for e in events],
                     "outcome": info["outcome"][:120]})
    c17.FS.marker = None
    with open(out_p, "w") as f:
        json.dump({"cases": done}, f)
    return 0


if __name__ == "__main__":
    sys.exit(main(sys.argv[1:]))
