"""C16 - symbolic dimensions compute, print and re-parse with integer semantics.

Monitors (all on the real ``onnx_ir`` objects, through public API only):

* twin construction - every generated expression tree is built with the real ``SymbolicDim``
  operator overloads (``+ - * // / %`` with ints on either side, unary minus,
  ``math.floor/ceil/trunc``; ``min``/``max`` entered as text because the API has no other way)
  and, independently, with exact ``Fraction`` arithmetic (``vfpy/c16_expr.py``);
* ``evaluate`` under complete bindings, under one-symbol-at-a-time partial bindings in a random
  order (the residual must not mention a bound symbol and must complete to the same value),
  after ``simplify()`` (of the dimension or of a ``Shape`` holding it), after print -> parse
  (``SymbolicDim(str(e))``; also of the partial residual and of the simplified dimension), after
  ``Shape.evaluate`` and after a serde round trip of a value whose shape holds the dimension
  (``dim_param``);
* user-supplied SymPy expressions - a third of the random trees get leaves made with the
  documented third constructor form, ``SymbolicDim(<sympy.Expr>)``: symbols the user created with
  assumptions of his own (none, integer, positive, real ...; distinct SymPy objects from the symbol
  the library derives from the same name as text, several of them possibly in one expression) and
  ring expressions computed in SymPy; all monitors above run on them unchanged;
* mixed shapes - a ``Shape`` of 2-4 dimensions of different provenance (ints, unknown, names,
  grammar texts as a loaded ``dim_param`` holds them, operator-built expressions, expressions with
  user-supplied SymPy leaves) over the same few symbol names: after each dimension was seen to
  evaluate exactly on its own, ``Shape.evaluate`` (complete, and one symbol at a time on the
  residual shape), ``Shape.simplify`` (then ``evaluate``) and ``Shape.free_symbols`` must give
  position i what dimension i gives on its own, i.e. the exact value;
* symbol NAMES - every fourth random tree, the second string of every random case and a few
  fixed one-operator trees per case are written over names other than N, M, K: accented latin,
  greek, CJK and other scripts, digits and underscores in every position, dotted and very long
  names, names of the grammar's functions (in their own and in another case), names SymPy gives a
  meaning of its own (E, I, S, O, Q, pi, oo ...), Python keywords - all of them identifiers of the
  documented tokenizer.  The name class is a fixed stratum of the case number.  All monitors
  run unchanged (what a dimension is called must not matter); in addition each such name is
  used alone: ``SymbolicDim(name)`` evaluates, prints, survives ``dim_param`` and is read from
  ``(name)``, ``-name``, ``0 + name``.  A failure that disappears when the names are replaced
  by plain ones is named ``identifier:<class>``;
* strings of the documented grammar (random derivations; bounded exhaustive enumeration of flat
  and singly parenthesised strings) judged against Python's own parse of the same text evaluated
  with ``Fraction`` operands (``vfpy/c16_grammar.py``), then used in further arithmetic and
  printed and re-parsed.

Out-of-domain cases (exact value needs a division by zero or an irrational/complex power) and
cases too large to hand to SymPy are skipped and counted.

Verdicts come only from the exact oracles above.  A failing case is then *named*: shrunk (deepest
failing subtree, greedy hoisting) and classified - the printed text contains a function the
parser does not know (``unparseable:<names>``); the library reads a text exactly as the
documented productions read literally (``unary-minus-power``); SymPy itself returns the same wrong
value for the faithful translation of the expression (``same-in-sympy:<root>``,
``vfpy/c16_sympy_twin.py`` - attribution only); otherwise the operator skeleton of the minimal
witness.  A single case that keeps SymPy busy for more than a few seconds is abandoned and counted
(an interval timer bounds the run; it never produces a verdict).
"""

from __future__ import annotations

import ast
import contextlib
import re
import signal
from fractions import Fraction

import onnx
import onnx_ir as ir
from onnx_ir import serde as ir_serde

from vfpy import c16_expr as X
from vfpy import c16_grammar as G
from vfpy import c16_sympy_twin as T

ID = "C16"
LEVEL = "exploration"
RULE = (
    "tree case: random tree (depth <= 6, 1-3 symbols, int literals on either side) or a member of "
    "the enumerated family of all 1-2 operator trees; non-trivial iff it has >= 2 operators, at "
    "least one binding is in domain and the real build produced a SymbolicDim; distinct by tree; a "
    "third of the random trees carry user-supplied SymPy leaves (symbols with 6 assumption sets, ring "
    "expressions). mixed-shape case: 2-4 dimensions drawn from {int, unknown, name, grammar text, "
    "operator-built tree, tree with user-supplied SymPy leaves} over 1-3 symbol names; non-trivial iff "
    "it holds a user-supplied dimension and one of another provenance and Shape.evaluate was compared; "
    "distinct by the list of dimensions. "
    "string case: random derivation of the documented grammar, or a member of the enumeration "
    "(all flat strings 'u x (op u x)*' and all such strings with one parenthesised operand range, "
    "operands {N,M,2}, seven binary operators, unary-minus runs, total operators <= 2 quick / <= 3 "
    "thorough); non-trivial iff >= 1 operator and >= 1 binding in domain; distinct by text. "
    "'exhaustive' refers to that enumerated string space only. "
    "names: every 4th random tree, one string per random case and 2 fixed one-operator trees per case use "
    "symbol names of a class fixed by the case number (11 classes: accented latin, greek, CJK, other "
    "scripts, digits/underscores, dotted, long, function names in own/other case, SymPy-special, Python keywords)."
)
ASSUMPTIONS = [
    "Python's ast.parse gives the standard precedence/associativity; Fraction arithmetic is exact",
    "bindings are positive integers (symbols are declared positive integers by the library)",
    "out-of-domain (division by zero, irrational/complex power) and too-large cases are skipped",
    "min/max can only be entered as text: SymbolicDim('max(a, b)') with harness-rendered operands",
    "int // dim and int % dim are not offered by the library (TypeError): counted report-only",
    "a greedy shrink names the mechanism; two defects in one expression may be reported as one",
    "SymPy is imported by the harness only to attribute a disagreement (signature 'same-in-sympy') and to "
    "construct user-supplied inputs (symbols with declared assumptions; +, -, *, unary minus over them), never for a verdict",
    "user-declared assumptions are limited to those a positive integer binding satisfies (none, integer, positive, real, nonnegative integer)",
    "a single case that keeps SymPy busy for more than 6 s is abandoned and counted (cases_abandoned_slow)",
    "symbol names are identifiers of the documented tokenizer (first a letter of any script or '_', then letters, "
    "digits, '_', '.'); names Python accepts as identifiers but the tokenizer does not (combining marks, letter-numbers, "
    "middle dot) are not used",
]

ENUM_OPERANDS = ("N", "M", "2")
ENUM_BLOCK = 150
SMALL_BLOCK = 8
STRINGS_PER_CASE = 5
# (max_ops -> size) of G.enumerate_strings over 3 operands; verified at run time by the last block
ENUM_SIZE = {2: 4230, 3: 187185}
ENUM_BINDINGS = [
    {"N": 3, "M": 5},
    {"N": 4, "M": 2},
    {"N": 7, "M": 3},
]
SMALL_BINDINGS = [
    {"N": 3, "M": 5, "K": 2},
    {"N": 8, "M": 3, "K": 7},
    {"N": 1, "M": 1, "K": 1},
    {"N": 5, "M": 12, "K": 4},
]
_N_SMALL = None


def n_small_trees() -> int:
    global _N_SMALL
    if _N_SMALL is None:
        _N_SMALL = sum(1 for _ in X.enumerate_small_trees())
    return _N_SMALL


def layout(tier: str) -> dict:
    max_ops = 2 if tier == "quick" else 3
    enum_blocks = -(-ENUM_SIZE[max_ops] // ENUM_BLOCK)
    small_blocks = -(-n_small_trees() // SMALL_BLOCK)
    mixed = 6000 if tier == "quick" else 80000
    # case ids: [0, small_blocks) small-tree blocks; after that every ``stride``-th id is a block
    # of the string enumeration and the others are random (tree + strings) cases.  quick: the
    # (cheap) enumeration comes first as a whole; thorough: interleaved, so that a run truncated by
    # the time budget has advanced every monitor proportionally
    if tier == "quick":
        stride = 1
    else:
        stride = max(1, mixed // enum_blocks) + 1
        stride += 1 - stride % 2  # odd: consecutive enumeration blocks land on different shards
    total = small_blocks + enum_blocks * stride + max(0, mixed - enum_blocks * (stride - 1))
    return {"max_ops": max_ops, "enum_blocks": enum_blocks, "small_blocks": small_blocks,
            "mixed": mixed, "stride": stride, "total": total}


def plan(tier: str) -> dict:
    lay = layout(tier)
    quick = tier == "quick"
    return {
        "cases": lay["total"],
        "shards": 16,
        "budget_s": 55 if quick else 540,
        "floors": {
            # sized so that a run truncated by the time budget on a heavily loaded machine still
            # passes; whether the enumerations were completed is what coverage.exhaustive says
            "eval_compared": 1500 if quick else 15000,
            "partial_compared": 600 if quick else 6000,
            "simplify_compared": 1200 if quick else 12000,
            "printparse_compared": 5000 if quick else 60000,
            "serde_compared": 1200 if quick else 12000,
            "shape_evaluate_compared": 600 if quick else 6000,
            "grammar_compared": 8000 if quick else 100000,
            "enum_strings": ENUM_SIZE[lay["max_ops"]] // (2 if quick else 10),
            "small_trees": n_small_trees() // 2,
            "op_floordiv(dim,int)": 40,
            "op_floordiv(dim,dim)": 40,
            "op_mod(dim,int)": 40,
            "op_mod(dim,dim)": 40,
            "op_sub(int,dim)": 30,
            "op_truediv(int,dim)": 30,
            "op_ceil": 30,
            "op_trunc": 30,
            "op_floor": 30,
            "op_neg": 30,
            "op_min(text)": 8,
            "op_max(text)": 8,
            "trees_with_user_sympy_leaves": 60 if quick else 600,
            "mixshape_evaluate_compared": 1000 if quick else 10000,
            "mixshape_partial_compared": 500 if quick else 5000,
            "mixshape_simplify_compared": 300 if quick else 3000,
            "mixshape_one_name_as_several_symbols": 100 if quick else 1000,
            "named_trees_judged": 600 if quick else 8000,
            "named_printparse_compared": 1500 if quick else 20000,
            "named_grammar_compared": 1500 if quick else 20000,
            "named_serde_compared": 300 if quick else 4000,
            "name_alone_compared": 3000 if quick else 40000,
            **{f"named_class_{c}": 20 if quick else 250 for c in G.NAME_CLASSES},
        },
        "min_nontrivial": 2500 if quick else 40000,
        "params": lay,
    }


# ================================================================================================
# reading a result
# ================================================================================================
_RATIONAL = re.compile(r"\s*(-?\d+)\s*(?:/\s*(\d+))?\s*")


def as_exact(r) -> Fraction | None:
    """The rational value of what ``evaluate`` returned: an int, or a dimension whose text is a
    rational literal (p, -p, p/q, -p/q)."""
    if isinstance(r, bool):
        return None
    if isinstance(r, int):
        return Fraction(r)
    if isinstance(r, ir.SymbolicDim) and isinstance(r.value, str):
        m = _RATIONAL.fullmatch(r.value)
        if m and (m.group(2) is None or int(m.group(2)) != 0):
            return Fraction(int(m.group(1)), int(m.group(2) or 1))
    return None


def show(r) -> str:
    return repr(r) if not isinstance(r, Fraction) else str(r)


class Fail:
    __slots__ = ("kind", "cls", "stage", "binding", "got", "want", "text", "exc")

    def __init__(self, kind, cls, stage="", binding=None, got=None, want=None, text=None, exc=None):
        self.kind, self.cls, self.stage = kind, cls, stage
        self.binding, self.got, self.want, self.text, self.exc = binding, got, want, text, exc

    @property
    def key(self):
        return (self.kind, self.cls, self.stage)

    def describe(self) -> str:
        s = f"{self.kind}/{self.cls}" + (f"[{self.stage}]" if self.stage else "")
        if self.text is not None:
            s += f" text={self.text!r}"
        if self.binding is not None:
            s += f" bindings={self.binding}"
        if self.want is not None or self.got is not None:
            s += f" got={show(self.got)} expected={show(self.want)}"
        if self.exc:
            s += f" raised={self.exc}"
        return s


def _nocount(key, n=1):
    return None


def _user_leaf(node):
    """A dimension from a user-supplied SymPy expression (third documented constructor form)."""
    return ir.SymbolicDim(T.user_expr(node))


def build(t, count=None):
    return X.build_real(t, ir.SymbolicDim, count, user_leaf=_user_leaf)


# ---- bounding the run (never a verdict): SymPy occasionally needs minutes for one call ----------
CASE_LIMIT_S = 6.0
NAMING_LIMIT_S = 10.0


class Slow(BaseException):
    """Raised by the interval timer; BaseException so that no ``except Exception`` swallows it."""


@contextlib.contextmanager
def bounded(seconds: float):
    def on_alarm(signum, frame):
        raise Slow()

    old = signal.signal(signal.SIGALRM, on_alarm)
    old_timer = signal.setitimer(signal.ITIMER_REAL, seconds, 1.0)
    try:
        yield
    finally:
        signal.setitimer(signal.ITIMER_REAL, 0)
        signal.signal(signal.SIGALRM, old)
        if old_timer[0] > 0:  # nested use: re-arm the outer timer with what is left
            signal.setitimer(signal.ITIMER_REAL, max(0.05, old_timer[0] - seconds), 1.0)


def _exc(exc: BaseException) -> str:
    return f"{type(exc).__name__}: {str(exc)[:160]}"


def _exc_class(exc: BaseException) -> str:
    """Exception type plus the constant head of its message (up to the first quote/digit)."""
    head = re.split(r"['\"\d]", str(exc), 1)[0].strip().rstrip(":").strip()
    return f"{type(exc).__name__}({head[:40]})"


def undocumented_functions(text: str) -> list[str]:
    names = set(re.findall(r"([^\W\d][\w.]*)\s*\(", text))
    return sorted(names - set(G.FUNCS_ALLOWED))


# ================================================================================================
# print -> parse of one dimension
# ================================================================================================
def reparse_fails(dim, in_dom, stage, count) -> list[Fail]:
    """``in_dom``: list of (bindings, expected_value_of_dim).  The text of ``dim`` must construct
    a dimension with the same evaluations."""
    text = str(dim)
    out: list[Fail] = []
    if text != dim.value:
        out.append(Fail("print-parse", "str-differs-from-value", stage, text=text))
    try:
        again = ir.SymbolicDim(text)
    except Exception as exc:  # noqa: BLE001 - constructor is lazy; any raise is a finding
        return [Fail("print-parse", "unparseable", stage, text=text, exc=_exc(exc), binding=in_dom[0][0])]
    for b, want in in_dom:
        try:
            r = again.evaluate(b)
        except Exception as exc:  # noqa: BLE001 - the statement says the text parses back
            count("printparse_unparseable")
            out.append(Fail("print-parse", "unparseable", stage, text=text, exc=_exc(exc), binding=b, want=want))
            out[-1].got = exc
            break
        got = as_exact(r)
        count("printparse_compared")
        if got != want:
            out.append(Fail("print-parse", "value-changed", stage, b, r, want, text))
            break
    return out


# ================================================================================================
# all checks on one tree
# ================================================================================================
ALL_KINDS = ("eval", "partial", "simplify", "print-parse", "shape", "serde")


def tree_fails(t, bindings, which=ALL_KINDS, count=_nocount, order_seed=0, via_shape=False) -> list[Fail] | None:
    """Run the selected monitors on tree ``t``.  Returns None when the case is report-only
    (unsupported reflected operator).  Raises X.NotBuildable for harness-side non-cases."""
    exacts = []
    for b in bindings:
        try:
            exacts.append(X.exact(t, b))
        except G.OutOfDomain:
            exacts.append(None)
    any_in_domain = any(v is not None for v in exacts)
    try:
        e = build(t, count)
    except X.UnsupportedReflected as u:
        count(f"report_only_unsupported_reflected_{u.op}")
        return None
    except X.NotBuildable:
        raise
    except Exception as exc:  # noqa: BLE001 - construction may raise only out of domain
        if any_in_domain:
            return [Fail("build", "raises:" + _exc_class(exc), exc=_exc(exc),
                         binding=next(b for b, v in zip(bindings, exacts) if v is not None))]
        count("build_raised_out_of_domain_" + type(exc).__name__)
        return []
    if not isinstance(e, ir.SymbolicDim):
        return [Fail("build", "result-not-SymbolicDim:" + type(e).__name__)]
    count("trees_built")
    if not any_in_domain:
        count("trees_out_of_domain_for_all_bindings")
        return []
    fails: list[Fail] = []
    reals: list[Fraction | None] = []  # what evaluate returned (as rational) per binding
    in_dom: list[tuple[dict, Fraction]] = []

    # ---- complete bindings ---------------------------------------------------------------------
    for b, want in zip(bindings, exacts):
        if want is None:
            count("eval_out_of_domain")
            reals.append(None)
            continue
        try:
            r = e.evaluate(b)
        except Exception as exc:  # noqa: BLE001
            if "eval" in which:
                fails.append(Fail("eval", "raises:" + _exc_class(exc), binding=b, want=want, exc=_exc(exc)))
            reals.append(None)
            continue
        got = as_exact(r)
        reals.append(got)
        if "eval" in which:
            count("eval_compared")
            if got is None:
                fails.append(Fail("eval", "non-numeric-result", binding=b, got=r, want=want))
            elif got != want:
                fails.append(Fail("eval", "wrong-value", binding=b, got=r, want=want))
            elif not isinstance(r, int) and want.denominator == 1:
                count("report_only_integer_returned_as_dimension")
            elif not isinstance(r, int):
                count("eval_rational_results")
        if got is not None:
            in_dom.append((b, got))
    if fails and "eval" in which:
        # everything below compares against evaluate(); report the root cause only
        return fails
    if not in_dom:
        return fails

    # ---- partial bindings, one symbol at a time ------------------------------------------------
    residual_for_reparse = None
    if "partial" in which:
        names = sorted(bindings[0])
        for bi, (b, want) in enumerate(in_dom[:2]):
            order = _partial_order(names, order_seed + bi)  # deterministic permutation
            r = e
            bound: list[str] = []
            bad = None
            for s in order:
                if not isinstance(r, ir.SymbolicDim):
                    break
                try:
                    r = r.evaluate({s: b[s]})
                except Exception as exc:  # noqa: BLE001
                    bad = Fail("partial", "raises:" + _exc_class(exc), binding={"order": order, **b}, want=want, exc=_exc(exc))
                    break
                bound.append(s)
                count("partial_steps")
                if isinstance(r, ir.SymbolicDim) and as_exact(r) is None:
                    try:
                        left = set(r.free_symbols())
                    except Exception as exc:  # noqa: BLE001
                        bad = Fail("partial", "free_symbols-raises:" + _exc_class(exc), binding={"order": order, **b}, exc=_exc(exc))
                        break
                    if left & set(bound):
                        bad = Fail("partial", "bound-symbol-remains", binding={"order": order, **b}, got=r, want=want)
                        break
                    if left and residual_for_reparse is None:
                        rest = {n: b[n] for n in names if n not in bound}
                        residual_for_reparse = (r, rest)
            if bad is None:
                got = as_exact(r)
                count("partial_compared")
                if got is None:
                    bad = Fail("partial", "non-numeric-result", binding={"order": order, **b}, got=r, want=want)
                elif got != want:
                    bad = Fail("partial", "wrong-value", binding={"order": order, **b}, got=r, want=want)
            if bad is not None:
                fails.append(bad)
                residual_for_reparse = None  # the chain itself is wrong: one root cause
                break

    # ---- print -> parse ---------------------------------------------------------------------------
    text_ok = True
    if "print-parse" in which or "serde" in which:
        pp = reparse_fails(e, in_dom, "", count if "print-parse" in which else _nocount)
        text_ok = not pp
        if "print-parse" in which:
            fails.extend(pp)
            if text_ok and residual_for_reparse is not None:
                # the residual's text must denote what the residual itself evaluates to
                r, rest = residual_for_reparse
                try:
                    own = as_exact(r.evaluate(rest))
                except Exception:  # noqa: BLE001 - judged by the partial monitor
                    own = None
                if own is not None:
                    fails.extend(reparse_fails(r, [(rest, own)], "residual", count))

    # ---- simplify ---------------------------------------------------------------------------------
    if "simplify" in which:
        try:
            if via_shape:
                count("shape_simplify_calls")
                s = ir.Shape([3, e, "M"]).simplify()[1]
            else:
                count("simplify_calls")
                s = e.simplify()
        except Exception as exc:  # noqa: BLE001
            # the statement says what a simplified dimension must evaluate to, not that
            # simplification always succeeds: report only
            count("report_only_simplify_raised_" + type(exc).__name__)
            s = None
        if s is not None:
            if not isinstance(s, ir.SymbolicDim):
                fails.append(Fail("simplify", "result-not-SymbolicDim:" + type(s).__name__))
            else:
                ok = True
                for b, want in in_dom:
                    try:
                        r = s.evaluate(b)
                    except Exception as exc:  # noqa: BLE001
                        fails.append(Fail("simplify", "evaluate-raises:" + _exc_class(exc), binding=b, want=want, exc=_exc(exc), text=str(s)))
                        ok = False
                        break
                    count("simplify_compared")
                    if as_exact(r) != want:
                        fails.append(Fail("simplify", "changes-evaluation", binding=b, got=r, want=want, text=str(s)))
                        ok = False
                        break
                if ok and text_ok and "print-parse" in which:
                    if str(s) != str(e):
                        count("simplify_changed_text")
                    fails.extend(reparse_fails(s, in_dom, "simplified", count))

    # ---- Shape.evaluate / free_symbols ------------------------------------------------------------
    if "shape" in which:
        shape = ir.Shape([e, 7, "M", None])
        for b, want in in_dom[:2]:
            try:
                se = shape.evaluate(b)
            except Exception as exc:  # noqa: BLE001
                fails.append(Fail("shape", "evaluate-raises:" + _exc_class(exc), binding=b, exc=_exc(exc)))
                break
            count("shape_evaluate_compared")
            problem = None
            if not isinstance(se, ir.Shape) or se.rank() != 4:
                problem = "evaluate:not-a-shape-of-same-rank"
            elif as_exact(se[0]) != want:
                problem = "evaluate:expression-dim"
            elif se[1] != 7 or not isinstance(se[1], int):
                problem = "evaluate:int-dim"
            elif se[2] != b["M"] or not isinstance(se[2], int):
                problem = "evaluate:named-dim"
            elif not (isinstance(se[3], ir.SymbolicDim) and se[3].value is None):
                problem = "evaluate:unknown-dim"
            if problem:
                fails.append(Fail("shape", problem, binding=b, got=list(se) if isinstance(se, ir.Shape) else se, want=want))
                break
        try:
            fs_shape, fs_dim = shape.free_symbols(), e.free_symbols()
            if set(fs_shape) != set(fs_dim) | {"M"}:
                fails.append(Fail("shape", "free_symbols-not-union", got=sorted(fs_shape), want=sorted(set(fs_dim) | {"M"})))
            if not set(fs_dim) <= set(X.symbols(t)):
                fails.append(Fail("shape", "free_symbols-invents-symbol", got=sorted(fs_dim), want=sorted(X.symbols(t))))
        except Exception as exc:  # noqa: BLE001
            fails.append(Fail("shape", "free_symbols-raises:" + _exc_class(exc), exc=_exc(exc)))

    # ---- serde round trip through dim_param ---------------------------------------------------------
    if "serde" in which and text_ok:
        shape = ir.Shape([e, 7, None, "M"])
        try:
            value = ir.Value(name="v", type=ir.TensorType(ir.DataType.FLOAT), shape=shape)
            data = ir_serde.serialize_value(value).SerializeToString()
            proto = onnx.ValueInfoProto()
            proto.ParseFromString(data)
            stored = proto.type.tensor_type.shape.dim[0]
            back = ir_serde.deserialize_value_info_proto(proto, None).shape
            count("serde_roundtrips")
            problem = None
            if stored.WhichOneof("value") != "dim_param":
                problem = "expression-not-stored-as-dim_param"
            elif back is None or back.rank() != 4:
                problem = "rank"
            elif back[1] != 7 or not (isinstance(back[2], ir.SymbolicDim) and back[2].value is None):
                problem = "other-dims"
            if problem:
                fails.append(Fail("serde", problem, text=str(e)))
            else:
                if stored.dim_param != str(e):
                    count("report_only_serde_text_differs")
                for b, want in in_dom:
                    r = back[0].evaluate(b) if isinstance(back[0], ir.SymbolicDim) else back[0]
                    count("serde_compared")
                    if as_exact(r) != want:
                        fails.append(Fail("serde", "value-changed", binding=b, got=r, want=want, text=stored.dim_param))
                        break
        except Exception as exc:  # noqa: BLE001
            fails.append(Fail("serde", "raises:" + _exc_class(exc), exc=_exc(exc), text=str(e)))
    elif "serde" in which:
        count("serde_skipped_text_already_failing")
    return fails


# ================================================================================================
# naming the mechanism of a failure (signatures); none of this decides whether a case fails
# ================================================================================================
def root_class(op: str) -> str:
    return {"floordiv": "rounding", "floor": "rounding", "ceil": "rounding", "trunc": "rounding",
            "mod": "Mod", "Mod": "Mod", "d%3": "Mod", "d//2": "rounding", "Max": "max", "Min": "min"}.get(op, op)


def _deepest_failing_subtree(t, fails_fn, limit=250):
    """Post-order: the first subtree that fails while none of its own subtrees does."""
    tested = 0

    def walk(n):
        nonlocal tested
        if X.is_leaf(n):
            return None
        for c in X.children(n):
            found = walk(c)
            if found is not None:
                return found
        if n is t:
            return None
        if not X.has_sym(n) or tested >= limit:
            return None
        tested += 1
        try:
            return n if fails_fn(n) else None
        except X.NotBuildable:
            return None

    return walk(t) or t


def _reparse_value(text, b):
    try:
        return as_exact(ir.SymbolicDim(text).evaluate(b))
    except Exception:  # noqa: BLE001
        return None


def _outcome(fn):
    """What a computation produced, comparable between the library and the SymPy twin: a
    Fraction, None (non-numeric result) or ('raises', exception type name)."""
    try:
        return fn()
    except Exception as exc:  # noqa: BLE001 - Slow is a BaseException and passes through
        return ("raises", type(exc).__name__)


def sympy_label(kinds, outcomes) -> str:
    """Stable label of a disagreement that SymPy itself reproduces: the exception SymPy raises, or
    the most specific evaluating function present (Mod > floor/ceil/trunc > max > min)."""
    for o in outcomes:
        if isinstance(o, tuple):
            return f"raises-{o[1]}"
    kinds = {root_class(k) for k in kinds}
    for k in ("Mod", "rounding", "max", "min"):
        if k in kinds:
            return k
    return "+".join(sorted(kinds)) or "arithmetic"


def ast_kinds(node) -> set[str]:
    out = set()
    for n in ast.walk(node):
        if isinstance(n, ast.BinOp):
            out.add(G._OPNAME[type(n.op)])
        elif isinstance(n, ast.UnaryOp):
            out.add("neg")
        elif isinstance(n, ast.Call):
            out.add(n.func.id)
    return out


def _std_values(pytext, names, bindings, funcs=G.FUNCS_ALLOWED + G.FUNCS_DIAGNOSTIC):
    """Python's reading of ``pytext`` under each binding (None when out of domain/too large)."""
    tree = G.python_meaning(pytext, funcs=funcs)
    alias_of = {real: alias for alias, real in names.items()}
    out = []
    for b in bindings:
        env = {alias_of[k]: Fraction(v) for k, v in b.items() if k in alias_of}
        try:
            out.append(G.eval_ast(tree, env))
        except (G.OutOfDomain, G.TooLarge, KeyError):
            out.append(None)
    return tree, out


def _shrink_text(pytext: str, names: dict[str, str], bindings):
    """Shrink the Python AST of a text on which the library disagrees with Python's meaning.
    Returns (minimal ast, its shape, minimal python text, minimal real text)."""
    tree = G.python_meaning(pytext, funcs=G.FUNCS_ALLOWED + G.FUNCS_DIAGNOSTIC)

    def fails(node) -> bool:
        try:
            ptxt = ast.unparse(node)
            expr = G.python_meaning(ptxt, funcs=G.FUNCS_ALLOWED + G.FUNCS_DIAGNOSTIC)
        except Exception:  # noqa: BLE001 - candidate not expressible: not a witness
            return False
        return bool(string_fails(G.real_text_from_python(ptxt, names), ptxt, names, bindings, expr=expr, extras=False))

    small = G.shrink_ast(tree.body, fails)
    ptxt = ast.unparse(small)
    return small, G.ast_shape(small), ptxt, G.real_text_from_python(ptxt, names)


def sympy_verdict_text(node, names, bindings, arith: str | None = None, real: str | None = None) -> str | None:
    """Attribution: does plain SymPy, given the faithful translation of the *standard reading* of
    the text, produce exactly what the library produced (value, non-numeric result or exception
    type) under every binding in domain, and is that wrong under at least one?  Returns the
    stable label, or None when the library and SymPy disagree (a defect of the library itself)."""
    twin_build = _outcome(lambda: T.ARITH[arith](T.from_ast(node, names)) if arith else T.from_ast(node, names))
    if real is None:
        real = G.real_text_from_python(ast.unparse(node), names)
    alias_of = {r: a for a, r in names.items()}
    wrong = []
    for b in bindings:
        env = {alias_of[k]: Fraction(v) for k, v in b.items() if k in alias_of}
        try:
            std = G.eval_ast(node, env)
            if arith:
                std = _ARITH_EXACT[arith](std)
        except (G.OutOfDomain, G.TooLarge, KeyError):
            continue

        def lib_value(b=b):
            d = ir.SymbolicDim(real)
            if arith:
                d = _ARITH_REAL[arith](d)
            return as_exact(d.evaluate(b))

        lib = _outcome(lib_value)
        twin = twin_build if isinstance(twin_build, tuple) else _outcome(lambda b=b: T.value(twin_build, b))
        if twin != lib:
            return None
        if lib != std:
            wrong.append(lib)
    if not wrong:
        return None
    return sympy_label(ast_kinds(node) | ({arith} if arith else set()), wrong)


def name_text_disagreement(text, pytext, names, bindings) -> tuple[str, str | None]:
    """Mechanism name for 'the library's value of ``text`` differs from Python's reading'.
    SymPy's own behaviour is recognised first (stable label); only a genuine library-vs-SymPy
    disagreement is shrunk and named by the operator skeleton of its minimal witness."""
    tree = G.python_meaning(pytext, funcs=G.FUNCS_ALLOWED + G.FUNCS_DIAGNOSTIC)
    label = sympy_verdict_text(tree.body, names, bindings, real=text)
    if label:
        return f"same-in-sympy:{label}", None
    try:
        small, shape, sptxt, sreal = _shrink_text(pytext, names, bindings)
    except Exception:  # noqa: BLE001 - naming only
        return "unshrunk", None
    label = sympy_verdict_text(small, names, bindings)
    if label:
        return f"same-in-sympy:{label}", sreal
    # does the failure depend on what the symbols are called?
    exotic = [n for n in names.values() if G.name_class(n) != "plain"]
    if exotic:
        tame = G.tame_names(exotic)

        def fails_with(mapping) -> bool:
            names2 = {a: mapping.get(r, r) for a, r in names.items()}
            b2 = [{mapping.get(k, k): v for k, v in b.items()} for b in bindings]
            return bool(string_fails(G.real_text_from_python(sptxt, names2), sptxt, names2, b2, extras=False))

        if fails_with({}) and not fails_with(tame):
            return f"identifier:{G.name_classes(_responsible_names(tame, fails_with))}", sreal
    named = G.mechanism_name(shape)
    if named != shape:
        return named, sreal
    # does the failure depend on the spelling (whitespace, leading zeros, identifier form)?
    normal = ast.unparse(tree)
    if not string_fails(G.real_text_from_python(normal, names), normal, names, bindings, extras=False):
        feats = []
        if re.search(r"\s{2,}|\t|^\s|\s$", text):
            feats.append("whitespace")
        if re.search(r"(?<![\w.])0\d", text):
            feats.append("leading-zero")
        if any("." in n for n in names.values()):
            feats.append("dotted-identifier")
        return "text-form-sensitive:" + ("+".join(feats) or "parentheses/spacing"), sreal
    return shape, sreal


def classify_printed_text(text: str, pairs) -> tuple[str, str, str | None]:
    """A printed text does not parse back to the evaluations of the dimension it was printed from
    (``pairs``: (bindings, value of the dimension)).  Is the text wrong (Python's reading of it
    differs from the dimension) or does the parser misread a correct text?"""
    bindings = [b for b, _ in pairs]
    pytext, names = G.alias_text(text, set().union(*[set(b) for b in bindings]))
    try:
        _, stds = _std_values(pytext, names, bindings)
    except G.NotInGrammar:
        return "value-changed", "", None
    if any(s != want for s, (_, want) in zip(stds, pairs)):
        return "printed-text-wrong", "", None
    mech, minimal = name_text_disagreement(text, pytext, names, bindings)
    return "parser-misreads", mech, minimal


def as_exact_or_none(thunk):
    try:
        return as_exact(thunk())
    except Exception:  # noqa: BLE001 - mirrors the complete-bindings stage: a raising evaluate() is not "in the domain"
        return None


def _partial_order(names: list[str], k: int) -> list[str]:
    order = list(names)
    return [order.pop(k % len(order)) for _ in range(len(order))] if order else order


def sympy_verdict_tree(t, bindings, kind: str, order_seed: int) -> str | None:
    """Same attribution for a tree: the faithful SymPy translation is built, (simplified,)
    substituted (in the same partial order) and compared with what the library did."""
    twin_build = _outcome(lambda: T.simplified(T.from_tree(t)) if kind == "simplify" else T.from_tree(t))

    def lib_build():
        e = build(t)
        return e.simplify() if kind == "simplify" else e

    try:
        e = lib_build()
    except (X.NotBuildable, X.UnsupportedReflected):
        return None
    except Exception as exc:  # noqa: BLE001
        e = ("raises", type(exc).__name__)
    wrong = []
    bi = -1  # index among the bindings the partial stage of tree_fails() used: in the domain, evaluate() numeric
    for b in bindings:
        try:
            want = X.exact(t, b)
        except G.OutOfDomain:
            continue
        if kind == "partial":
            # the order of a partial evaluation is part of the observation (SymPy's rewriting of nested Mod
            # depends on which symbol becomes a number first): use the very order the failing run used
            if isinstance(e, tuple) or as_exact_or_none(lambda b=b: e.evaluate(b) if isinstance(e, ir.SymbolicDim) else e) is None:
                continue
            bi += 1
        order = _partial_order(sorted(b), order_seed + bi) if kind == "partial" else None

        def lib_value(b=b, order=order):
            r = e
            for s_ in order or []:
                if isinstance(r, ir.SymbolicDim):
                    r = r.evaluate({s_: b[s_]})
            return as_exact(r.evaluate(b) if isinstance(r, ir.SymbolicDim) else r)

        lib = e if isinstance(e, tuple) else _outcome(lib_value)
        twin = twin_build if isinstance(twin_build, tuple) else _outcome(lambda b=b, order=order: T.value(twin_build, b, order))
        if twin != lib:
            return None
        if lib != want:
            wrong.append(lib)
    if not wrong:
        return None
    return sympy_label(X.op_kinds(t), wrong)


def _floor_printed_as_identity(t, bindings) -> str | None:
    """Message detail: a subexpression with a non-integer exact value whose floor the library
    prints as the subexpression itself (its integrality is misjudged)."""
    import math

    def walk(n):
        if X.is_leaf(n):
            return None
        for c in X.children(n):
            r = walk(c)
            if r:
                return r
        for probe in ([["truediv", n[1], n[2]]] if n[0] == "floordiv" else []) + [n]:
            try:
                d = build(probe)
                if not isinstance(d, ir.SymbolicDim):
                    continue
                for b in bindings:
                    try:
                        v = X.exact(probe, b)
                    except G.OutOfDomain:
                        continue
                    if v.denominator != 1 and str(math.floor(d)) == str(d + 0):
                        return str(d + 0)
            except Exception:  # noqa: BLE001
                continue
        return None

    return walk(t)


def report_tree(ctx, t, bindings, fails, order_seed, via_shape, source) -> None:
    """Shrink each distinct failure class of this tree and report it under a mechanism-level
    signature."""
    seen: set = set()
    for f in fails:
        if f.key in seen:
            continue
        seen.add(f.key)
        try:
            with bounded(NAMING_LIMIT_S):
                sig, small, w, detail = _name_tree_failure(t, bindings, f, order_seed, via_shape)
        except Slow:
            ctx.count("violations_unnamed_abandoned_slow")
            ctx.note(f"naming abandoned (slow): {f.describe()[:300]} in {X.pretty(t)[:300]}")
            continue
        msg = (
            f"{w.describe()}\n  minimal witness: {X.pretty(small)}   tree={small}\n"
            f"  found in ({source}): {X.pretty(t)}" + (f"\n  {detail}" if detail else "")
        )
        ctx.violation(sig, msg, {
            "what": "tree", "tree": small, "bindings": bindings, "order_seed": order_seed,
            "via_shape": via_shape, "original": t,
        })


def _name_tree_failure(t, bindings, f, order_seed, via_shape):
    which = (f.kind,) if f.kind in ALL_KINDS else ("eval",)
    if f.stage == "simplified":
        which = ("simplify", "print-parse")
    elif f.stage == "residual":
        which = ("partial", "print-parse")
    costly = "simplify" in which
    twin_kind = f.kind if f.kind in ("partial", "simplify") else "eval"

    # 1. SymPy's own behaviour first, on the witness as found: a stable label, no shapes
    if f.kind in ("eval", "partial", "simplify", "build", "shape", "serde"):
        label = sympy_verdict_tree(t, bindings, twin_kind, order_seed)
        if label:
            detail = "plain SymPy does the same with the faithfully translated expression"
            culprit = _floor_printed_as_identity(t, bindings) if not label.startswith("raises") else None
            if culprit:
                detail += f"; floor({culprit}) is printed as {culprit} although its value is not an integer"
            return f"{f.kind}|same-in-sympy:{label}", t, f, detail

    def same(cand, _key=f.key, _which=which):
        got = tree_fails(cand, bindings, _which, _nocount, order_seed, via_shape)
        return bool(got) and any(g.key == _key for g in got)

    small = _deepest_failing_subtree(t, same)
    if not costly or X.n_ops(small) <= 8:
        small = X.shrink_tree(small, same, max_tests=12 if costly else 40)
    again = [g for g in (tree_fails(small, bindings, which, _nocount, order_seed, via_shape) or []) if g.key == f.key]
    w = again[0] if again else f
    if not again:
        small = t
    stage = f"|stage={w.stage}" if w.stage else ""
    detail = None
    if w.kind == "print-parse" and w.cls == "unparseable":
        names = undocumented_functions(w.text or "")
        what = "+".join(names) if names else (_exc_class(w.got) if isinstance(w.got, BaseException) else "?")
        sig = f"print-parse|unparseable:{what}|root={small[0]}{stage}"
        if "Piecewise" in names:
            # one mechanism whatever else the text contains: SymPy prints a Piecewise (with Eq/True
            # conditions and tuple arguments), which is outside the expression grammar altogether
            sig = "print-parse|unparseable:Piecewise"
        elif not names and w.want is not None:
            # every function is known to the parser, yet reading the text back raises: is that
            # what plain SymPy does with the standard reading of the text?
            label = _printed_text_sympy_label(w.text, [(w.binding, w.want)])
            if label:
                sig = f"print-parse|same-in-sympy:{label}{stage}"
    elif w.kind == "print-parse" and w.cls == "value-changed":
        cls, mech, minimal = classify_printed_text(w.text, [(w.binding, w.want)])
        if cls != "parser-misreads":
            mech = X.shape(small)
        if minimal:
            detail = f"minimal text: {minimal!r}"
        sig = f"print-parse|{cls}|{mech}{stage}"
    else:
        sig = f"{w.kind}|{w.cls}|{X.shape(small)}{stage}"
        if w.kind == "shape" and names_from_several_sources([["expr", small], ["name", "M"]]):
            # Shape([e, 7, "M", None]): a name reaches the shape as several SymPy objects - that,
            # not the operators around it, is the mechanism (the dimension alone evaluated exactly)
            sig = f"shape|{w.cls}|one-name-as-several-sympy-symbols"
        if w.kind in ("eval", "partial", "simplify", "build", "shape", "serde"):
            label = sympy_verdict_tree(small, bindings, twin_kind, order_seed)
            if label:
                sig = f"{w.kind}|same-in-sympy:{label}"
                detail = "plain SymPy does the same with the faithfully translated expression"
    if again and "same-in-sympy" not in sig and sig != "print-parse|unparseable:Piecewise":
        # does the failure depend on what the symbols are called?  (Not asked for a printed Piecewise: no
        # identifier makes that text parseable; whether SymPy arrives at a Piecewise at all depends on its
        # canonical argument order, hence on the names - SymPy's doing, the mechanism stays the same.)
        classes = _identifier_sensitive_tree(small, bindings, f.key, which, order_seed, via_shape)
        if classes:
            parts = sig.split("|")
            if w.kind == "print-parse" and w.cls == "unparseable" and isinstance(w.got, BaseException):
                parts[1] = "unparseable:" + _exc_class(w.got)  # not the functions the text happens to contain
            sig = "|".join(parts[:2] + [f"identifier:{classes}"] + [p_ for p_ in parts[2:] if p_.startswith("stage=")])
            detail = ((detail + "; ") if detail else "") + "the same expression over plain symbol names does not fail"
    return sig, small, w, detail


def _identifier_sensitive_tree(small, bindings, key, which, order_seed, via_shape) -> str | None:
    """Naming aid: the classes of the symbol names the failure of ``small`` depends on (it is gone
    once they are replaced by plain names bound to the same values), or None."""
    exotic = [n for n in X.symbols(small) if G.name_class(n) != "plain" and all(n in b for b in bindings)]
    if not exotic:
        return None
    tame = G.tame_names(exotic)
    b2 = [dict(b, **{tame[n]: b[n] for n in exotic}) for b in bindings]

    def fails_with(mapping) -> bool:
        try:
            got = tree_fails(X.rename(small, mapping), b2, which, _nocount, order_seed, via_shape)
        except X.NotBuildable:
            return True
        return bool(got) and any(g.key == key for g in got)

    if not fails_with({}) or fails_with(tame):
        return None
    return G.name_classes(_responsible_names(tame, fails_with))


def _responsible_names(tame: dict[str, str], fails_with) -> list[str]:
    """With every name of ``tame`` replaced the failure is gone; put the names back one at a time
    and keep replaced only those whose return brings the failure back."""
    mapping = dict(tame)
    for n in sorted(tame):
        trial = {k: v for k, v in mapping.items() if k != n}
        if trial and not fails_with(trial):
            mapping = trial
    return sorted(mapping)


def identifier_sensitive_text(text, pairs) -> str | None:
    """Naming aid: ``text`` does not read back to the wanted values (``pairs``: (bindings, value)).
    Does it once its symbol names are replaced by plain ones?  Returns the classes of the names
    responsible, or None."""
    if not text or any(want is None for _, want in pairs):
        return None
    bindings = [{k: v for k, v in b.items() if isinstance(k, str) and isinstance(v, int)} for b, _ in pairs]
    pytext, names = G.alias_text(text, set().union(*[set(b) for b in bindings]))
    exotic = [n for n in names.values() if G.name_class(n) != "plain"]
    if not exotic:
        return None
    tame = G.tame_names(exotic)

    def reads_back(mapping) -> bool:
        t2 = G.real_text_from_python(pytext, {a: mapping.get(r, r) for a, r in names.items()})
        return all(_reparse_value(t2, {mapping.get(k, k): v for k, v in b.items()}) == want
                   for b, (_, want) in zip(bindings, pairs))

    if reads_back({}) or not reads_back(tame):
        return None
    return G.name_classes(_responsible_names(tame, lambda m: not reads_back(m)))


def _printed_text_sympy_label(text, pairs) -> str | None:
    bindings = [b for b, _ in pairs]
    try:
        pytext, names = G.alias_text(text, set().union(*[set(b) for b in bindings]))
        tree = G.python_meaning(pytext, funcs=G.FUNCS_ALLOWED + G.FUNCS_DIAGNOSTIC)
    except Exception:  # noqa: BLE001 - naming only
        return None
    return sympy_verdict_text(tree.body, names, bindings, real=text)


def judge_tree(ctx, t, bindings, order_seed, via_shape, source, kinds=ALL_KINDS) -> None:
    built_before = ctx.counters.get("trees_built", 0)
    compared_before = ctx.counters.get("eval_compared", 0)
    try:
        with bounded(CASE_LIMIT_S):
            fails = tree_fails(t, bindings, kinds, ctx.count, order_seed, via_shape)
    except Slow:
        ctx.count("cases_abandoned_slow")
        ctx.count("trees_abandoned_slow")
        ctx.note(f"abandoned (slow): tree {X.pretty(t)[:400]} bindings={bindings}")
        return
    if fails is None:
        ctx.count("trees_report_only")
        return
    built = ctx.counters.get("trees_built", 0) > built_before
    compared = ctx.counters.get("eval_compared", 0) > compared_before
    ctx.evaluation(key={"tree": t}, nontrivial=bool(X.n_ops(t) >= 2 and built and compared))
    ctx.count("trees_judged")
    for k in X.op_kinds(t):
        ctx.count(f"trees_with_{k}")
    if fails:
        report_tree(ctx, t, bindings, fails, order_seed, via_shape, source)
    if len(ctx.samples) < ctx.MAX_SAMPLES and X.n_ops(t) >= 2:
        ctx.sample({"tree": X.pretty(t), "text": _safe_text(t), "bindings": bindings[0],
                    "exact": _safe_exact(t, bindings[0])})


def _safe_text(t):
    try:
        return str(build(t))
    except Exception as exc:  # noqa: BLE001
        return _exc(exc)


def _safe_exact(t, b):
    try:
        return str(X.exact(t, b))
    except G.OutOfDomain as exc:
        return f"out of domain: {exc}"


# ================================================================================================
# grammar strings
# ================================================================================================
FORMS = ("d+1", "3-d", "d*2", "-d", "d//2", "d%3", "d*1")
_ARITH_REAL = {
    "d+1": lambda x: x + 1, "3-d": lambda x: 3 - x, "d*2": lambda x: x * 2, "-d": lambda x: -x,
    "d//2": lambda x: x // 2, "d%3": lambda x: x % 3, "d*1": lambda x: x * 1,
}
_ARITH_EXACT = {
    "d+1": lambda v: v + 1, "3-d": lambda v: 3 - v, "d*2": lambda v: v * 2, "-d": lambda v: -v,
    "d//2": lambda v: Fraction(v // 2), "d%3": lambda v: v % 3, "d*1": lambda v: v,
}


def string_fails(text: str, pytext: str, names: dict[str, str], bindings, expr=None, extras=True,
                 count=_nocount, extra_sel=0) -> list[Fail]:
    """``text`` for the library, ``pytext`` the same token sequence for Python (aliases ->
    ``names``); ``bindings`` map real names to ints."""
    if expr is None:
        expr = G.python_meaning(pytext)
    alias_of = {real: alias for alias, real in names.items()}
    wants = []
    for b in bindings:
        env = {alias_of[k]: Fraction(v) for k, v in b.items() if k in alias_of}
        try:
            wants.append(G.eval_ast(expr, env))
        except G.OutOfDomain:
            wants.append(None)
        except G.TooLarge:
            count("grammar_binding_skipped_too_large")
            wants.append(None)
    if all(w is None for w in wants):
        count("grammar_out_of_domain_for_all_bindings")
        return []
    first = next(b for b, w in zip(bindings, wants) if w is not None)
    try:
        d = ir.SymbolicDim(text)
    except Exception as exc:  # noqa: BLE001
        return [Fail("grammar", "rejected:" + _exc_class(exc), binding=first, text=text, exc=_exc(exc))]
    fails: list[Fail] = []
    in_dom = []
    for b, want in zip(bindings, wants):
        if want is None:
            count("grammar_out_of_domain")
            continue
        try:
            r = d.evaluate(b)
        except Exception as exc:  # noqa: BLE001 - every string of the grammar has a meaning
            fails.append(Fail("grammar", "rejected:" + _exc_class(exc), binding=b, want=want, text=text, exc=_exc(exc)))
            break
        count("grammar_compared")
        got = as_exact(r)
        if got is None:
            fails.append(Fail("grammar", "non-numeric-result", binding=b, got=r, want=want, text=text))
            break
        if got != want:
            fails.append(Fail("grammar", "wrong-value", binding=b, got=r, want=want, text=text))
            break
        in_dom.append((b, want))
    if fails or not extras or not in_dom:
        return fails
    # free symbols of a parsed text: exactly the identifiers that survive SymPy's cancellation
    try:
        fs = set(d.free_symbols())
        if not fs <= set(names.values()):
            fails.append(Fail("grammar", "free_symbols-invents-symbol", got=sorted(fs), want=sorted(names.values()), text=text))
    except Exception as exc:  # noqa: BLE001
        fails.append(Fail("grammar", "free_symbols-raises:" + _exc_class(exc), text=text, exc=_exc(exc)))
    # SymbolicDim(text) followed by arithmetic
    name = FORMS[extra_sel % len(FORMS)]
    real_f, exact_f = _ARITH_REAL[name], _ARITH_EXACT[name]
    try:
        d2 = real_f(d)
    except Exception as exc:  # noqa: BLE001
        return fails + [Fail("text-then-arith", "raises:" + _exc_class(exc), stage=name, text=text, exc=_exc(exc), binding=in_dom[0][0])]
    count(f"text_then_arith_{name}")
    moved = []
    for b, want in in_dom:
        want2 = exact_f(want)
        try:
            r = d2.evaluate(b)
        except Exception as exc:  # noqa: BLE001
            fails.append(Fail("text-then-arith", "raises:" + _exc_class(exc), stage=name, binding=b, want=want2, text=text, exc=_exc(exc)))
            return fails
        count("text_then_arith_compared")
        if as_exact(r) != want2:
            fails.append(Fail("text-then-arith", "wrong-value", stage=name, binding=b, got=r, want=want2, text=text))
            return fails
        moved.append((b, want2))
    # ... and what arithmetic printed must parse back
    fails.extend(reparse_fails(d2, moved, "parsed-then-" + name, count))
    return fails


def report_string(ctx, text, pytext, names, bindings, fails, source) -> None:
    seen = set()
    for f in fails:
        if f.key in seen:
            continue
        seen.add(f.key)
        try:
            with bounded(NAMING_LIMIT_S):
                sig, minimal = _name_string_failure(text, pytext, names, bindings, f)
        except Slow:
            ctx.count("violations_unnamed_abandoned_slow")
            ctx.note(f"naming abandoned (slow): {f.describe()[:300]}")
            continue
        msg = f"{f.describe()}\n  string ({source}): {text!r}   python reading: {pytext!r} with {names}"
        if minimal:
            msg += f"\n  minimal witness: {minimal!r}"
        ctx.violation(sig, msg, {
            "what": "string", "text": text, "pytext": pytext, "names": names, "bindings": bindings,
            "minimal": minimal,
        })


def _name_string_failure(text, pytext, names, bindings, f):
    minimal = None
    if f.kind == "grammar":
        mech, minimal = name_text_disagreement(text, pytext, names, bindings)
        if mech.startswith("same-in-sympy"):
            sig = f"grammar|{mech}"
        else:
            sig = f"grammar|{f.cls.split('(')[0]}|{mech}"
    elif f.kind == "print-parse" and f.cls == "unparseable":
        fn = undocumented_functions(f.text or "")
        what = "+".join(fn) if fn else (_exc_class(f.got) if isinstance(f.got, BaseException) else "?")
        sig = f"print-parse|unparseable:{what}|stage=parsed-then-printed"
        if "Piecewise" in fn:
            sig = "print-parse|unparseable:Piecewise"
        elif not fn and f.want is not None:
            label = _printed_text_sympy_label(f.text, [(f.binding, f.want)])
            if label:
                sig = f"print-parse|same-in-sympy:{label}|stage=parsed-then-printed"
            else:
                classes = identifier_sensitive_text(f.text, [(f.binding, f.want)])
                if classes:
                    sig = f"print-parse|unparseable:{what}|identifier:{classes}|stage=parsed-then-printed"
    elif f.kind == "print-parse" and f.cls == "value-changed":
        cls, mech, minimal = classify_printed_text(f.text, [(f.binding, f.want)])
        classes = identifier_sensitive_text(f.text, [(f.binding, f.want)]) if "same-in-sympy" not in (mech or "") else None
        if classes:
            mech = f"identifier:{classes}"
        sig = f"print-parse|{cls}|{mech or 'unclassified'}|stage=parsed-then-printed"
    elif f.kind == "text-then-arith":
        tree = G.python_meaning(pytext)
        label = sympy_verdict_text(tree.body, names, bindings, arith=f.stage, real=text)
        if label:
            sig = f"text-then-arith|same-in-sympy:{label}"
        else:
            sig = f"text-then-arith|{f.cls}|{f.stage}"
    else:
        sig = f"{f.kind}|{f.cls}|{f.stage}"
    return sig, minimal


def judge_string(ctx, text, pytext, names, bindings, source, extra_sel=0, extras=True) -> None:
    try:
        expr = G.python_meaning(pytext)
    except G.NotInGrammar as exc:
        # the harness derived a text Python does not read as the documented grammar: harness gap
        ctx.count("harness_python_rejected_derivation")
        ctx.note(f"python rejected a derived string: {pytext!r}: {exc}")
        return
    before = ctx.counters.get("grammar_compared", 0)
    try:
        with bounded(CASE_LIMIT_S):
            fails = string_fails(text, pytext, names, bindings, expr=expr, extras=extras, count=ctx.count, extra_sel=extra_sel)
    except Slow:
        ctx.count("cases_abandoned_slow")
        ctx.count("strings_abandoned_slow")
        ctx.note(f"abandoned (slow): string {text!r} bindings={bindings}")
        return
    judged = ctx.counters.get("grammar_compared", 0) > before
    ctx.count("grammar_strings")
    has_op = isinstance(expr.body, (ast.BinOp, ast.UnaryOp, ast.Call))
    ctx.evaluation(key={"s": text}, nontrivial=bool(judged and has_op))
    if fails:
        report_string(ctx, text, pytext, names, bindings, fails, source)


# ================================================================================================
# shapes that mix dimensions of different provenance
# ================================================================================================
# A shape is a list of dimension specs:
#   ["int", k] | ["none"] | ["name", s] (a str handed to Shape) | ["text", tree] (the str of an
#   expression of the documented grammar, as a loaded dim_param holds it) | ["expr", tree] (built with
#   the operator overloads; the tree may contain user-supplied SymPy leaves).
# One symbol *name* may therefore reach the shape as several distinct SymPy objects.  What the
# shape-level calls return for position i is judged against the exact value of dimension i (which
# is also what dimension i returns on its own - established first, so that a disagreement is one
# of the shape-level call).
UNBOUND_NAME = "batch"


def dim_source(spec) -> str:
    k = spec[0]
    if k in ("int", "none", "name", "text"):
        return {"int": "int", "none": "unknown", "name": "name", "text": "text"}[k]
    return "user-sympy" if X.has_user(spec[1]) else "operators"


def _dim_tree(spec):
    if spec[0] == "name":
        return ["sym", spec[1]]
    return spec[1] if spec[0] in ("text", "expr") else None


def build_dim(spec, count=_nocount):
    k = spec[0]
    if k == "int":
        return spec[1]
    if k == "none":
        return None
    if k == "name":
        return spec[1]
    if k == "text":
        return X.render(spec[1])
    return build(spec[1], count)


def names_from_several_sources(specs) -> list[str]:
    """Symbol names that reach the shape as more than one distinct SymPy object."""
    by_name: dict[str, set] = {}
    for sp in specs:
        t = _dim_tree(sp)
        if t is None:
            continue
        for name, src in X.symbol_sources(t):
            by_name.setdefault(name, set()).add(src)
    return sorted(n for n, srcs in by_name.items() if len(srcs) > 1)


def _dim_ok(spec, r, want, b) -> bool:
    k = spec[0]
    if k == "int":
        return isinstance(r, int) and not isinstance(r, bool) and r == spec[1]
    if k == "none":
        return isinstance(r, ir.SymbolicDim) and r.value is None
    if want is None:  # a name without a binding stays what it is
        return isinstance(r, ir.SymbolicDim) and r.value == spec[1]
    return as_exact(r) == want


def mixshape_fails(specs, bindings, order_seed=0, do_simplify=False, count=_nocount):
    """Returns (fails, alone) - ``alone``: positions whose dimension already disagrees with the
    exact value on its own (build or ``SymbolicDim.evaluate``); those are the business of the
    tree / string monitors and nothing is judged at shape level then."""
    trees = [_dim_tree(sp) for sp in specs]
    usable = []
    for b in bindings:
        wants = []
        for sp, t in zip(specs, trees):
            if t is None or (sp[0] == "name" and sp[1] not in b):
                wants.append(None)
                continue
            try:
                wants.append(X.exact(t, b))
            except G.OutOfDomain:
                wants = None
                break
        if wants is not None:
            usable.append((b, wants))
    if not usable:
        count("mixshape_out_of_domain_for_all_bindings")
        return [], []
    usable = usable[:2]
    objs, alone = [], []
    for i, sp in enumerate(specs):
        try:
            objs.append(build_dim(sp, count))
        except X.UnsupportedReflected as u:
            count(f"report_only_unsupported_reflected_{u.op}")
            return [], []
        except X.NotBuildable:
            raise
        except Exception:  # noqa: BLE001 - judged by the tree monitor
            alone.append(i)
            objs.append(None)
    if alone:
        return [], alone
    try:
        shape = ir.Shape(objs)
    except Exception as exc:  # noqa: BLE001 - the text of a dimension is parsed lazily
        return [Fail("mixed-shape", "Shape()-raises:" + _exc_class(exc), exc=_exc(exc))], []
    held = list(shape)
    for i, sp in enumerate(specs):
        if sp[0] in ("int", "none"):
            continue
        for b, wants in usable:
            try:
                r = held[i].evaluate(b)
            except Exception:  # noqa: BLE001
                alone.append(i)
                break
            if not _dim_ok(sp, r, wants[i], b):
                alone.append(i)
                break
    if alone:
        return [], alone
    count("mixshape_shapes")
    fails: list[Fail] = []
    rank = len(specs)

    def compare(cls, result, b, wants, counter):
        if not isinstance(result, ir.Shape) or result.rank() != rank:
            fails.append(Fail("mixed-shape", cls + ":not-a-shape-of-same-rank", binding=b, got=result))
            return False
        for i, sp in enumerate(specs):
            count(counter)
            if not _dim_ok(sp, result[i], wants[i], b):
                fails.append(Fail("mixed-shape", cls + ":dim-differs-from-dim.evaluate", dim_source(sp),
                                  binding=b, got=list(result), want=wants[i], text=f"position {i} of {shape}"))
                return False
        return True

    # ---- Shape.evaluate, complete bindings ------------------------------------------------------
    for b, wants in usable:
        try:
            se = shape.evaluate(b)
        except Exception as exc:  # noqa: BLE001
            fails.append(Fail("mixed-shape", "evaluate-raises:" + _exc_class(exc), binding=b, exc=_exc(exc)))
            break
        if not compare("evaluate", se, b, wants, "mixshape_evaluate_compared"):
            break
    if fails:
        # the other clauses go through the same call: report the root cause only
        return fails, []

    # ---- Shape.evaluate one symbol at a time: the residual shape completes to the same values -----
    for bi, (b, wants) in enumerate(usable[:1]):
        order = _partial_order(sorted(b), order_seed + bi)
        r = shape
        bound: list[str] = []
        bad = False
        for s_ in order:
            try:
                r = r.evaluate({s_: b[s_]})
            except Exception as exc:  # noqa: BLE001
                fails.append(Fail("mixed-shape", "partial-raises:" + _exc_class(exc), binding={"order": order, **b}, exc=_exc(exc)))
                bad = True
                break
            bound.append(s_)
            count("mixshape_partial_steps")
            if not isinstance(r, ir.Shape) or r.rank() != rank:
                fails.append(Fail("mixed-shape", "partial:not-a-shape-of-same-rank", binding={"order": order, **b}, got=r))
                bad = True
                break
            for i, sp in enumerate(specs):
                d = r[i]
                if isinstance(d, ir.SymbolicDim) and d.value is not None and as_exact(d) is None:
                    try:
                        left = set(d.free_symbols())
                    except Exception:  # noqa: BLE001 - judged on single dimensions
                        continue
                    if left & set(bound):
                        fails.append(Fail("mixed-shape", "partial:bound-symbol-remains", dim_source(sp),
                                          binding={"order": order, **b}, got=list(r), want=wants[i],
                                          text=f"position {i} of {shape} after binding {bound}"))
                        bad = True
                        break
            if bad:
                break
        if bad or not compare("partial", r, {"order": order, **b}, wants, "mixshape_partial_compared"):
            break

    # ---- Shape.simplify never changes an evaluation -----------------------------------------------
    if do_simplify:
        try:
            ss = shape.simplify()
        except Exception as exc:  # noqa: BLE001 - as for a single dimension: report only
            count("report_only_simplify_raised_" + type(exc).__name__)
            ss = None
        if ss is not None:
            count("mixshape_simplify_calls")
            if not isinstance(ss, ir.Shape) or ss.rank() != rank:
                fails.append(Fail("mixed-shape", "simplify:not-a-shape-of-same-rank", got=ss))
            else:
                for b, wants in usable:
                    ok = True
                    for i, sp in enumerate(specs):
                        d = ss[i]
                        try:
                            r = d.evaluate(b) if isinstance(d, ir.SymbolicDim) else d
                        except Exception as exc:  # noqa: BLE001
                            fails.append(Fail("mixed-shape", "simplify:evaluate-raises:" + _exc_class(exc), dim_source(sp), binding=b, exc=_exc(exc)))
                            ok = False
                            break
                        count("mixshape_simplify_compared")
                        if not _dim_ok(sp, r, wants[i], b):
                            fails.append(Fail("mixed-shape", "simplify:changes-evaluation", dim_source(sp), binding=b,
                                              got=r, want=wants[i], text=f"position {i} of {shape} -> {ss}"))
                            ok = False
                            break
                    if not ok:
                        break
                    try:
                        se = ss.evaluate(b)
                    except Exception as exc:  # noqa: BLE001
                        fails.append(Fail("mixed-shape", "simplify-then-evaluate-raises:" + _exc_class(exc), binding=b, exc=_exc(exc)))
                        break
                    if not compare("simplify-then-evaluate", se, b, wants, "mixshape_simplify_compared"):
                        break

    # ---- free symbols of the shape: the union over its dimensions ------------------------------------
    try:
        union = set()
        for d in held:
            if isinstance(d, ir.SymbolicDim):
                union |= set(d.free_symbols())
        got = set(shape.free_symbols())
        count("mixshape_free_symbols_compared")
        if got != union:
            fails.append(Fail("mixed-shape", "free_symbols-not-union", got=sorted(got), want=sorted(union)))
    except Exception as exc:  # noqa: BLE001
        fails.append(Fail("mixed-shape", "free_symbols-raises:" + _exc_class(exc), exc=_exc(exc)))
    return fails, []


def _pretty_spec(sp) -> str:
    k = sp[0]
    if k == "int":
        return str(sp[1])
    if k == "none":
        return "None"
    if k == "name":
        return repr(sp[1])
    if k == "text":
        return repr(X.render(sp[1]))
    return X.pretty(sp[1])


def pretty_specs(specs) -> str:
    return "Shape([" + ", ".join(_pretty_spec(sp) for sp in specs) + "])"


def _leaves(t) -> list:
    if X.is_leaf(t):
        return [t] if t[0] != "int" else []
    out = []
    for c in X.children(t):
        for leaf in _leaves(c):
            if leaf not in out:
                out.append(leaf)
    return out


def _name_mixshape_failure(specs, bindings, f, order_seed, do_simplify):
    def same(cand) -> bool:
        try:
            got, _ = mixshape_fails(cand, bindings, order_seed, do_simplify)
        except X.NotBuildable:
            return False
        return any(g.key == f.key for g in got)

    cur = [list(sp) for sp in specs]
    i = 0
    while i < len(cur):  # 1. fewer dimensions
        cand = cur[:i] + cur[i + 1:]
        if cand and same(cand):
            cur = cand
        else:
            i += 1
    for i, sp in enumerate(cur):  # 2. a dimension -> a bare name / one of its leaves
        t = _dim_tree(sp)
        if sp[0] not in ("text", "expr") or X.is_leaf(t):
            continue
        cands = [["name", n] for n in X.symbols(t)] + [["expr", leaf] for leaf in _leaves(t)]
        for c in cands:
            if same(cur[:i] + [c] + cur[i + 1:]):
                cur[i] = c
                break
    for i, sp in enumerate(cur):  # 3. smaller trees
        if sp[0] == "expr" and not X.is_leaf(sp[1]):
            cur[i] = ["expr", X.shrink_tree(sp[1], lambda c, i=i: same(cur[:i] + [["expr", c]] + cur[i + 1:]), max_tests=20)]
    got, _ = mixshape_fails(cur, bindings, order_seed, do_simplify)
    again = [g for g in got if g.key == f.key]
    w = again[0] if again else f
    if not again:
        cur = [list(sp) for sp in specs]
    if names_from_several_sources(cur):
        # the mechanism, whatever the provenance and position of the dimensions that share the name
        sig = f"mixed-shape|{w.cls}|one-name-as-several-sympy-symbols"
    else:
        sources = "+".join(sorted({dim_source(sp) for sp in cur}))
        sig = f"mixed-shape|{w.cls}" + (f"|failing-dim={w.stage}" if w.stage else "") + f"|dims={sources}"
    return sig, cur, w


def report_mixshape(ctx, specs, bindings, fails, order_seed, do_simplify, source) -> None:
    seen: set = set()
    for f in fails:
        if f.key in seen:
            continue
        seen.add(f.key)
        try:
            with bounded(NAMING_LIMIT_S):
                sig, small, w = _name_mixshape_failure(specs, bindings, f, order_seed, do_simplify)
        except Slow:
            ctx.count("violations_unnamed_abandoned_slow")
            ctx.note(f"naming abandoned (slow): {f.describe()[:300]} in {pretty_specs(specs)[:300]}")
            continue
        msg = (f"{w.describe()}\n  minimal witness: {pretty_specs(small)}   specs={small}\n"
               f"  found in ({source}): {pretty_specs(specs)}")
        ctx.violation(sig, msg, {"what": "mixshape", "specs": small, "bindings": bindings,
                                 "order_seed": order_seed, "simplify": do_simplify, "original": specs})


def judge_mixshape(ctx, specs, bindings, order_seed, do_simplify, source) -> None:
    before = ctx.counters.get("mixshape_evaluate_compared", 0)
    try:
        with bounded(CASE_LIMIT_S):
            fails, alone = mixshape_fails(specs, bindings, order_seed, do_simplify, ctx.count)
    except Slow:
        ctx.count("cases_abandoned_slow")
        ctx.count("mixshapes_abandoned_slow")
        ctx.note(f"abandoned (slow): {pretty_specs(specs)[:400]} bindings={bindings}")
        return
    except X.NotBuildable:
        ctx.count("mixshape_not_buildable")
        return
    for i in alone:
        # the dimension disagrees on its own: judged (and named) by the single-dimension monitors
        ctx.count("mixshape_dimension_alone_disagrees")
        sp = specs[i]
        if sp[0] == "text":
            text = X.render(sp[1])
            judge_string(ctx, text, text, {n: n for n in SYMS}, [{k: v for k, v in b.items() if k in SYMS} for b in bindings],
                         f"{source}, dimension {i}", extras=False)
        elif sp[0] == "expr":
            judge_tree(ctx, sp[1], bindings, order_seed, False, f"{source}, dimension {i}", ("eval",))
    if alone:
        return
    compared = ctx.counters.get("mixshape_evaluate_compared", 0) > before
    shared = names_from_several_sources(specs)
    srcs = {dim_source(sp) for sp in specs}
    for src in srcs:
        ctx.count(f"mixshape_with_{src}")
    if shared and compared:
        ctx.count("mixshape_one_name_as_several_symbols")
    ctx.evaluation(key={"mixshape": specs}, nontrivial=bool(compared and "user-sympy" in srcs and len(srcs) > 1))
    if fails:
        report_mixshape(ctx, specs, bindings, fails, order_seed, do_simplify, source)


SYMS = ("N", "M", "K")


def _gen_spec(rng, syms, kind):
    if kind == "int":
        return ["int", rng.choice((1, 2, 3, 4, 7, 16, 224))]
    if kind == "none":
        return ["none"]
    if kind == "name":
        return ["name", UNBOUND_NAME if rng.random() < 0.1 else rng.choice(syms)]
    if kind == "text":
        return ["text", X.gen_tree(rng, rng.choice((1, 1, 2)), syms, True, True)]
    if kind == "operators":
        return ["expr", X.gen_tree(rng, rng.choice((1, 2, 2, 3)), syms)]
    t = X.gen_tree(rng, rng.choice((0, 1, 1, 2, 2, 3)), syms)
    for _ in range(6):
        u = X.userize(rng, t, 0.8, 0.35)
        if X.has_user(u):
            return ["expr", u]
    return ["expr", ["usym", rng.choice(syms), rng.choice(X.USER_TAGS[:-1])]]


def mixshape_case(ctx, rng, case) -> None:
    syms = list(SYMS[: rng.choice((1, 1, 2, 2, 3))])
    kinds = [rng.choice(("int", "none", "name", "name", "text", "text", "operators", "operators",
                         "user-sympy", "user-sympy", "user-sympy")) for _ in range(rng.choice((2, 2, 3, 3, 4)))]
    if "user-sympy" not in kinds and rng.random() < 0.85:
        kinds[rng.randrange(len(kinds))] = "user-sympy"
    if not set(kinds) & {"name", "text", "operators"} and rng.random() < 0.85:
        kinds.insert(rng.randrange(len(kinds) + 1), rng.choice(("name", "text", "operators")))
    specs = [_gen_spec(rng, syms, k) for k in kinds]
    bindings = [{"N": _value(rng), "M": _value(rng), "K": _value(rng), "unused_dim": _value(rng)} for _ in range(3)]
    bindings[0] = {k: (v if v <= 12 else rng.randint(1, 12)) for k, v in bindings[0].items()}
    n_ops = sum(X.n_ops(t) for t in map(_dim_tree, specs) if t is not None)
    do_simplify = n_ops <= 8 and rng.random() < 0.25
    judge_mixshape(ctx, specs, bindings, rng.randrange(24), do_simplify, f"random mixed shape {case}")
    if case % 7 == 0 and len(ctx.samples) < ctx.MAX_SAMPLES:
        ctx.sample({"mixed_shape": pretty_specs(specs), "bindings": bindings[0]})


# ================================================================================================
# symbol names
# ================================================================================================
NAME_CLASS_ORDER = tuple(G.NAME_CLASSES)
NAMED_TREE_STRIDE = 4
# one-operator trees (and one of each rounding function over a quotient) written over a drawn name
# ``A`` and a second one ``B``: every operator of the statement meets every name class
NAMED_SMALL_TREES = (
    ["add", ["sym", "A"], ["int", 1]], ["sub", ["int", 3], ["sym", "A"]], ["mul", ["sym", "A"], ["sym", "B"]],
    ["floordiv", ["sym", "A"], ["int", 2]], ["truediv", ["sym", "A"], ["sym", "B"]], ["mod", ["sym", "A"], ["int", 3]],
    ["neg", ["sym", "A"]], ["floor", ["truediv", ["sym", "A"], ["int", 2]]], ["ceil", ["truediv", ["sym", "A"], ["int", 3]]],
    ["trunc", ["truediv", ["sub", ["sym", "A"], ["sym", "B"]], ["int", 2]]], ["max", ["sym", "A"], ["sym", "B"]],
    ["min", ["add", ["sym", "A"], ["int", 1]], ["int", 4]], ["mod", ["mul", ["sym", "A"], ["sym", "A"]], ["sym", "B"]],
    ["floordiv", ["add", ["sym", "A"], ["sym", "B"]], ["sym", "A"]], ["sub", ["sym", "A"], ["sym", "B"]],
    ["add", ["usym", "A", "plain"], ["sym", "B"]], ["mul", ["int", 2], ["usym", "A", "int"]],
)


def name_class_of_case(case: int) -> str:
    """The name class is a fixed stratum of the case number (never left to chance)."""
    return NAME_CLASS_ORDER[case % len(NAME_CLASS_ORDER)]


def pick_names(rng, cls: str, k: int) -> list[str]:
    """``k`` distinct names: the first of class ``cls``, the others of any class or tame."""
    out = [rng.choice(G.NAME_CLASSES[cls])]
    while len(out) < k:
        r = rng.random()
        if r < 0.35:
            n = rng.choice(G.NAME_CLASSES[cls])
        elif r < 0.75:
            n = rng.choice(G.NAME_CLASSES[rng.choice(NAME_CLASS_ORDER)])
        else:
            n = rng.choice(("N", "M", "K", "batch", "seq_len", "H"))
        if n not in out:
            out.append(n)
    return out


def bindings_over(bindings, mapping):
    """The same bindings with every renamed symbol bound as well (old keys are kept: the fixed
    dimensions of the shape monitors and the shrinker use them)."""
    return [dict(b, **{new: b[old] for old, new in mapping.items() if old in b}) for b in bindings]


def name_alone_fails(name: str, v: int, count=_nocount) -> list[Fail]:
    """A dimension that is just a name: construct, print, evaluate (completely; after a binding
    of another symbol), free symbols, ``dim_param`` round trip, and the one-name strings of the
    grammar ``(name)``, ``-name``, ``0 + name``, ``name`` between blanks."""
    fails: list[Fail] = []

    def check(clause, ok, got=None, want=None, text=None):
        count("name_alone_compared")
        if not ok:
            fails.append(Fail("name-alone", clause, binding={name: v}, got=got, want=want, text=text))

    try:
        d = ir.SymbolicDim(name)
        check("value-is-not-the-name", d.value == name and str(d) == name, got=d.value, want=name)
        r = d.evaluate({name: v})
        check("evaluate", isinstance(r, int) and not isinstance(r, bool) and r == v, got=r, want=v)
        rest = d.evaluate({"unused_dim": 3})
        r = rest.evaluate({name: v}) if isinstance(rest, ir.SymbolicDim) else rest
        check("evaluate-after-unrelated-binding", as_exact(r) == v, got=r, want=v)
        fs = set(d.free_symbols())
        check("free_symbols", fs == {name}, got=sorted(fs), want=[name])
    except Exception as exc:  # noqa: BLE001 - a name of the documented tokenizer is a dimension
        fails.append(Fail("name-alone", "raises:" + _exc_class(exc), binding={name: v}, exc=_exc(exc)))
        return fails
    for label, text, want in (("parenthesised", f"({name})", v), ("negated", f"-{name}", -v),
                              ("zero-plus", f"0 + {name}", v), ("blanks", f"  {name} ", v)):
        try:
            r = ir.SymbolicDim(text).evaluate({name: v})
        except Exception as exc:  # noqa: BLE001
            fails.append(Fail("name-alone", f"text-{label}-rejected:" + _exc_class(exc), binding={name: v}, text=text, exc=_exc(exc)))
            continue
        check(f"text-{label}", as_exact(r) == want, got=r, want=want, text=text)
    try:
        value = ir.Value(name="v", type=ir.TensorType(ir.DataType.FLOAT), shape=ir.Shape([name, 2]))
        proto = onnx.ValueInfoProto()
        proto.ParseFromString(ir_serde.serialize_value(value).SerializeToString())
        stored = proto.type.tensor_type.shape.dim[0]
        check("serde-dim_param-is-not-the-name", stored.WhichOneof("value") == "dim_param" and stored.dim_param == name,
              got=stored.dim_param, want=name)
        back = ir_serde.deserialize_value_info_proto(proto, None).shape
        r = back[0].evaluate({name: v}) if isinstance(back[0], ir.SymbolicDim) else back[0]
        check("serde-evaluate", as_exact(r) == v and back[1] == 2, got=r, want=v)
    except Exception as exc:  # noqa: BLE001
        fails.append(Fail("name-alone", "serde-raises:" + _exc_class(exc), binding={name: v}, exc=_exc(exc)))
    return fails


def judge_name_alone(ctx, name: str, v: int, source: str) -> None:
    fails = name_alone_fails(name, v, ctx.count)
    ctx.count("names_alone_judged")
    seen = set()
    # naming: a clause that fails for a plain name as well does not depend on the name
    any_name = {f.key for f in name_alone_fails("nm0", v)} if fails else set()
    for f in fails:
        if f.key in seen:
            continue
        seen.add(f.key)
        ctx.violation(f"name-alone|{f.cls}|" + ("any-name" if f.key in any_name else f"identifier:{G.name_class(name)}"),
                      f"{f.describe()}\n  name {name!r} ({source})", {"what": "name", "name": name, "value": v})


def names_case(ctx, rng, case) -> None:
    """Fixed stratum of every random case: names of the case's class used alone and in a few
    one-operator trees."""
    cls = name_class_of_case(case)
    a, b_ = pick_names(rng, cls, 2)
    mapping = {"A": a, "B": b_}
    ctx.count(f"named_class_{cls}")
    judge_name_alone(ctx, a, _value(rng), f"names of case {case}")
    bindings = [{"A": x, "B": y, "N": 3, "M": z, "K": 2, "unused_dim": 5}
                for x, y, z in ((rng.randint(1, 12), rng.randint(1, 12), 4), (_value(rng), _value(rng), 7), (1, 1, 1))]
    bindings = bindings_over(bindings, mapping)
    first = rng.randrange(len(NAMED_SMALL_TREES))
    for j in range(2):
        t = X.rename(NAMED_SMALL_TREES[(first + j * 6) % len(NAMED_SMALL_TREES)], mapping)
        _judge_named_tree(ctx, t, bindings, case % 6, j == 1, f"small tree over names of case {case}",
                          ("eval", "partial", "print-parse", "serde") if j == 0 else ("eval", "print-parse", "shape"))


def _judge_named_tree(ctx, t, bindings, order_seed, via_shape, source, kinds) -> None:
    before = {k: ctx.counters.get(k, 0) for k in ("printparse_compared", "serde_compared", "trees_judged")}
    judge_tree(ctx, t, bindings, order_seed, via_shape, source, kinds)
    ctx.count("named_trees_judged", ctx.counters.get("trees_judged", 0) - before["trees_judged"])
    ctx.count("named_printparse_compared", ctx.counters.get("printparse_compared", 0) - before["printparse_compared"])
    ctx.count("named_serde_compared", ctx.counters.get("serde_compared", 0) - before["serde_compared"])


# ================================================================================================
# case generation
# ================================================================================================
def _value(rng) -> int:
    r = rng.random()
    if r < 0.70:
        return rng.randint(1, 12)
    if r < 0.90:
        return rng.choice((1, 2, 16, 17, 31, 32, 64, 100, 127, 128, 255, 256, 1000))
    return rng.choice((1024, 4096, 65535, 2**31 - 1, 2**31, 10**12 + 39))


def tree_case(ctx, rng, case) -> None:
    syms = ["N", "M", "K"][: rng.choice((1, 2, 2, 3, 3))]
    depth = rng.choice((1, 2, 2, 3, 3, 3, 4, 4, 5, 6))
    for _ in range(8):
        t = X.gen_tree(rng, depth, syms)
        if not X.is_leaf(t) and X.n_ops(t) <= 40:
            break
    else:
        t = ["add", ["sym", "N"], ["int", 1]]
    bindings = []
    for _ in range(3):
        b = {"N": _value(rng), "M": _value(rng), "K": _value(rng), "unused_dim": _value(rng)}
        bindings.append(b)
    # small values first: most discriminating for floor/mod
    bindings[0] = {k: (v if v <= 12 else rng.randint(1, 12)) for k, v in bindings[0].items()}
    order_seed = rng.randrange(6)
    via_shape = rng.random() < 0.3
    # a third of the trees get user-supplied SymPy leaves (own random stream: the other choices
    # of the case stay what they were)
    urng = ctx.rng(case, "user")
    if urng.random() < 0.33:
        t = X.userize(urng, t)
        if X.has_user(t):
            ctx.count("trees_with_user_sympy_leaves")
    # SymPy's simplify is the dominant cost and grows steeply with size: big trees go without
    kinds = ALL_KINDS
    if X.n_ops(t) > 14:
        kinds = tuple(k for k in ALL_KINDS if k != "simplify")
        ctx.count("trees_too_big_for_simplify")
    if case % NAMED_TREE_STRIDE == 0:
        # the same tree over other symbol names (own random stream); the class is a fixed stratum
        nrng = ctx.rng(case, "names-tree")
        cls = name_class_of_case(case // NAMED_TREE_STRIDE)
        used = X.symbols(t)
        mapping = dict(zip(used, pick_names(nrng, cls, len(used))))
        ctx.count(f"named_class_{cls}")
        _judge_named_tree(ctx, X.rename(t, mapping), bindings_over(bindings, mapping), order_seed, via_shape,
                          f"random case {case} over names {sorted(mapping.values())}"[:300], kinds)
        return
    judge_tree(ctx, t, bindings, order_seed, via_shape, f"random case {case}", kinds)


def strings_case(ctx, rng, case) -> None:
    for i in range(STRINGS_PER_CASE):
        named = i == 1
        if named:
            # identifiers of the class fixed by the case number (own random stream)
            nrng = ctx.rng(case, "names-string")
            cls = name_class_of_case(case)
            tt = G.random_string(rng, special_idents=pick_names(nrng, cls, nrng.choice((1, 1, 2))))
            ctx.count(f"named_class_{cls}")
            compared_before = ctx.counters.get("grammar_compared", 0)
        else:
            tt = G.random_string(rng)
        pytext = tt.python_text()
        text = tt.parser_text(rng if rng.random() < 0.7 else None)
        names = {alias: real for real, alias in tt.alias.items()}
        bindings = []
        has_pow = "**" in pytext or "sqrt" in pytext
        for j in range(3):
            small = j < 2 or has_pow  # powers of large values only make cases too large
            bindings.append({real: (rng.randint(1, 9) if small else _value(rng)) for real in names.values()})
        judge_string(ctx, text, pytext, names, bindings, f"random case {case}.{i}", extra_sel=rng.randrange(7),
                     extras=rng.random() < 0.6)
        if named:
            ctx.count("named_strings_judged")
            ctx.count("named_grammar_compared", ctx.counters.get("grammar_compared", 0) - compared_before)
        if i == 0 and len(ctx.samples) < ctx.MAX_SAMPLES:
            ctx.sample({"string": text, "python_reading": pytext, "names": names, "bindings": bindings[0]})


def run(ctx) -> None:
    lay = dict(layout(ctx.tier))
    lay.update(ctx.params or {})
    eb, sb = int(lay["enum_blocks"]), int(lay["small_blocks"])
    max_ops = int(lay["max_ops"])
    enum_iter = None
    enum_pos = 0
    small_trees = None
    names_enum = {"N": "N", "M": "M"}
    my_enum_blocks = 0
    done_enum_blocks = 0
    stride = int(lay.get("stride", 1))
    for k in range(eb):
        if (sb + k * stride) % ctx.nshards == ctx.shard:
            my_enum_blocks += 1
    extra_binding_rng = ctx.rng("enum-binding")
    enum_bindings = ENUM_BINDINGS + [{"N": extra_binding_rng.randint(2, 9), "M": extra_binding_rng.randint(2, 9)}]
    small_bindings = SMALL_BINDINGS + [
        {"N": extra_binding_rng.randint(1, 12), "M": extra_binding_rng.randint(1, 12), "K": extra_binding_rng.randint(1, 12)}
    ]
    for case in ctx.case_ids():
        p = case - sb
        if case < sb:
            if small_trees is None:
                small_trees = list(X.enumerate_small_trees())
            for idx in range(case * SMALL_BLOCK, min(len(small_trees), (case + 1) * SMALL_BLOCK)):
                ctx.count("small_trees")
                judge_tree(ctx, small_trees[idx], small_bindings, idx % 6, idx % 2 == 1, f"small-tree enumeration #{idx}")
        elif p % stride == 0 and p // stride < eb:
            block = p // stride
            if enum_iter is None:
                enum_iter = G.enumerate_strings(max_ops, ENUM_OPERANDS)
            start = block * ENUM_BLOCK
            while enum_pos < start:
                next(enum_iter, None)
                enum_pos += 1
            for _ in range(ENUM_BLOCK):
                text = next(enum_iter, None)
                if text is None:
                    break
                enum_pos += 1
                ctx.count("enum_strings")
                judge_string(ctx, text, text, names_enum, enum_bindings, f"enumeration <= {max_ops} operators",
                             extra_sel=enum_pos, extras=(enum_pos % 4 == 0))
            if block == eb - 1:
                # the last block must end exactly at the announced size of the space
                if enum_pos != ENUM_SIZE[max_ops] or next(enum_iter, None) is not None:
                    raise AssertionError(f"enumeration size {enum_pos} != announced {ENUM_SIZE[max_ops]}")
            done_enum_blocks += 1
        else:
            rng = ctx.rng(case)
            tree_case(ctx, rng, case)
            strings_case(ctx, rng, case)
            mixshape_case(ctx, ctx.rng(case, "mixshape"), case)
            names_case(ctx, ctx.rng(case, "names"), case)
    ctx.exhaustive = done_enum_blocks == my_enum_blocks
    if ctx.exhaustive:
        ctx.count("shards_that_completed_their_share_of_the_string_enumeration")


# ================================================================================================
def replay(replay_data, ctx) -> None:
    if replay_data.get("what") == "tree":
        t = replay_data["tree"]
        bindings = replay_data["bindings"]
        fails = tree_fails(t, bindings, ALL_KINDS, ctx.count, replay_data.get("order_seed", 0), replay_data.get("via_shape", False))
        if fails:
            report_tree(ctx, t, bindings, fails, replay_data.get("order_seed", 0), replay_data.get("via_shape", False), "replay")
    elif replay_data.get("what") == "mixshape":
        specs, bindings = replay_data["specs"], replay_data["bindings"]
        order_seed, do_simplify = replay_data.get("order_seed", 0), replay_data.get("simplify", False)
        fails, _ = mixshape_fails(specs, bindings, order_seed, do_simplify, ctx.count)
        if fails:
            report_mixshape(ctx, specs, bindings, fails, order_seed, do_simplify, "replay")
    elif replay_data.get("what") == "name":
        judge_name_alone(ctx, replay_data["name"], replay_data["value"], "replay")
    elif replay_data.get("what") == "string":
        text, pytext = replay_data["text"], replay_data["pytext"]
        names, bindings = replay_data["names"], replay_data["bindings"]
        fails = string_fails(text, pytext, names, bindings, count=ctx.count, extras=False)
        for sel in range(len(FORMS)):
            if fails:
                break
            fails = string_fails(text, pytext, names, bindings, count=ctx.count, extra_sel=sel)
        if fails:
            report_string(ctx, text, pytext, names, bindings, fails, "replay")
