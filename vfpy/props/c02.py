"""C02 - ONNX proto -> IR -> proto is lossless for every supported proto.

Monitor shape: generate a well-formed proto of one of the eight message kinds the public API
accepts (``vfpy.gen_proto`` extended by ``vfpy.gen_proto_c02``: every feature toggled independently,
IR versions 3..13; external-tensor locations in non-normalised spellings; value names that repeat or spell out names of another scope - a function's value,
``{domain}::{function}/{value}`` - and values described by more than one entry where one entry says
less than the other - an ``output``/``input`` entry without a type for a value typed by its
initializer or by a value_info entry; carriers of every kind built from their required fields plus at most ONE optional
field - a value_info entry of an existing value that has only a doc string, only metadata or only a type, a type with only a
denotation, an unnamed scalar tensor, a graph without nodes ...), push it through the *real* deserializer and serializer by one of the public entry points

  * ``ir.from_proto`` / ``ir.to_proto``
  * ``ir.serde.deserialize_X`` / ``serialize_X`` and ``serialize_X_into(fresh proto)``
  * ``onnx.save`` -> ``ir.load`` -> ``ir.save`` -> ``onnx.load`` (models, no external data, under
    ``$VF_SHARD_TMP``)

and compare ``canon(result)`` with ``canon(original)`` (``vfpy.canon_proto``: protobuf reflection
over every field, only the normalisations the statement documents).  The refuting event is a
difference; the witness is the field path with both values.  A second trip ``p1 -> IR -> p2`` must
satisfy ``canon(p2) == canon(p1)`` (idempotence; own signature class).  An exception out of either
direction is a refuting event too (the statement promises a proto).  The ONNX backend corpus and the
repository's ``testdata`` models - which the repository's own round-trip test passes - run through
the same comparator as a standing false-alarm audit of ``canon``.

For models below IR 10 the main-graph ``value_info`` entries named ``{domain}::{function}/{value}`` that describe a
value of a model-local function (where function value info lives before IR 10) are compared as a multiset of
their own (``canon`` N4 would drop them as naming nothing in the main graph): signature
``GraphProto.value_info{domain::function/value of an IR<10 model}|<lost|added|duplicated>`` for a whole entry, the
usual field signature for a difference inside one.  Functions / graphs of degenerate arity (no inputs, no nodes,
no outputs, no attributes) are a fixed stratum of the case plan.

Signature = ``<message type owning the differing field>.<field>|<lost|added|duplicated|altered>``
(``TensorProto.external_data{location|offset|length}.value|...`` for an entry of a tensor's storage description;
``idempotence:`` prefix for the second trip, ``exception:<direction>|<type>@<raising function>``).
"""

from __future__ import annotations

import base64
import glob
import logging
import os
import re
import shutil
import tempfile
from typing import Any, Callable

import onnx
import onnx_ir as ir
from onnx_ir import serde

from vfpy import canon_proto as cp
from vfpy import gen_proto as gp
from vfpy import gen_proto_c02 as gx
from vfpy.ctx import stable_hash
from vfpy.histories import raise_site

ID = "C02"
LEVEL = "exploration"
RULE = (
    "a case is one generated proto (kind drawn from Model 40% / Graph / Function / Node / Tensor / "
    "Attribute / ValueInfo / Type; IR version 3..13; ~75 features of gen_proto toggled independently; "
    "entry point drawn from from_proto/to_proto, serde.deserialize_*/serialize_*, serialize_*_into, "
    "file load/save) or one model of the ONNX backend corpus / repo testdata; judged by two round trips; "
    "non-trivial = generated, >= 3 carrier kinds (model, graph, function, node, tensor, attribute, "
    "value_info, type) populated and >= 1 feature the backend corpus lacks (metadata on tensors/nodes/"
    "graphs/functions/value infos, overloads, denotations, nested optional/sequence with shape, device "
    "fields, low-bit tensors, attribute/tensor/value doc strings, quantization annotations, reference "
    "attributes, function value_info, external tensors); distinct by hash of the serialized proto; "
    "gen_proto_c02 adds (each toggled independently): main-graph/subgraph/later-function values named like a value "
    "of an earlier function, like '{domain}::{function}/{value}' of one or a near miss of that spelling (IR >= 10), "
    "untyped output entries of own initializers, value_info entries (type only) naming node-produced graph outputs "
    "whose output entry may be untyped, untyped input entries of initializers that are inputs (IR >= 4), "
    "external-tensor locations spelled outside any normal form (leading './', doubled separator, '.' segment, inner "
    "'sub/..' detour, upper/mixed case, blanks inside/around, composed vs decomposed non-ASCII, backslash, "
    "percent-escape look-alikes, several directory levels; always relative and inside the model directory); "
    "sparse_carriers (35% of cases; per-site probability 0.3/0.6/1.0 drawn per case): a model / graph / function / "
    "node / tensor / attribute / value_info / type built from its required fields plus AT MOST ONE optional field "
    "(value_info-list entries naming an existing node output or function input with only a doc string, only "
    "metadata or only a type; name-only graph inputs/outputs; a type with only a denotation, only a rank-0 shape or "
    "one dimension that has only a denotation; a wrapper type with the denotation on one level only; an unnamed "
    "scalar tensor; zero-valued attributes; a node with only an operator and an output; a graph without nodes; "
    "a model with only a graph), nested sparse carriers going through the same per-site draw; "
    "fn_value_info_pre10 (IR 8..9 models with functions): main-graph value_info entries '{domain}::{function}/{value}' "
    "for inputs and top-level node outputs of model-local functions (the pre-IR-10 place of function value info) - "
    "judged by an own clause: the multiset of these entries must come back unchanged; degenerate_arity (35% of "
    "cases): full-featured functions with no input / no node / no output / none of them / no attribute, graphs "
    "with no input / no node / no output, nodes with no output (and no input); every 17th generated case is a fixed "
    "stratum: IR 8/9 model, functions, both features forced"
)
ASSUMPTIONS = [
    "protobuf reflection (descriptors, HasField, ListFields semantics) and onnx's generated message classes are trusted",
    "onnx.save/onnx.load are trusted for the file entry point; a case whose proto does not survive them alone is report-only",
    "well-formedness is by construction in gen_proto (names unique per model, topological order, elem_type always set, "
    "payload sizes implied by dims, fields used only from the IR version that introduced them, value_info entries carry a type "
    "unless built by gen_proto_c02's sparse_carriers, where an entry of a value_info list carries exactly one of type / doc "
    "string / metadata: never the name alone, which says nothing about the value and on which the statement is silent)",
    "a TypeProto with a denotation but no value case (rejected by onnx.checker; the IR has no type to attach the denotation "
    "to) is generated stand-alone only and is report-only (report_only_type_without_value_case)",
    "a change of ORDER only in quantization_annotation, quant_parameter_tensor_names or external_data (keyed lists the "
    "statement is silent on) is report-only; losing, adding, duplicating or altering an entry in them is judged",
    "canon N3/N4 interpretation: added value-info for an initializer must be the tensor's own elem type and dims; "
    "value-info naming a graph input/output is never generated",
    "not generated (unsupported by serde, outside the quantifier): sparse tensors/initializers, map/opaque types, "
    "training_info, tensor segments, external_data keys other than location/offset/length, non-UTF-8 strings",
    "names of the form '{domain}::{function}/{value}' are generated from IR 10 on only: below, serde documents that "
    "it reads main-graph value_info of that spelling as the function's (the statement is silent on a real value of that name there)",
    "a value_info entry naming a declared graph output carries type and shape only (metadata of two entries for one "
    "value are merged by the one-Value-per-name IR; the statement is silent on which entry owns them) and is dropped "
    "by canon N4 on both sides: only the output entry is judged; a forwarded input is always re-declared verbatim",
    "the location of an external tensor is an opaque string of the proto: every relative spelling that stays inside "
    "the model directory is well-formed, whether or not a path library would rewrite it (no file is opened: external "
    "tensors go through the in-memory entry points only)",
    "below IR 10 a main-graph value_info entry named '{domain}::{function}/{value}' whose function (no overload) is in "
    "the model, whose value is an input or top-level node output of it and which names no value of the main graph is "
    "REFERENCED (serde documents the spelling as the function's value info): it is not 'unreferenced value-info' and "
    "must come back; value names containing '/' get no such entry (the spelling would be ambiguous)",
    "functions / graphs without inputs, nodes or outputs and nodes without outputs are well-formed protos (every one of "
    "these lists is 'repeated', none has a minimum length in onnx.proto)",
    "witnesses are shrunk by removing repeated elements / doc strings while the same signature persists; the "
    "unshrunk generated proto is kept in the replay file",
]

logging.getLogger("onnx_ir").setLevel(logging.ERROR)  # warnings about dangling names are not observations

KIND_WEIGHTS = (
    ("ModelProto", 0.40), ("GraphProto", 0.12), ("FunctionProto", 0.12), ("NodeProto", 0.10),
    ("TensorProto", 0.10), ("AttributeProto", 0.06), ("ValueInfoProto", 0.05), ("TypeProto", 0.05),
)
PROTO_CLASSES = {
    "ModelProto": onnx.ModelProto, "GraphProto": onnx.GraphProto, "FunctionProto": onnx.FunctionProto,
    "NodeProto": onnx.NodeProto, "TensorProto": onnx.TensorProto, "AttributeProto": onnx.AttributeProto,
    "ValueInfoProto": onnx.ValueInfoProto, "TypeProto": onnx.TypeProto,
}
KEY_FEATURES = (
    "attr_doc", "overloads", "nested_shape", "quant_annotation", "dim_denotation", "type_denotation",
    "ref_attrs", "device_config", "node_device_config", "tensor_meta", "lowbit", "func_value_info",
    "external", "typed_storage", "captures", "func_attr_defaults",
    # gen_proto_c02
    "alias_names:bare", "alias_names:convention", "alias_names:near_miss", "overlap_untyped_output",
    "overlap_output_value_info:untyped_output", "overlap_untyped_init_input",
    "location_spelling",
) + tuple(f"location_spelling:{s}" for s in gx.LOCATION_STYLES) + (
    # carriers that say almost nothing: the deciding combinations must have been reached
    "sparse_carriers", "sparse:model", "sparse:graph", "sparse:function", "sparse:node", "sparse:tensor",
    "sparse:attribute", "sparse:type", "sparse:value_info",
    "sparse:value_info_entry:doc_string", "sparse:value_info_entry:metadata_props", "sparse:value_info_entry:type",
    "sparse:value_info_io:doc_string", "sparse:value_info_io:metadata_props", "sparse:value_info_io:nothing",
    "sparse:type:denotation", "sparse:type:dim_denotation", "sparse:type_wrapper:denotation",
    "sparse:type_wrapper:element_denotation", "sparse:tensor:nothing", "sparse:tensor:dims",
    "sparse:tensor:doc_string", "sparse:tensor:metadata_props", "sparse:graph_body:no_node",
    "sparse:graph:value_info", "sparse:function:value_info",
    # function value info parked in the main graph below IR 10; carriers of degenerate arity
    "fn_value_info_pre10", "fn_value_info_pre10:input", "fn_value_info_pre10:node_output",
    "fn_value_info_pre10:function_without_inputs", "fn_value_info_pre10:function_with_inputs",
    "fn_value_info_pre10:function_without_outputs", "fn_value_info_pre10:function_with_outputs",
    "degenerate_arity", "degenerate:function:no_input", "degenerate:function:no_node", "degenerate:function:no_output",
    "degenerate:function:no_input_no_output", "degenerate:function:nothing", "degenerate:function:no_input:no_attribute",
    "degenerate:graph:no_input", "degenerate:graph:no_node", "degenerate:graph:no_output",
    "degenerate:graph:no_input_no_output", "degenerate:node:no_output", "degenerate:node:no_input_no_output",
)
MAX_DIFFS_PER_TRIP = 8
ARITY_STRATUM = 17  # every 17th generated case (coprime with the 16 round-robin shards) is the pre-IR-10 function value info / degenerate arity stratum


def plan(tier: str) -> dict:
    quick = tier == "quick"
    floors = {
        "roundtrips_compared": 1200 if quick else 60000,
        "idempotence_compared": 1200 if quick else 60000,
        "file_roundtrips": 40 if quick else 1500,
        "corpus_models_compared": 60 if quick else 1900,
    }
    for kind, w in KIND_WEIGHTS:
        floors[f"kind:{kind}"] = int((60 if quick else 2500) * w / 0.05) // 4
    for f in KEY_FEATURES:
        floors[f"feat:{f}"] = 40 if quick else 1500
        if f.startswith("sparse:") and f.count(":") == 2:  # one kept field of one carrier kind: ~1% of cases each
            floors[f"feat:{f}"] = 15 if quick else 500
    for v in range(3, 14):
        floors[f"ir_version:{v}"] = 20 if quick else 800
    floors["stratum:pre10_function_value_info+degenerate_arity"] = 1000 if quick else 30000
    floors["function_entries_compared"] = 1500 if quick else 45000
    floors["idempotence:function_entries_compared"] = 1500 if quick else 45000
    return {
        "cases": 64000 if quick else 1600000,
        "shards": 16,
        "budget_s": 32 if quick else 440,
        "floors": floors,
        "min_nontrivial": 600 if quick else 30000,
        "params": {"corpus_cases": 160 if quick else 1918},
    }


# ---- entry points -----------------------------------------------------------------------------------


def _type_from(tp: onnx.TypeProto, via_serde: bool):
    if via_serde:
        return serde.deserialize_type_proto_for_type(tp), serde.deserialize_type_proto_for_shape(tp)
    ts = ir.from_proto(tp)
    return ts.type, ts.shape


def _type_to(pair, via_serde: bool) -> onnx.TypeProto:
    ty, shape = pair
    if ty is None:
        out = onnx.TypeProto()
    elif via_serde:
        out = serde.serialize_type(ty)
    else:
        out = ir.to_proto(ty)
    if shape is not None:
        # the documented way to emit a shape: create the type first, then write the shape into it
        serde.serialize_shape_into(out, shape)
    return out


def _attr_to(attr, into: bool) -> onnx.AttributeProto:
    if attr.is_ref():
        if into:
            out = onnx.AttributeProto()
            serde.serialize_reference_attribute_into(out, attr)
            return out
        return serde.serialize_reference_attribute(attr)
    if into:
        out = onnx.AttributeProto()
        serde.serialize_attribute_into(out, attr)
        return out
    return serde.serialize_attribute(attr)


def _into(cls, fn: Callable, obj: Any):
    out = cls()
    fn(out, obj)
    return out


# api -> kind -> (deserialize, serialize)
def _entry(kind: str, api: str) -> tuple[Callable, Callable]:
    if kind == "TypeProto":
        via = api != "from_proto/to_proto"
        return (lambda p: _type_from(p, via)), (lambda o: _type_to(o, via))
    if api == "from_proto/to_proto":
        return ir.from_proto, ir.to_proto
    into = api == "serde.serialize_into"
    table = {
        "ModelProto": (serde.deserialize_model,
                       (lambda o: serde.serialize_model_into(onnx.ModelProto(), from_=o)) if into else serde.serialize_model),
        "GraphProto": (serde.deserialize_graph,
                       (lambda o: _into(onnx.GraphProto, lambda out, x: serde.serialize_graph_into(out, from_=x), o)) if into else serde.serialize_graph),
        "FunctionProto": (serde.deserialize_function,
                          (lambda o: _into(onnx.FunctionProto, lambda out, x: serde.serialize_function_into(out, from_=x), o)) if into else serde.serialize_function),
        "NodeProto": (serde.deserialize_node,
                      (lambda o: _into(onnx.NodeProto, lambda out, x: serde.serialize_node_into(out, from_=x), o)) if into else serde.serialize_node),
        "TensorProto": (serde.deserialize_tensor,
                        (lambda o: _into(onnx.TensorProto, lambda out, x: serde.serialize_tensor_into(out, from_=x), o)) if into else serde.serialize_tensor),
        "AttributeProto": (serde.deserialize_attribute, lambda o: _attr_to(o, into)),
        "ValueInfoProto": ((lambda p: serde.deserialize_value_info_proto(p, None)),
                           (lambda o: _into(onnx.ValueInfoProto, serde.serialize_value_into, o)) if into else serde.serialize_value),
    }
    return table[kind]


APIS = ("from_proto/to_proto", "serde.deserialize/serialize", "serde.serialize_into")


class _Raised(Exception):
    def __init__(self, direction: str, exc: BaseException) -> None:
        super().__init__(direction)
        self.direction = direction
        self.exc = exc


def _trip(proto, kind: str, api: str, tmpdir: str | None, tag: str = "a"):
    """One proto -> IR -> proto trip through the chosen entry point.  Raises _Raised if onnx_ir raised."""
    if api.startswith("file"):
        assert tmpdir is not None and kind == "ModelProto"
        ext = ".textproto" if api == "file.textproto" else ".onnx"
        src = os.path.join(tmpdir, f"src_{tag}{ext}")
        dst = os.path.join(tmpdir, f"dst_{tag}{ext}")
        onnx.save(proto, src)
        try:
            model = ir.load(src)
        except Exception as e:  # noqa: BLE001 - the statement promises a result
            raise _Raised("deserialize", e) from e
        try:
            ir.save(model, dst)
        except Exception as e:  # noqa: BLE001
            raise _Raised("serialize", e) from e
        out = onnx.load(dst, load_external_data=False)
        os.unlink(src)
        os.unlink(dst)
        return out
    de, se = _entry(kind, api)
    try:
        obj = de(proto)
    except Exception as e:  # noqa: BLE001
        raise _Raised("deserialize", e) from e
    try:
        out = se(obj)
    except Exception as e:  # noqa: BLE001
        raise _Raised("serialize", e) from e
    return out


def _third_party_ok(proto, api: str, tmpdir: str) -> bool:
    """Control for the file entry point: does onnx.save/onnx.load alone keep the proto?"""
    ext = ".textproto" if api == "file.textproto" else ".onnx"
    path = os.path.join(tmpdir, f"ctl{ext}")
    onnx.save(proto, path)
    back = onnx.load(path, load_external_data=False)
    os.unlink(path)
    return cp.canon(back) == cp.canon(proto)


# ---- judging one proto --------------------------------------------------------------------------------


def judge(proto, kind: str, api: str, tmpdir: str | None, count: Callable[[str, int], None] | None = None):
    """Both trips of one proto.  Returns a list of (signature, text) for every refuting event."""
    count = count or (lambda k, n=1: None)
    events: list[tuple[str, str]] = []
    ca = cp.canon(proto)  # before the library sees (and possibly aliases) the message
    fa = _function_entries(proto, kind)
    try:
        p1 = _trip(proto, kind, api, tmpdir, "a")
    except _Raised as r:
        count(f"exception:{type(r.exc).__name__}", 1)
        site = raise_site(_innermost(r.exc))
        events.append((f"exception:{r.direction}|{_exc_name(r.exc)}@{site}",
                       f"{r.direction} raised {_exc_chain(r.exc)}"))
        return events
    if type(p1) is not type(proto):
        events.append((f"wrong-result-type|{kind}", f"round trip of a {kind} returned {type(p1).__name__}"))
        return events
    count("roundtrips_compared", 1)
    c1 = cp.canon(p1)
    events += _compare(ca, c1, proto, p1, "", count)
    f1 = _function_entries(p1, kind)
    events += _compare_function_entries(fa, f1, "", count)
    try:
        p2 = _trip(p1, kind, api, tmpdir, "b")
    except _Raised as r:
        count(f"exception:{type(r.exc).__name__}", 1)
        site = raise_site(_innermost(r.exc))
        events.append((f"idempotence:exception:{r.direction}|{_exc_name(r.exc)}@{site}",
                       f"second trip: {r.direction} of the library's own output raised {_exc_chain(r.exc)}"))
        return events
    count("idempotence_compared", 1)
    events += _compare(c1, cp.canon(p2), p1, p2, "idempotence:", count)
    events += _compare_function_entries(f1, _function_entries(p2, kind), "idempotence:", count)
    return events


_FUNCTION_ENTRY = "GraphProto.value_info{domain::function/value of an IR<10 model}"


def _function_entries(proto, kind: str):
    """Canonical multiset of the main-graph value_info entries that describe values of model-local
    functions (IR < 10: ``{domain}::{function}/{value}``, see gen_proto_c02).  canon N4 drops them from the
    main comparison as naming nothing in the main graph; they are referenced - by the function - so
    they are judged here: none lost, added, duplicated or altered."""
    if kind != "ModelProto":
        return None
    items = [cp.canon(v) for v in gx.entries_for_functions(proto)]
    out = {"__msg__": "GraphProto"}
    if items:
        out["value_info"] = cp.Multiset(items, "name")
    return out


def _compare_function_entries(fa, fb, prefix: str, count) -> list[tuple[str, str]]:
    if fa is None or fb is None or (len(fa) == 1 and len(fb) == 1):
        return []
    count(f"{prefix}function_entries_compared", len(fa.get("value_info", ())))
    out = []
    seen = set()
    for d in cp.differences(fa, fb, limit=MAX_DIFFS_PER_TRIP):
        whole = d.owner == "GraphProto" and d.field == "value_info"
        sig = prefix + (f"{_FUNCTION_ENTRY}|{d.kind}" if whole else d.signature())
        if sig in seen:
            continue
        seen.add(sig)
        out.append((sig, f"graph.{d.path} (value info of a function value, parked in the main graph below IR 10): "
                         f"{cp.brief(d.a)}  ->  {cp.brief(d.b)}   [{d.kind}]"))
    return out


def _compare(ca, cb, pa, pb, prefix: str, count) -> list[tuple[str, str]]:
    if ca == cb:
        count(f"{prefix}equal", 1)
        return []
    diffs = cp.differences(cp.canon(pa, lenient=True), cp.canon(pb, lenient=True), limit=MAX_DIFFS_PER_TRIP)
    if not diffs:
        # only the order of a keyed list the statement does not mention changed
        count(f"report_only_{prefix}keyed_list_order", 1)
        return []
    out = []
    seen = set()
    for d in diffs:
        sig = prefix + _signature(d)
        if sig in seen:
            continue
        seen.add(sig)
        out.append((sig, f"{d.path}: {cp.brief(d.a)}  ->  {cp.brief(d.b)}   [{d.kind}]"))
    return out


_EXTERNAL_ENTRY = re.compile(r"external_data\{(location|offset|length)\}\.(\w+)$")


def _signature(d) -> str:
    """``Difference.signature()``, except that a differing entry of a tensor's ``external_data`` names the
    storage field (the generic form would be ``StringStringEntryProto.value``: the same for every keyed
    string map of the format)."""
    m = _EXTERNAL_ENTRY.search(d.path)
    if m:
        return f"TensorProto.external_data{{{m.group(1)}}}.{m.group(2)}|{d.kind}"
    return d.signature()


def _innermost(exc: BaseException) -> BaseException:
    # serde wraps errors in SerdeError chains; the mechanism is the innermost cause
    seen = set()
    while exc.__cause__ is not None and id(exc) not in seen:
        seen.add(id(exc))
        exc = exc.__cause__
    return exc


def _exc_name(exc: BaseException) -> str:
    return type(_innermost(exc)).__name__


def _exc_chain(exc: BaseException) -> str:
    inner = _innermost(exc)
    return f"{type(exc).__name__} <- {type(inner).__name__}: {str(inner)[:300]}"


# ---- witness shrinking ---------------------------------------------------------------------------------


def _candidates(msg, path=()):
    """(path, field, index|None): removable repeated-message elements and clearable doc strings,
    outermost first."""
    later = []
    # a value_info entry is never reduced to its name alone: a name-only entry says nothing about the
    # value, is not generated and is outside what is judged - a witness must stay inside
    last_word = None
    if msg.DESCRIPTOR.name == "ValueInfoProto":
        said = [n for n in ("type", "doc_string", "metadata_props")
                if (msg.HasField(n) if n == "type" else len(getattr(msg, n)))]
        if len(said) == 1 and (said[0] != "metadata_props" or len(msg.metadata_props) == 1):
            last_word = said[0]
    for fd, value in msg.ListFields():
        repeated = cp._is_repeated(fd)
        if fd.name == last_word and fd.name != "type":
            continue
        if fd.message_type is not None:
            if repeated:
                for i in range(len(value) - 1, -1, -1):
                    yield (path, fd.name, i)
                for i, v in enumerate(value):
                    later.append((v, path + ((fd.name, i),)))
            else:
                later.append((value, path + ((fd.name, None),)))
        elif fd.name in ("doc_string", "denotation") and not repeated:
            yield (path, fd.name, None)
    for v, p in later:
        yield from _candidates(v, p)


def _resolve(msg, path):
    for name, idx in path:
        msg = getattr(msg, name)
        if idx is not None:
            msg = msg[idx]
    return msg


def shrink(proto, kind: str, api: str, signature: str, tmpdir: str | None, max_tests: int = 150):
    cls = type(proto)

    def fails(cand) -> bool:
        try:
            return any(sig == signature for sig, _ in judge(cand, kind, api, tmpdir))
        except Exception:  # noqa: BLE001 - a candidate the harness cannot judge is not a witness
            return False

    cur = cls()
    cur.CopyFrom(proto)
    tests = 0
    progress = True
    while progress and tests < max_tests:
        progress = False
        for path, field, idx in list(_candidates(cur)):
            cand = cls()
            cand.CopyFrom(cur)
            target = _resolve(cand, path)
            if idx is None:
                target.ClearField(field)
            else:
                del getattr(target, field)[idx]
            tests += 1
            if fails(cand):
                cur = cand
                progress = True
                break
            if tests >= max_tests:
                break
    return cur


# ---- the shard ---------------------------------------------------------------------------------------


def _corpus_paths() -> list[str]:
    import onnx.backend.test

    base = os.path.join(os.path.dirname(onnx.backend.test.__file__), "data")
    repo = os.environ.get("VF_REPO", "/repo")
    return sorted(glob.glob(base + "/**/*.onnx", recursive=True)) + sorted(
        glob.glob(os.path.join(repo, "testdata") + "/**/*.textproto", recursive=True)
    )


def _draw_kind(rng) -> str:
    r = rng.random()
    acc = 0.0
    for kind, w in KIND_WEIGHTS:
        acc += w
        if r < acc:
            return kind
    return KIND_WEIGHTS[0][0]


def _b64(proto) -> str:
    return base64.b64encode(proto.SerializeToString(deterministic=True)).decode("ascii")


def run(ctx) -> None:
    tmpdir = os.environ.get("VF_SHARD_TMP") or tempfile.mkdtemp(prefix="vf-c02-")
    own_tmp = "VF_SHARD_TMP" not in os.environ
    try:
        _run(ctx, tmpdir)
    finally:
        if own_tmp:
            shutil.rmtree(tmpdir, ignore_errors=True)


def _run(ctx, tmpdir: str) -> None:
    corpus_cases = int(ctx.params.get("corpus_cases", 0))
    corpus = _corpus_paths() if corpus_cases else []
    if corpus_cases and not corpus:
        ctx.note("corpus not found: no ONNX backend test data / repo testdata")
    shrunk_signatures: set[str] = set()
    for case in ctx.case_ids():
        rng = ctx.rng(case)
        used: set[str] = set()
        carriers: set[str] = set()
        report_only: str | None = None
        if case < corpus_cases and corpus:
            # quick: a seed-dependent sample; thorough (corpus_cases >= len): every model once
            idx = case if corpus_cases >= len(corpus) else rng.randrange(len(corpus))
            if idx >= len(corpus):
                continue
            path = corpus[idx]
            if ctx.tier == "quick" and path.endswith(".textproto"):
                continue  # the four large exported models are left to the thorough tier
            proto = onnx.load(path, load_external_data=False)
            kind, api, origin = "ModelProto", rng.choice(APIS), f"corpus:{os.path.basename(os.path.dirname(path))}/{os.path.basename(path)}"
            ctx.count("corpus_models_compared")
        else:
            if case % ARITY_STRATUM == ARITY_STRATUM - 1:
                # fixed stratum: an IR 8/9 model with functions whose value info is parked in the main
                # graph, functions / graphs of degenerate arity (no inputs, no nodes, no outputs)
                kind = "ModelProto"
                gen = gx.ProtoGenC02(rng, ir_version=rng.choice((8, 9)), force={"functions"},
                                     extra_force={"fn_value_info_pre10", "degenerate_arity"})
                ctx.count("stratum:pre10_function_value_info+degenerate_arity")
            else:
                kind = _draw_kind(rng)
                gen = gx.ProtoGenC02(rng)
            proto = gen.build(kind)
            used, carriers = gen.used, gen.carriers
            report_only = gen.report_only
            origin = f"generated ir_version={gen.ir_version}"
            r = rng.random()
            if kind == "ModelProto" and r < 0.2:
                api = "file.textproto" if r < 0.04 else "file.onnx"
                if "external" in used:
                    api = "from_proto/to_proto"  # the file entry point is exercised without external data
            else:
                api = rng.choice(APIS)
            ctx.count(f"ir_version:{gen.ir_version}")
            for f in used:
                ctx.count(f"feat:{f}")
            for c in carriers:
                ctx.count(f"carrier:{c}")
        ctx.count(f"kind:{kind}")
        ctx.count(f"api:{api}")
        ctx.count("proto_bytes", proto.ByteSize())
        if api.startswith("file"):
            if not _third_party_ok(proto, api, tmpdir):
                ctx.count("report_only_file_third_party_mismatch")
                api = "from_proto/to_proto"
            else:
                ctx.count("file_roundtrips")
        original_b64 = _b64(proto)
        events = judge(proto, kind, api, tmpdir, ctx.count)
        nontrivial = bool(carriers) and len(carriers) >= 3 and bool(used & gp.OUTSIDE_BACKEND_CORPUS)
        ctx.evaluation(key=stable_hash(original_b64), nontrivial=nontrivial)
        if not events:
            ctx.count("cases_without_difference")
            if nontrivial:
                ctx.sample({"case": case, "kind": kind, "api": api, "origin": origin, "bytes": proto.ByteSize(),
                            "features": sorted(used), "carriers": sorted(carriers)})
            continue
        if report_only:
            # a construct the statement is silent on (see gen_proto_c02): observed, never judged
            ctx.count(f"report_only_{report_only}")
            continue
        for sig, text in events:
            witness = proto
            if sig not in shrunk_signatures and len(shrunk_signatures) < 6 and not ctx.out_of_time():
                shrunk_signatures.add(sig)
                witness = shrink(proto, kind, api, sig, tmpdir)
                again = [t for s, t in judge(witness, kind, api, tmpdir) if s == sig]
                text = again[0] if again else text
            ctx.violation(
                sig,
                f"{kind} via {api} ({origin}): {text}\n  witness ({witness.ByteSize()} bytes):\n"
                + _indent(str(witness)[:2500]),
                {"kind": kind, "api": api, "proto_b64": _b64(witness), "original_proto_b64": original_b64,
                 "case": case, "origin": origin, "features": sorted(used), "expect": sig},
            )


def _indent(text: str) -> str:
    return "\n".join("    " + line for line in text.splitlines())


def replay(replay_data, ctx) -> None:
    kind = replay_data["kind"]
    api = replay_data["api"]
    proto = PROTO_CLASSES[kind]()
    proto.ParseFromString(base64.b64decode(replay_data["proto_b64"]))
    tmpdir = tempfile.mkdtemp(prefix="vf-c02-replay-")
    try:
        for sig, text in judge(proto, kind, api, tmpdir, ctx.count):
            ctx.violation(sig, f"{kind} via {api}: {text}\n" + _indent(str(proto)[:2500]), replay_data)
    finally:
        shutil.rmtree(tmpdir, ignore_errors=True)
