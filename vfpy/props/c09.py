"""C09 - concurrent external-data writing is schedule-independent, bounded and live.

The shard drives a killable child process (``vfpy/c09_mon.py``) that performs real threaded
``ir.save(..., external_data=..., max_workers=..., max_in_flight_bytes=...)`` (or, for some
single-file cases, ``external_data.convert_tensors_to_external``) calls on generated
models whose initializers are monitor tensors, with seeded schedule injection.  Offline checkers
over the recorded event log decide; hangs are diagnosed structurally by a watchdog in the child.
"""

from __future__ import annotations

import json
import os
import select
import subprocess
import sys
import time

import onnx_ir  # noqa: F401  (VF_REPO is honoured through PYTHONPATH; the child imports the same tree)

ID = "C09"
LEVEL = "exploration"
RULE = (
    "case = one generated model (2-12 tensor objects, 2-18 initializers, an object may back several "
    "initializers; every object is of one of six tensor classes: own TensorProtocol implementation with/without "
    "tofile, ir.Tensor subclass over an ndarray, ir.Tensor subclass materialising a framework array in "
    "tobytes/tofile, ir.LazyTensor (cache on/off), ir.ExternalTensor on a source file of its own, ir.PackedTensor - "
    "all logging their evaluations; sizes 0 (zero-element tensors) and tiny..8000 B incl. several > budget) x entry point "
    "(ir.save, with size_threshold_bytes=-1 when zero-byte tensors must be written, or "
    "external_data.convert_tensors_to_external) x max_workers 2-16 x max_in_flight_bytes "
    "1..>total x single-file/sharded (random shard limit, or a shard-by-shard plan mixing single-tensor "
    "shards written by their driver with multi-tensor shards written by an inner pool, one object "
    "starting several shards) x alignment x 0-2 failing tensors (early/mid/late, "
    "Exception/BaseException) or a failing callback x seeded delay profile; one "
    "monitored threaded save per case, judged against a serial save of the same model. "
    "Non-trivial = >=2 workers were between budget-acquire request and release at the same time "
    "(measured in the event log) and >=1 Condition.wait happened inside _ByteBudget.acquire. "
    "Distinct = distinct order of acquire-request/wait/ok/tensor-enter/exit/release/callback events."
)
ASSUMPTIONS = [
    "CPython's threading primitives, ThreadPoolExecutor, sys.monitoring and sys._current_frames behave as documented",
    "monitor events are appended under one lock; a logged interval lies inside the real call interval, so an "
    "overlap in the log is a real overlap (the converse is not claimed)",
    "_ByteBudget keeps its state in _capacity/_in_flight/_oversized_active/_condition (read under its own lock); "
    "if these names disappear the child refuses to start and the check is inconclusive",
    "only schedules produced by the injected delays/yields were observed; no claim about other interleavings",
    "a hang is a violation only when three stack samples (0.5 s and 1 s apart), after >=3 s without any monitor "
    "event, show every thread parked in a lock/condition/join at the same instruction with an unchanged event count",
]


def plan(tier: str) -> dict:
    quick = tier == "quick"
    return {
        "cases": 6400 if quick else 96000,
        "shards": 16,
        "budget_s": 32 if quick else 500,
        "hard_timeout_s": 240 if quick else 1500,
        "floors": {
            "saves_workers_overlapped": 150 if quick else 3000,
            "saves_with_budget_wait": 80 if quick else 1500,
            "saves_with_eval_overlap": 80 if quick else 1500,
            "saves_raised_injected": 40 if quick else 800,
            "saves_sharded": 80 if quick else 1500,
            "saves_compared_with_serial": 150 if quick else 3000,
            "oversized_reservations": 150 if quick else 3000,
            "shared_object_evaluations": 100 if quick else 2000,
            # ... and per tensor class of the shared object (the 'one use at a time' clause is judged for each)
            "shared_object_evaluations_protocol": 100 if quick else 2000,
            "shared_object_evaluations_tensor": 60 if quick else 1200,
            "shared_object_evaluations_adapter": 60 if quick else 1200,
            "shared_object_evaluations_lazy": 60 if quick else 1200,
            "shared_object_evaluations_external": 60 if quick else 1200,
            "shared_object_evaluations_packed": 60 if quick else 1200,
            "budget_snapshots": 2000 if quick else 40000,
            "callback_calls": 1000 if quick else 20000,
            "line_yields": 500 if quick else 10000,
            # measured in the event log: a tensor object written both by a shard driver (one-tensor
            # file) and by an inner pool (file whose callbacks came from >=2 threads) in one save
            "saves_object_shared_by_driver_and_pool": 15 if quick else 300,
            "saves_zero_byte_and_several_oversized": 40 if quick else 800,
            "saves_api_convert": 50 if quick else 1000,
        },
        "min_nontrivial": 60 if quick else 1200,
        "params": {},
    }


# ------------------------------------------------------------------------------------------------
class Child:
    """One ``python -m vfpy.c09_mon`` process; JSON lines over pipes; every read has a timeout."""

    def __init__(self) -> None:
        tmp = os.environ.get("VF_SHARD_TMP") or os.environ.get("TMPDIR") or "."
        self.errpath = os.path.join(tmp, f"c09-child-{os.getpid()}-{time.monotonic_ns()}.err")
        self.err = open(self.errpath, "wb")
        self.proc = subprocess.Popen(
            [sys.executable, "-m", "vfpy.c09_mon"], stdin=subprocess.PIPE, stdout=subprocess.PIPE,
            stderr=self.err, cwd=os.environ.get("VF_ROOT") or os.getcwd(),
        )
        self.buf = b""
        hello = self.read(120.0)
        if not hello or not hello.get("hello"):
            tail = self.stderr_tail()
            self.kill()
            raise RuntimeError(f"C09 child did not start: {hello} {tail}")
        self.hello = hello

    def read(self, timeout: float) -> dict | None:
        fd = self.proc.stdout.fileno()
        deadline = time.monotonic() + timeout
        while b"\n" not in self.buf:
            left = deadline - time.monotonic()
            if left <= 0:
                return None
            r, _, _ = select.select([fd], [], [], min(left, 1.0))
            if r:
                chunk = os.read(fd, 1 << 16)
                if not chunk:
                    return None  # EOF: child is gone
                self.buf += chunk
        line, self.buf = self.buf.split(b"\n", 1)
        return json.loads(line)

    def request(self, req: dict, timeout: float) -> dict | None:
        try:
            self.proc.stdin.write((json.dumps(req) + "\n").encode())
            self.proc.stdin.flush()
        except (BrokenPipeError, OSError):
            return None
        return self.read(timeout)

    def stderr_tail(self) -> str:
        try:
            self.err.flush()
            with open(self.errpath, "rb") as f:
                return f.read()[-1500:].decode("utf-8", "replace")
        except OSError:
            return ""

    def kill(self) -> None:
        try:
            self.proc.kill()
        except OSError:
            pass
        self.close()

    def close(self) -> None:
        try:
            if self.proc.poll() is None:
                try:
                    self.proc.stdin.write(b'{"quit": true}\n')
                    self.proc.stdin.flush()
                    self.proc.stdin.close()
                except (BrokenPipeError, OSError):
                    pass
                try:
                    self.proc.wait(10)
                except subprocess.TimeoutExpired:
                    self.proc.kill()
            self.proc.wait()
        finally:
            for f in (self.proc.stdout, self.err):
                try:
                    f.close()
                except OSError:
                    pass
            try:
                os.remove(self.errpath)
            except OSError:
                pass


REQUEST_TIMEOUT_S = 75.0  # > HARD_SAVE_S of the child's own watchdog; only a backstop


def _summary(spec: dict) -> dict:
    return {
        "mode": spec["mode"], "layout": spec.get("layout"), "api": spec.get("api"), "size_threshold_bytes": spec.get("threshold"),
        "workers": spec["workers"], "max_in_flight_bytes": spec["budget"],
        "sizes": [spec["objs"][o]["size"] for o in spec["uses"]], "uses": spec["uses"],
        "classes": [o.get("base", "protocol") + ("+cache" if o.get("base") == "lazy" and o.get("lazy_cache") else "")
                    for o in spec["objs"]],
        "max_shard": spec["max_shard"], "alignment": spec["alignment"], "fail": spec["fail"],
        "cb_fail": spec["cb_fail"], "profile": spec["profile"], "p_yield": spec["p_yield"],
    }


def _deadlock_signature(res: dict) -> str:
    parked = res.get("parked_in") or ["?"]
    # threads waiting for a tensor lock or for futures are consequences of the one stuck in acquire
    where = "budget-acquire-never-granted" if "acquire" in parked else "parked-in=" + "+".join(parked)
    if res.get("holder_parked"):
        # a thread that holds a granted reservation is itself blocked on a lock
        where += "|budget-held-while-blocked-at-" + "+".join(res["holder_parked"])
    return f"deadlock|{where}|{'after-injected-failure' if res.get('after_failure') else 'no-failure'}"


def _deadlock_message(res: dict) -> str:
    lines = [f"save did not terminate: no monitor event for {res.get('silence_s')} s, {res.get('events')} events "
             f"logged, identical in two stack samples; every thread parked:"]
    for name, info in (res.get("stacks") or {}).items():
        lines.append(f"  {name} [{info.get('parked')}]: " + " <- ".join(info.get("stack", [])[:7]))
    lines.append("case: " + json.dumps(_summary(res["spec"])) if res.get("spec") else "")
    lines.append("last events: " + (res.get("events_tail") or "")[-1200:])
    return "\n".join(lines)


class Driver:
    def __init__(self, ctx) -> None:
        self.ctx = ctx
        self.child: Child | None = None
        self.traces: set[str] = set()
        self.deadlocks = 0
        self.undiagnosed = 0

    def ensure(self) -> Child:
        if self.child is None:
            self.child = Child()
            self.ctx.count("children_started")
        return self.child

    def drop(self, kill: bool = False) -> None:
        if self.child is not None:
            (self.child.kill if kill else self.child.close)()
            self.child = None

    def one(self, case: int, rep: int = 0) -> dict | None:
        ctx = self.ctx
        child = self.ensure()
        res = child.request({"seed": ctx.seed, "case": case, "rep": rep}, REQUEST_TIMEOUT_S)
        if res is None:
            rc = child.proc.poll()
            tail = child.stderr_tail()
            self.drop(kill=True)
            if rc is None:
                # backstop: the child's own watchdog did not speak; never a verdict
                self.undiagnosed += 1
                ctx.count("report_only_child_killed_after_timeout")
                return None
            raise RuntimeError(f"C09 child died rc={rc} on case {case}: {tail}")
        if res.get("error"):
            self.drop()
            raise RuntimeError(f"harness error in C09 child on case {case}: {res['error']}")
        replay = {"seed": ctx.seed, "case": case, "rep": rep, "summary": _summary(res["spec"]) if res.get("spec") else None}
        if res.get("fatal"):
            self.drop()  # it has exited
            ctx.evaluation(key=f"fatal:{case}:{rep}", nontrivial=False)
            if res["fatal"] == "deadlock":
                self.deadlocks += 1
                ctx.count("deadlocks_diagnosed")
                ctx.violation(_deadlock_signature(res), _deadlock_message(res), replay)
            else:
                self.undiagnosed += 1
                ctx.count("report_only_watchdog_undiagnosed")
                ctx.note("watchdog fired without a structural diagnosis: " + json.dumps(res.get("stacks"))[:1500])
            return res
        st = res["stats"]
        spec = res["spec"]
        overlapped = st["max_busy"] >= 2
        waited = st["waits"] >= 1
        ctx.count("saves")
        ctx.count("saves_" + spec["mode"])
        ctx.count("outcome_" + res["outcome"])
        ctx.count("saves_raised_injected", 1 if st["injected_raises"] and res["outcome"].startswith("raised") else 0)
        ctx.count("saves_workers_overlapped", 1 if overlapped else 0)
        ctx.count("saves_with_budget_wait", 1 if waited else 0)
        ctx.count("saves_with_eval_overlap", 1 if st["max_eval"] >= 2 else 0)
        ctx.count("saves_compared_with_serial", 1 if st["compared"] else 0)
        ctx.count("saves_several_oversized", 1 if sum(1 for o in spec["uses"] if spec["objs"][o]["size"] > spec["budget"]) > 1 else 0)
        ctx.count("events_logged", st["events"])
        ctx.count("budget_waits", st["waits"])
        ctx.count("budget_snapshots", st["snapshots"])
        ctx.count("budgets_created", st["budgets"])
        ctx.count("oversized_reservations", st["oversized"])
        ctx.count("callback_calls", st["callbacks"])
        ctx.count("tensor_evaluations", st["evals"])
        ctx.count("shared_object_evaluations", st["shared_evals"])
        for base, n in st["shared_evals_by_base"].items():
            ctx.count("shared_object_evaluations_" + base, n)
        ctx.count("injected_raises", st["injected_raises"])
        ctx.count("line_events", st["lines"])
        ctx.count("line_yields", st["yields"])
        ctx.count("threads_seen", st["threads"])
        ctx.count("profile_" + spec["profile"])
        ctx.count("saves_api_" + spec["api"])
        ctx.count("saves_layout_planned", 1 if spec["layout"] == "planned" else 0)
        ctx.count("saves_max_workers_over_8", 1 if spec["workers"] > 8 else 0)
        ctx.count("zero_byte_tensor_evaluations", st["zero_byte_evals"])
        ctx.count("saves_zero_byte_and_several_oversized", 1 if st["zero_byte_evals"] and st["oversized"] > 1 else 0)
        ctx.count("saves_driver_and_pool_writers", st["driver_and_pool"])
        ctx.count("saves_object_shared_by_driver_and_pool", st["obj_driver_and_pool"])
        ctx.count(f"max_busy_{min(st['max_busy'], 8)}")
        if st["cap_mismatch"]:
            ctx.count("report_only_budget_capacity_differs_from_option", st["cap_mismatch"])
        if res.get("restart"):
            ctx.count("child_restarts_after_leftover_threads")
            self.drop()
        self.traces.add(res["trace"])
        ctx.evaluation(key=res["trace"], nontrivial=overlapped and waited)
        ctx.sample({"case": case, **_summary(spec), "outcome": res["outcome"],
                    "observed": {k: st[k] for k in ("events", "threads", "waits", "max_busy", "max_eval", "mat_peak", "oversized", "yields")},
                    "ms": res["ms"]})
        for sig, msg in res["violations"]:
            ctx.violation(sig, msg + "\ncase: " + json.dumps(_summary(spec)) + "\nlast events: " + res.get("events_tail", "")[-1500:], replay)
        return res


def run(ctx) -> None:
    drv = Driver(ctx)
    try:
        for case in ctx.case_ids():
            res = drv.one(case)
            # every 25th case of the shard: same model and options under three more seeded schedules,
            # to measure how many different event orders the injection produces for identical input
            if res is not None and not res.get("fatal") and (case // ctx.nshards) % 25 == 0:
                seen = {res["trace"]}
                for rep in (1, 2, 3):
                    r = drv.one(case, rep)
                    if r is None or r.get("fatal"):
                        break
                    seen.add(r["trace"])
                ctx.count("same_input_groups_of_4_schedules")
                ctx.count("same_input_distinct_orders", len(seen))
            if drv.deadlocks >= 3:
                ctx.note("stopped after 3 diagnosed deadlocks in this shard")
                break
    finally:
        drv.drop()
    ctx.count("distinct_event_traces", len(drv.traces))
    if drv.undiagnosed:
        raise RuntimeError(f"{drv.undiagnosed} save(s) hung without a structural deadlock diagnosis (inconclusive)")


def replay(replay_data, ctx) -> None:
    """Schedules are real, so a replay re-runs the same case under up to ``reps`` seeded schedules."""
    ctx.seed = int(replay_data.get("seed", ctx.seed))
    drv = Driver(ctx)
    try:
        first = int(replay_data.get("rep", 0))
        for rep in range(first, first + int(replay_data.get("reps", 40))):
            drv.one(int(replay_data["case"]), rep)
            if ctx.violations:
                break
    finally:
        drv.drop()
