"""C03 - IR -> proto -> IR preserves the model; serialisation has no side effects.

Monitors, on IR models generated through the public API (vfpy/gen_ir.py) and optionally
edited by a random edit history (vfpy/gen_ops.py):
  * structural isomorphism (vfpy/iso_ir.py) of the model and from_proto(to_proto(model)), including the quantization
    annotation of every value (vfpy/c03_roles.py: per-value payload kept outside the value's own ValueInfoProto, on values
    holding several roles - input / initializer / node output / graph output - at once);
  * to_proto(model) twice gives byte-identical deterministic serialisations;
  * an all-observables snapshot of the model before and after to_proto: nothing may change except
    an initializer tensor's own name becoming the name of its value; the tensors themselves (class, dtype,
    shape, doc string, metadata_props, payload digest, name of attribute tensors) are described by
    vfpy/c03_reload.tensor_observables before and after as well.
Part of the models is loaded from its own serialisation and edited afterwards (vfpy/c03_reload.py): what is
serialised must be the IR state the public accessors show, not what a backing proto still holds.
"""

from __future__ import annotations

import re

import onnx_ir as ir

from vfpy import c03_reload, c03_roles, c03_scopes, gen_ir, iso_ir, snapshot
from vfpy.gen_ops import Gen
from vfpy.world import World

ID = "C03"
LEVEL = "exploration"
RULE = ("a case is one generated structural IR model (nested subgraphs with captures, functions, every attribute "
        "kind, several tensor implementations, typed/untyped values, symbolic/unknown dims, denotations, metadata, "
        "unsorted node order, empty-named trailing outputs), half of them further edited by 1-30 random public edits; "
        "in half of the cases value names are then made to repeat ACROSS scopes (every graph counting its own values "
        "from val_0, or single values borrowing the name of a value of an enclosing/nested/sibling graph or function) "
        "as far as every reference still resolves lexically (innermost scope first), and in 45% the opset imports of "
        "the model/functions are redrawn over both spellings of the default domain, standard, custom and unused "
        "domains and small/large versions; in 50% tensors of every class (initializer payloads, TENSOR/TENSORS "
        "attributes) carry metadata_props / doc strings, and 40% of the representable models are first LOADED "
        "(to_proto -> [bytes ->] from_proto, so tensors are proto-backed and every mapping, doc string and name was "
        "initialised from a proto field) and then edited through the public API (vfpy/c03_reload.scrub: metadata "
        "mappings of model/graphs/functions/nodes/values/tensors cleared, popped key by key, deleted, re-valued, "
        "extended, replaced; doc strings emptied or changed; node/graph/tensor/value names changed; model header "
        "fields reset; value types/shapes dropped or replaced; initializer payloads replaced; 20% of them also get "
        "1-10 random public edits) before being judged; in every third case (fixed stratum) and 15-20% of the others "
        "values are given SEVERAL ROLES in their graph (vfpy/c03_roles.multiply_roles: initializer also graph input, "
        "graph input given a default payload and registered as initializer, inputs / initializers / node outputs also "
        "graph outputs; in the main graph, nested graphs and - without initializers - function bodies; 15% of the "
        "loaded models get further roles after loading) and named values of every GraphProto-serialised graph carry "
        "quantization annotations (meta['quant_parameter_tensor_names'], multi-role values with p=0.9), which half of "
        "the loaded models then edit (removed, emptied, cleared in place, entries popped / re-valued / added, replaced, "
        "new ones); "
        "models that are not well scoped or whose references cannot be resolved by name are skipped and counted; non-trivial = >=4 nodes "
        "and >=3 generator features among {subgraph, function, captured value, non-tensor type, metadata, lazy/proto/"
        "string/low-bit tensor, unsorted order, edit history}; distinct = hash of the serialized proto")
ASSUMPTIONS = [
    "value names are unique per scope and every use resolves, innermost enclosing scope first, to the used value "
    "(decided by vfpy/c03_scopes.lexical_problems, not by serde or NameFixPass); names may repeat across scopes",
    "opset imports: the set of (domain, version) pairs is judged with 'ai.onnx' and '' naming one domain; a mere "
    "respelling of the default domain or a reordering is counted as report_only",
    "documented non-serialised state is not compared: Node.version, meta stores other than the documented serialised key "
    "Value.meta['quant_parameter_tensor_names'] (compared for every value of a graph that is serialised as GraphProto; absent, "
    "None and empty read alike; a FunctionProto has no annotation field, so values owned by a function body itself are "
    "report_only), const_value of non-initializers, opset imports of nested graphs",
    "a tensor name annotated twice in one GraphProto (e.g. a value listed twice among the graph outputs) is counted as report_only",
    "a value with a shape but no type is outside the judged domain (the serializer documents that it skips the shape); counted as report_only",
    "initializers without const_value are skipped by the serializer as documented; such models are not judged",
    "FLOAT attributes are compared as float32",
]

EDIT_WEIGHTS = {"func": 0, "graph": 0.3, "c_rnv": 0.5, "io_iadd": 0, "attr_graph": 0.3}


def plan(tier: str) -> dict:
    quick = tier == "quick"
    return {
        "cases": 16000 if quick else 1500000,
        "shards": 16,
        "budget_s": 35 if quick else 540,
        "floors": {"roundtrips_judged": 3000 if quick else 150000, "snapshots_compared": 3000 if quick else 150000,
                   "edited_models_judged": 400 if quick else 20000,
                   "judged_with_cross_scope_names": 600 if quick else 30000,
                   "judged_with_shadowed_capture": 40 if quick else 2000,
                   "judged_with_both_default_domain_spellings": 300 if quick else 15000,
                   "loaded_then_edited_models_judged": 800 if quick else 40000,
                   "judged_with_metadata_emptied_vs_backing": 60 if quick else 3000,
                   "tensors_compared_across_to_proto": 5000 if quick else 250000,
                   "quant_annotations_compared": 4000 if quick else 200000,
                   "judged_with_quant_annotation_on_multi_role_value": 600 if quick else 30000,
                   "quant_annotated:input+initializer": 200 if quick else 10000,
                   "quant_annotated:input+output": 300 if quick else 15000,
                   "quant_annotated:initializer+output": 300 if quick else 15000,
                   "quant_annotated:input+initializer+output": 500 if quick else 25000,
                   "quant_annotated:node_output+output": 800 if quick else 40000,
                   "quant_annotated:in_nested_graph": 1000 if quick else 50000,
                   "judged_with_quant_annotations_edited_after_load": 100 if quick else 5000},
        "min_nontrivial": 1000,
    }


def norm_path(diff: str) -> str:
    path, _, msg = diff.partition(": ")
    path = re.sub(r"\[[^\]]*\]", "", path)
    path = re.sub(r"<[^>]*>", "", path)
    msg = re.split(r"['\"0-9{(\[]", msg, maxsplit=1)[0].strip()
    return f"{path}|{msg}"


_PAIRING = re.compile(r"left value (\S+) is paired with (\S+), right value (\S+) with (\S+)$")


def roundtrip_signature(diffs: list[str]) -> str:
    """Mechanism-level signature of a failed isomorphism.  A connectivity difference is the root cause of
    whatever attribute differences the mispaired values show next to it, and the nesting depth at which it
    was seen is an instance detail: name it first and collapse the depth."""
    conn = next((d for d in diffs if ": connectivity differs: " in d), None)
    if conn is None:
        sig = norm_path(diffs[0])
        if ".quantization_annotation|" in sig:
            # a side table of the GraphProto: the nesting depth of the graph is an instance detail
            sig = re.sub(r"(\.node\.attr\.g)+", ".node.attr.g*", sig)
        return "roundtrip|" + sig
    path = re.sub(r"(\.node\.attr\.g)+", ".node.attr.g*", norm_path(conn).split("|")[0])
    m = _PAIRING.search(conn)
    names = ({x.rstrip(",") for x in m.groups()} - {"None"}) if m else set()
    if len(names) == 1:
        return f"roundtrip|{path}|reference resolved to another value of the same name"
    return f"roundtrip|{path}|connectivity differs"


def unsupported(model: ir.Model) -> list[str]:
    out = list(iso_ir.well_scoped(model))
    for f in model.functions.values():
        if len(f.graph.initializers):
            out.append("function body with initializers (FunctionProto has no initializer field)")
    out.extend(c03_scopes.lexical_problems(model))
    graphs = [model.graph] + [f.graph for f in model.functions.values()]
    seen = set()
    while graphs:
        g = graphs.pop()
        if id(g) in seen:
            continue
        seen.add(id(g))
        for k, v in g.initializers.items():
            if v.const_value is None:
                out.append("initializer without const_value")
        vals = list(g.inputs) + list(g.initializers.values()) + [o for n in g for o in n.outputs]
        for v in {id(v): v for v in vals}.values():
            if v.shape is not None and v.type is None:
                out.append("shape without type")
        for n in g:
            if not n.outputs and False:
                pass
            for o in n.outputs:
                if not o.name and (o.uses() or o.is_graph_output()):
                    out.append("used value without a name")
            for a in n.attributes.values():
                if isinstance(a, ir.Attr) and not a.is_ref():
                    if a.type == ir.AttributeType.GRAPH:
                        graphs.append(a.value)
                    elif a.type == ir.AttributeType.GRAPHS:
                        graphs.extend(a.value)
    return out


def build(ctx, case):
    rng = ctx.rng(case)
    gen = gen_ir.IRGen(rng, max_depth=rng.choice([0, 1, 2]))
    model = gen.model()
    feats = set(gen.features)
    edited = False
    if case % 2 == 1:
        w = World()
        w.adopt_model(model)
        g = Gen(rng, w, hostile=0.08, weights=EDIT_WEIGHTS, avoid={"owned_node_outputs"})
        for _ in range(rng.randint(1, 30)):
            w.apply(g.op())
        edited = True
        feats.add("edit_history")
    # the dimensions below draw from their own stream, so the base models are those of earlier versions
    info: dict[str, int] = {}
    xr = ctx.rng(case, "scopes")
    if xr.random() < 0.3 and c03_scopes.add_deep_captures(model, xr):
        feats.add("deep_capture_graph")
    gen_ir.uniquify_names(model)
    # omitted optional outputs may be unnamed as None as well as "" (a graph names None outputs
    # when the node is added, so this state is reached by un-naming afterwards)
    for g in [model.graph] + [f.graph for f in model.functions.values()]:
        for n in g:
            outs = list(n.outputs)
            while outs and outs[-1].name == "" and not outs[-1].uses() and not outs[-1].is_graph_output():
                if rng.random() < 0.5:
                    outs[-1].name = None
                    feats.add("none_named_output")
                outs.pop()
    if (model.ir_version or 0) >= 11 and not edited and rng.random() < 0.7:
        if gen_ir.annotate_devices(model, rng):
            feats.add("device_annotations")
    # values holding several roles at once and the per-value payload the format keeps outside the value's own
    # ValueInfoProto (own stream; a fixed stratum of the case plan so that the floors do not depend on chance)
    qr = ctx.rng(case, "roles")
    stratum = case % 3 == 0
    if stratum or qr.random() < 0.15:
        for k, n in c03_roles.multiply_roles(model, qr, p=0.7 if stratum else 0.4).items():
            info["role_added:" + k] = n
            feats.add("roles_multiplied")
    if stratum or qr.random() < 0.2:
        if c03_roles.annotate_quant(model, qr, p=qr.choice([0.15, 0.4, 0.8])):
            feats.add("quant_annotations")
    # loaded-then-edited models (own stream): tensors of every class carry metadata; the model is taken
    # through to_proto/from_proto (so its tensors are proto-backed and every mapping / doc string / name
    # was initialised from a proto field) and is then edited through the public API
    rr = ctx.rng(case, "reload")
    if rr.random() < 0.5 and c03_reload.decorate_tensors(model, rr):
        feats.add("tensor_metadata")
    if rr.random() < 0.4 and not unsupported(model):
        loaded = c03_reload.reload(model, rr)
        if loaded is None:
            feats.add("reload_refused")
        else:
            model = loaded
            feats.add("reloaded")
            if rr.random() < 0.9:
                for k, n in c03_reload.scrub(model, rr).items():
                    info["post_load_edit:" + k] = n
                if any(k.startswith("post_load_edit:") for k in info):
                    feats.add("edited_after_load")
            if "quant_annotations" in feats and qr.random() < 0.5:
                for k, n in c03_roles.edit_quant(model, qr).items():
                    info["post_load_quant_annotation:" + k] = n
                    feats.add("quant_annotations_edited_after_load")
            if qr.random() < 0.15:
                for k, n in c03_roles.multiply_roles(model, qr, p=0.5).items():
                    info["post_load_role_added:" + k] = n
                    feats.add("roles_multiplied_after_load")
            if rr.random() < 0.2:
                w = World()
                w.adopt_model(model)
                g = Gen(rr, w, hostile=0.08, weights=EDIT_WEIGHTS, avoid={"owned_node_outputs"})
                for _ in range(rr.randint(1, 10)):
                    w.apply(g.op())
                gen_ir.uniquify_names(model)
                edited = True
                feats.add("edit_history")
                feats.add("edit_history_after_load")
    if xr.random() < 0.5:
        if c03_scopes.collide_names(model, xr):
            feats.add("cross_scope_names")
    if xr.random() < 0.45:
        feats |= c03_scopes.vary_opset_imports(model, xr)
    return model, feats, edited, info


def judge(ctx, model, feats, edited, case, info=None):
    problems = unsupported(model)
    if problems:
        ctx.count("skipped_outside_domain")
        ctx.count("skip:" + re.split(r"[ '\[]", problems[0])[0])
        if any(p == "shape without type" for p in problems):
            ctx.count("report_only_shape_without_type")
        return
    w = World()
    w.adopt_model(model)
    pre = snapshot.snapshot(w)
    pre_t = c03_reload.tensor_observables(model)
    try:
        p1 = ir.to_proto(model)
    except Exception as e:  # noqa: BLE001 - the statement is about models that serialise
        ctx.count("serialization_raised")
        ctx.count("serexc:" + type(e).__name__)
        if not edited:
            ctx.violation(f"serialize-raised|{type(e).__name__}", f"to_proto raised on a generated well-scoped model: {e!r}"[:1500],
                          {"case": case, "seed": ctx.seed})
        return
    post = snapshot.snapshot(w)
    ctx.count("snapshots_compared")
    for label, field, a, b in snapshot.diff(pre, post, limit=40):
        if field == "const" and a is not None and b is not None and len(a) == len(b):
            # allowed: the tensor's own name is aligned with the value's name (initializers)
            v = w.values[int(label[1:])]
            same_but_name = a[:3] == b[:3] and a[4:] == b[4:]
            t = v.const_value
            holders = {o.name for o in w.values if o.const_value is t and o.is_initializer()}
            if same_but_name and b[3] in holders:
                ctx.count("allowed_tensor_name_alignment")
                continue
        ctx.violation(f"serialize-side-effect|{label[0]}.{field}",
                      f"to_proto changed the model: {label}.{field}: {a!r} -> {b!r}", {"case": case, "seed": ctx.seed})
        return
    post_t = c03_reload.tensor_observables(model)
    ctx.count("tensors_compared_across_to_proto", len(pre_t))
    if len(pre_t) != len(post_t):
        ctx.violation("serialize-side-effect|tensor set", f"to_proto changed the tensors reachable from the model: "
                      f"{len(pre_t)} -> {len(post_t)}", {"case": case, "seed": ctx.seed})
        return
    for (role, a), (_, b) in zip(pre_t, post_t):
        if a != b:
            field = next(k for k in a if a.get(k) != b.get(k))
            ctx.violation(f"serialize-side-effect|{role} tensor {a['class']}.{field}",
                          f"to_proto changed a tensor of the model ({role}): {a!r} -> {b!r}"[:1500],
                          {"case": case, "seed": ctx.seed})
            return
    p2 = ir.to_proto(model)
    if p1.SerializeToString(deterministic=True) != p2.SerializeToString(deterministic=True):
        ctx.violation("serialize-twice-differs", "two consecutive to_proto(model) calls gave different protos",
                      {"case": case, "seed": ctx.seed})
        return
    try:
        back = ir.from_proto(p1)
    except Exception as e:  # noqa: BLE001
        ctx.violation(f"deserialize-own-output-raised|{type(e).__name__}",
                      f"from_proto(to_proto(model)) raised {e!r}"[:1500], {"case": case, "seed": ctx.seed})
        return
    iso = c03_roles.Iso()
    diffs = iso.model(model, back)
    for what in iso.report_only:
        ctx.count("report_only_" + what)
    ctx.count("roundtrips_judged")
    ctx.count("quant_annotations_compared", iso.annotations_compared)
    by_roles = c03_roles.annotated_by_roles(model)
    for k, n in by_roles.items():
        ctx.count("quant_annotated:" + k, n)
    if any("+" in k for k in by_roles):
        ctx.count("judged_with_quant_annotation_on_multi_role_value")
    if "quant_annotations_edited_after_load" in feats:
        ctx.count("judged_with_quant_annotations_edited_after_load")
    dup = c03_roles.duplicate_annotations(p1)
    if dup:
        ctx.count("report_only_tensor_annotated_twice_in_one_graph_proto", dup)
    if "cross_scope_names" in feats:
        ctx.count("judged_with_cross_scope_names")
        for rel, k in c03_scopes.cross_scope_collisions(model).items():
            if k:
                ctx.count("cross_scope_names:" + rel)
        if c03_scopes.shadowed_captures(model):
            ctx.count("judged_with_shadowed_capture")
    if "opset_both_default_spellings" in feats:
        ctx.count("judged_with_both_default_domain_spellings")
    if edited:
        ctx.count("edited_models_judged")
    for k, n in (info or {}).items():
        ctx.count(k, n)
    if "reloaded" in feats:
        ctx.count("loaded_models_judged")
        if "edited_after_load" in feats:
            ctx.count("loaded_then_edited_models_judged")
        for k, n in c03_reload.stale_backing(model).items():
            ctx.count(k, n)
            if n and k != "proto_backed_tensors":
                ctx.count("judged_with_" + k)
    nnodes = sum(1 for _ in model.graph.all_nodes())
    for f in feats:
        ctx.count("feature:" + f)
    big = {"subgraph", "function", "sequence_type", "optional_type", "sparse_type", "metadata_props", "lazy_tensor",
           "proto_tensor", "string_tensor", "lowbit_tensor", "unsorted_nodes", "edit_history", "ref_attr",
           "outer_value_as_subgraph_output", "empty_named_output", "dim_denotation", "type_proto_attr", "device_annotations",
           "edited_after_load", "tensor_metadata"}
    ctx.evaluation(key=p1.SerializeToString(deterministic=True).hex()[:4000], nontrivial=(nnodes >= 4 and len(feats & big) >= 3))
    if case % 61 == 0:
        ctx.sample({"case": case, "nodes": nnodes, "features": sorted(feats), "edited": edited,
                    "text": str(model.graph)[:600]})
    if diffs:
        ctx.violation(roundtrip_signature(diffs),
                      "IR -> proto -> IR is not isomorphic:\n  " + "\n  ".join(diffs[:8]), {"case": case, "seed": ctx.seed})


def _tensor_shared_with_initializer(w, v) -> bool:
    t = v.const_value
    return t is not None and any(o.const_value is t and o.is_initializer() for o in w.values)


def run_case(ctx, case):
    model, feats, edited, info = build(ctx, case)
    judge(ctx, model, feats, edited, case, info)


def run(ctx) -> None:
    for case in ctx.case_ids():
        run_case(ctx, case)


def replay(data, ctx) -> None:
    ctx.seed = data.get("seed", ctx.seed)
    run_case(ctx, data["case"])
